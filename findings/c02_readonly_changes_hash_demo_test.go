package iavl

// Demonstration (not part of the machinery) of KNOWN FINDING C02: with a
// configured initial version, a read-only proof query on the working tree
// memoises node hashes computed for version 1 instead of the working version,
// and the following commit returns a different root hash.
//   go test -run TestVerifReadOnlyChangesHash .

import (
	"testing"

	"github.com/stretchr/testify/require"

	dbm "github.com/cosmos/iavl/db"
)

func TestVerifReadOnlyChangesHash(t *testing.T) {
	run := func(withProofQuery bool) []byte {
		tree := NewMutableTree(dbm.NewMemDB(), 0, false, NewNopLogger(), InitialVersionOption(10))
		_, err := tree.Set([]byte("a"), []byte("1"))
		require.NoError(t, err)
		_, err = tree.Set([]byte("b"), []byte("2"))
		require.NoError(t, err)
		if withProofQuery {
			_, err = tree.GetMembershipProof([]byte("a"))
			require.NoError(t, err)
		}
		hash, v, err := tree.SaveVersion()
		require.NoError(t, err)
		require.EqualValues(t, 10, v)
		return hash
	}
	require.Equal(t, run(false), run(true), "a read-only proof query changed the root hash of the next commit")
}
