package iavl

import (
	"testing"

	dbm "github.com/cosmos/iavl/db"
)

// C08: IterateRangeInclusive on a working tree that holds an uncommitted leaf.
func TestC08InclusiveIterationOverWorkingTree(t *testing.T) {
	tree := NewMutableTree(dbm.NewMemDB(), 0, false, NewNopLogger())
	if _, err := tree.Set([]byte("a"), []byte("1")); err != nil {
		t.Fatal(err)
	}
	if _, _, err := tree.SaveVersion(); err != nil {
		t.Fatal(err)
	}
	if _, err := tree.Set([]byte("b"), []byte("2")); err != nil { // uncommitted
		t.Fatal(err)
	}
	var got []string
	tree.IterateRangeInclusive(nil, nil, true, func(k, v []byte, version int64) bool {
		got = append(got, string(k))
		return false
	})
	if len(got) != 2 || got[0] != "a" || got[1] != "b" {
		t.Fatalf("got %v, want [a b]", got)
	}
}
