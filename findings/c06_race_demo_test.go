package iavl

// Demonstration (not part of the machinery): readers of committed versions
// racing with the single writer.  go test -race -run TestVerifReaderWriterRace .
// On the pinned tree the race detector reports Node.clone (writer) writing
// leftNode/rightNode of a cached, persisted node that a reader is traversing.

import (
	"fmt"
	"sync"
	"testing"

	"github.com/stretchr/testify/require"

	dbm "github.com/cosmos/iavl/db"
)

func TestVerifReaderWriterRace(t *testing.T) {
	tree := NewMutableTree(dbm.NewMemDB(), 1000, true, NewNopLogger())
	for i := 0; i < 200; i++ {
		_, err := tree.Set([]byte(fmt.Sprintf("k%04d", i)), []byte("v"))
		require.NoError(t, err)
	}
	_, _, err := tree.SaveVersion()
	require.NoError(t, err)
	imm, err := tree.GetImmutable(1)
	require.NoError(t, err)

	var wg sync.WaitGroup
	stop := make(chan struct{})
	for r := 0; r < 4; r++ {
		wg.Add(1)
		go func() {
			defer wg.Done()
			for {
				select {
				case <-stop:
					return
				default:
				}
				for i := 0; i < 200; i += 7 {
					_, _, _ = imm.GetWithIndex([]byte(fmt.Sprintf("k%04d", i)))
				}
			}
		}()
	}
	for round := 0; round < 30; round++ {
		for i := 0; i < 200; i += 3 {
			_, err := tree.Set([]byte(fmt.Sprintf("k%04d", i)), []byte(fmt.Sprintf("w%d", round)))
			require.NoError(t, err)
		}
		_, _, err := tree.SaveVersion()
		require.NoError(t, err)
	}
	close(stop)
	wg.Wait()
}
