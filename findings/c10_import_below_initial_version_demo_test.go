// Demonstration for the fixed defect C10 "a refused import is already in the database".
// Copy into the repository root (package iavl): go test -vet=off -count=1 -run TestC10ImportBelowInitialVersion .
package iavl

import (
	"testing"

	"github.com/stretchr/testify/require"

	dbm "github.com/cosmos/iavl/db"
)

func TestC10ImportBelowInitialVersion(t *testing.T) {
	db := dbm.NewMemDB()
	tree := NewMutableTree(db, 0, false, NewNopLogger(), InitialVersionOption(10))
	imp, err := tree.Import(5)
	if err == nil {
		require.NoError(t, imp.Add(&ExportNode{Key: []byte("a"), Value: []byte("1"), Version: 5, Height: 0}))
		err = imp.Commit()
		imp.Close()
	}
	require.Error(t, err, "a version below the configured initial version cannot be imported")
	// the import was refused: nothing may have become visible
	re := NewMutableTree(db, 0, false, NewNopLogger())
	v, err := re.Load()
	require.NoError(t, err)
	require.EqualValues(t, 0, v, "a refused import left a loadable version behind")
}
