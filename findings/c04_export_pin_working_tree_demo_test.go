package iavl

// Demonstration (not part of the machinery), C04/C06: an export taken through MutableTree.Export() exports the working
// tree object; SaveVersion overwrites that object's version in place, so Close() released the pin of the NEW version and
// left the exported version pinned for ever.  go test -vet=off -count=1 -run TestExportPinOfWorkingTree .

import (
	"testing"

	"github.com/stretchr/testify/require"

	dbm "github.com/cosmos/iavl/db"
)

func TestExportPinOfWorkingTree(t *testing.T) {
	tree := NewMutableTree(dbm.NewMemDB(), 0, true, NewNopLogger())
	for i := 0; i < 3; i++ {
		_, err := tree.Set([]byte{byte('a' + i)}, []byte("1"))
		require.NoError(t, err)
		_, _, err = tree.SaveVersion()
		require.NoError(t, err)
	}
	exp, err := tree.Export() // pins version 3
	require.NoError(t, err)
	_, err = tree.Set([]byte("z"), []byte("1"))
	require.NoError(t, err)
	_, _, err = tree.SaveVersion() // version 4
	require.NoError(t, err)
	it4, err := tree.GetImmutable(4)
	require.NoError(t, err)
	exp4, err := it4.Export() // pins version 4
	require.NoError(t, err)
	_, _, err = tree.SaveVersion() // version 5, so that 4 can be pruned
	require.NoError(t, err)

	exp.Close()
	// the second export is still open: version 4 must stay
	require.Error(t, tree.DeleteVersionsTo(4), "version 4 is pinned by an open export")
	exp4.Close()
	// nothing is open any more: pruning up to 4 (which includes the once exported version 3) must work
	require.NoError(t, tree.DeleteVersionsTo(4))
}
