package iavl

// Demonstration (not part of the machinery), C17: a Set that fails on a storage read reported the error but left the
// working tree EMPTY (the nil node returned next to the error was stored as the new root).
// go test -vet=off -count=1 -run TestFailedSetKeepsWorkingTree .

import (
	"errors"
	"fmt"
	"testing"

	corestore "cosmossdk.io/core/store"
	"github.com/stretchr/testify/require"

	dbm "github.com/cosmos/iavl/db"
)

type failGetDB struct {
	corestore.KVStoreWithBatch
	fail bool
}

func (f *failGetDB) Get(k []byte) ([]byte, error) {
	if f.fail {
		return nil, errors.New("injected read fault")
	}
	return f.KVStoreWithBatch.Get(k)
}

func TestFailedSetKeepsWorkingTree(t *testing.T) {
	fdb := &failGetDB{KVStoreWithBatch: dbm.NewMemDB()}
	tree := NewMutableTree(fdb, 0, true, NewNopLogger()) // cache size 0: every descent reads storage
	for i := 0; i < 16; i++ {
		_, err := tree.Set([]byte(fmt.Sprintf("k%02d", i)), []byte("v"))
		require.NoError(t, err)
	}
	_, _, err := tree.SaveVersion()
	require.NoError(t, err)

	fdb.fail = true
	_, err = tree.Set([]byte("k05"), []byte("new"))
	require.Error(t, err, "a Set whose descent cannot read a node reports the failure")
	fdb.fail = false

	// the failed Set changed nothing
	require.Equal(t, int64(16), tree.Size())
	v, err := tree.Get([]byte("k05"))
	require.NoError(t, err)
	require.Equal(t, "v", string(v))
	has, err := tree.Has([]byte("k00"))
	require.NoError(t, err)
	require.True(t, has)
}
