package iavl

// Demonstration (not part of the machinery): storage faults that the pinned
// tree reported as success.  Copy into a worktree of cosmos/iavl and run
//   go test -run 'TestVerifDemo' .
// Fails on the pinned commit, passes after the fix: commits.

import (
	"errors"
	"fmt"
	"os"
	"os/exec"
	"testing"

	corestore "cosmossdk.io/core/store"
	"github.com/stretchr/testify/require"

	dbm "github.com/cosmos/iavl/db"
)

var errInjected = errors.New("injected storage fault")

type faultDB struct {
	corestore.KVStoreWithBatch
	failGets   bool
	failWrites bool
}

func (f *faultDB) Get(k []byte) ([]byte, error) {
	if f.failGets {
		return nil, errInjected
	}
	return f.KVStoreWithBatch.Get(k)
}
func (f *faultDB) Has(k []byte) (bool, error) {
	if f.failGets {
		return false, errInjected
	}
	return f.KVStoreWithBatch.Has(k)
}
func (f *faultDB) NewBatch() corestore.Batch { return &faultBatch{f.KVStoreWithBatch.NewBatch(), f} }
func (f *faultDB) NewBatchWithSize(n int) corestore.Batch {
	return &faultBatch{f.KVStoreWithBatch.NewBatchWithSize(n), f}
}

type faultBatch struct {
	corestore.Batch
	f *faultDB
}

func (b *faultBatch) Write() error {
	if b.f.failWrites {
		return errInjected
	}
	return b.Batch.Write()
}

func buildTree(t *testing.T, fdb *faultDB, skipFast bool) *MutableTree {
	tree := NewMutableTree(fdb, 0, skipFast, NewNopLogger())
	for i := 0; i < 64; i++ {
		_, err := tree.Set([]byte(fmt.Sprintf("key-%03d", i)), []byte("v"))
		require.NoError(t, err)
	}
	_, _, err := tree.SaveVersion()
	require.NoError(t, err)
	return tree
}

func TestVerifDemoIterateReportsFault(t *testing.T) {
	fdb := &faultDB{KVStoreWithBatch: dbm.NewMemDB()}
	tree := buildTree(t, fdb, true)
	imm, err := tree.GetImmutable(1)
	require.NoError(t, err)
	fdb.failGets = true
	n := 0
	_, err = imm.Iterate(func(k, v []byte) bool { n++; return false })
	require.Error(t, err, "iteration visited %d of 64 keys and reported success", n)
}

func TestVerifDemoGetVersionedReportsFault(t *testing.T) {
	fdb := &faultDB{KVStoreWithBatch: dbm.NewMemDB()}
	tree := buildTree(t, fdb, true)
	_, err := tree.Set([]byte("key-000"), []byte("w"))
	require.NoError(t, err)
	_, _, err = tree.SaveVersion()
	require.NoError(t, err)
	fdb.failGets = true
	v, err := tree.GetVersioned([]byte("key-000"), 1)
	require.Error(t, err, "GetVersioned returned %q, nil although every storage read fails", v)
}

func TestVerifDemoExportReportsFault(t *testing.T) {
	fdb := &faultDB{KVStoreWithBatch: dbm.NewMemDB()}
	tree := buildTree(t, fdb, true)
	imm, err := tree.GetImmutable(1)
	require.NoError(t, err)
	fdb.failGets = true
	exp, err := imm.Export()
	require.NoError(t, err)
	defer exp.Close()
	n := 0
	for {
		_, err = exp.Next()
		if err != nil {
			break
		}
		n++
	}
	require.NotErrorIs(t, err, ErrorExportDone, "export yielded %d of 127 nodes and then reported completion", n)
}

func TestVerifDemoBatchFlushFault(t *testing.T) {
	if os.Getenv("VERIF_DEMO_CHILD") == "1" {
		fdb := &faultDB{KVStoreWithBatch: dbm.NewMemDB(), failWrites: true}
		b := NewBatchWithFlusher(fdb, 10)
		err := b.Set([]byte("key"), []byte("a value longer than the threshold"))
		if err == nil {
			os.Exit(3)
		}
		os.Exit(0)
	}
	cmd := exec.Command(os.Args[0], "-test.run", "TestVerifDemoBatchFlushFault")
	cmd.Env = append(os.Environ(), "VERIF_DEMO_CHILD=1")
	out, err := cmd.CombinedOutput()
	require.NoError(t, err, "child aborted instead of returning the write error:\n%s", out)
}
