package iavl

// Demonstration (not part of the machinery), C13: readers of stored bytes that panicked instead of returning an error.
// go test -vet=off -count=1 -run TestC13ReadersAreTotal .

import (
	"testing"

	"github.com/stretchr/testify/require"

	dbm "github.com/cosmos/iavl/db"
)

func TestC13ReadersAreTotal(t *testing.T) {
	// (1) the reference-root reader on the stored form of an empty tree's root (an empty value)
	require.NotPanics(t, func() { isReferenceRoot([]byte{}) })
	tree := NewMutableTree(dbm.NewMemDB(), 0, true, NewNopLogger())
	_, _, err := tree.SaveVersion() // empty tree: root record is an empty value
	require.NoError(t, err)
	require.NotPanics(t, func() { _, _ = tree.ndb.nodes() })

	// (2) a stored inner node whose legacy child link has a wrong length: the walk must fail with an error
	for _, n := range []int{1, 5, 11, 13, 31, 33} {
		nk := make([]byte, n)
		require.NotPanics(t, func() {
			_, err := tree.ndb.GetNode(nk)
			require.Error(t, err, "node key of length %d", n)
		}, "node key of length %d", n)
	}
}
