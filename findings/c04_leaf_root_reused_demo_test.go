// Demonstration for the known finding C04/C14/C12 "single-leaf root reused by later trees".
// Copy into the repository root (package iavl) and run
//   go test -vet=off -count=1 -run TestC04LeafRootReused -v .
// Both tests FAIL on the pinned tree.
package iavl

import (
	"testing"

	"github.com/stretchr/testify/require"

	dbm "github.com/cosmos/iavl/db"
)

// Version 1 is the single leaf "a"; versions 2 and 3 reuse that leaf as a child, so its storage key
// (1,1) - which is also what hasVersion(1) probes - rightly survives DeleteVersionsTo(2).  A reopened
// database binary-searches its first version with hasVersion and lands on the deleted version 1.
func TestC04LeafRootReusedRestart(t *testing.T) {
	db := dbm.NewMemDB()
	tree := NewMutableTree(db, 0, true, NewNopLogger())
	for _, k := range []string{"a", "b", "c"} {
		_, err := tree.Set([]byte(k), []byte("1"))
		require.NoError(t, err)
		_, _, err = tree.SaveVersion()
		require.NoError(t, err)
	}
	require.NoError(t, tree.DeleteVersionsTo(2))
	require.Equal(t, []int{3}, tree.AvailableVersions())

	reopened := NewMutableTree(db, 0, true, NewNopLogger())
	_, err := reopened.Load()
	require.NoError(t, err)
	require.Equal(t, []int{3}, reopened.AvailableVersions(), "deleted versions are listed again after a restart")
	require.False(t, reopened.VersionExists(1))
}

// When the reused leaf is finally orphaned (removed in version 3, version 2 pruned), the orphan
// callback takes its key (1,1) for a re-keyed reference root, deletes the non-existing (1,0) and
// leaves (1,1) behind: an unreachable node that also keeps hasVersion(1) true for good.
func TestC04LeafRootReusedLeak(t *testing.T) {
	db := dbm.NewMemDB()
	tree := NewMutableTree(db, 0, true, NewNopLogger())
	_, err := tree.Set([]byte("a"), []byte("1"))
	require.NoError(t, err)
	_, _, err = tree.SaveVersion()
	require.NoError(t, err)
	_, err = tree.Set([]byte("b"), []byte("1"))
	require.NoError(t, err)
	_, _, err = tree.SaveVersion()
	require.NoError(t, err)
	_, _, err = tree.Remove([]byte("a"))
	require.NoError(t, err)
	_, _, err = tree.SaveVersion()
	require.NoError(t, err)
	require.NoError(t, tree.DeleteVersionsTo(2))
	has, err := db.Has(nodeKeyFormat.Key((&NodeKey{version: 1, nonce: 1}).GetKey()))
	require.NoError(t, err)
	require.False(t, has, "leaf (1,1) is reachable from no retained version but is still stored")
}
