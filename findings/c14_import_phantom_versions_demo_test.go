// Demonstration for the known finding C14 "an import whose root is older than the imported version creates phantom versions".
// Copy into the repository root (package iavl): go test -vet=off -count=1 -run TestC14ImportPhantomVersions .
// FAILS on the pinned tree and on the current one.
package iavl

import (
	"testing"

	"github.com/stretchr/testify/require"

	dbm "github.com/cosmos/iavl/db"
)

func TestC14ImportPhantomVersions(t *testing.T) {
	tree := NewMutableTree(dbm.NewMemDB(), 0, true, NewNopLogger())
	imp, err := tree.Import(10)
	require.NoError(t, err)
	// the exported version 10 was saved without changes since version 5: its root carries version 5
	require.NoError(t, imp.Add(&ExportNode{Key: []byte("a"), Value: []byte("1"), Version: 5, Height: 0}))
	require.NoError(t, imp.Commit())
	require.Equal(t, []int{10}, tree.AvailableVersions(), "only version 10 was imported")
	require.False(t, tree.VersionExists(7))
}
