// Demonstration for the fixed defect C18 "PrefixDB reverse iteration with a prefix ending in 0xFF": FAILS before the fix.
// Copy into db/ (package db): go test -vet=off -count=1 -run TestC18PrefixDBReverseIteratorPrefixEndingInFF ./db
package db

import (
	"testing"

	"github.com/stretchr/testify/require"
)

// A namespace whose prefix ends in 0xFF (but is not all 0xFF), and a parent key that sorts between the
// true end of the namespace and the same-length increment of the prefix ({0x02} lies in [{01 FF}, {02 00})).
func TestC18PrefixDBReverseIteratorPrefixEndingInFF(t *testing.T) {
	for name, parent := range map[string]func() *MemDB{"memdb": NewMemDB} {
		t.Run(name, func(t *testing.T) {
			par := parent()
			p := NewPrefixDB(par, []byte{0x01, 0xFF})
			require.NoError(t, p.Set([]byte("a"), []byte("1")))
			require.NoError(t, p.Set([]byte("b"), []byte("2")))
			require.NoError(t, par.Set([]byte{0x02}, []byte("outside")))

			var fwd, rev []string
			it, err := p.Iterator(nil, nil)
			require.NoError(t, err)
			for ; it.Valid(); it.Next() {
				fwd = append(fwd, string(it.Key()))
			}
			require.NoError(t, it.Close())
			rit, err := p.ReverseIterator(nil, nil)
			require.NoError(t, err)
			for ; rit.Valid(); rit.Next() {
				rev = append(rev, string(rit.Key()))
			}
			require.NoError(t, rit.Close())
			require.Equal(t, []string{"a", "b"}, fwd)
			require.Equal(t, []string{"b", "a"}, rev)
		})
	}
}
