// Demonstration for the fixed defect "rollback keeps the fast index label" (C07/C09): FAILS before /repo commit 80d0c0e.
// Copy into the repository root (package iavl): go test -vet=off -count=1 -run TestPreSkipModeRollbackLabelCollision .
package iavl

import (
	"testing"

	dbm "github.com/cosmos/iavl/db"
)

// index enabled at v1,v2; skip-mode session rolls back to v1 and commits a different v2;
// re-enabled session: label "1.1.0-2" == latest 2 -> no rebuild -> stale
func TestPreSkipModeRollbackLabelCollision(t *testing.T) {
	db := dbm.NewMemDB()
	tree := NewMutableTree(db, 100, false, NewNopLogger())
	tree.Load()
	tree.Set([]byte("a"), []byte("a1"))
	tree.Set([]byte("b"), []byte("b1"))
	tree.SaveVersion()
	tree.Set([]byte("a"), []byte("a2"))
	tree.SaveVersion()

	tree = NewMutableTree(db, 100, true, NewNopLogger())
	if err := tree.LoadVersionForOverwriting(1); err != nil {
		t.Fatal(err)
	}
	tree.Set([]byte("a"), []byte("other"))
	tree.Remove([]byte("b"))
	if _, v, err := tree.SaveVersion(); err != nil || v != 2 {
		t.Fatal(v, err)
	}

	tree = NewMutableTree(db, 100, false, NewNopLogger())
	if _, err := tree.Load(); err != nil {
		t.Fatal(err)
	}
	for _, k := range []string{"a", "b"} {
		fast, _ := tree.Get([]byte(k))
		_, slow, _ := tree.GetWithIndex([]byte(k))
		if string(fast) != string(slow) {
			t.Errorf("Get(%s)=%q tree walk %q", k, fast, slow)
		}
	}
}
