// Demonstration for the known finding C20 "replayed leaves keep a stale or missing value when leaves are not evicted".
// Copy into v2/ (package iavl): go test -vet=off -count=1 -run TestC20ReplayWithHeightFilterZero .
// FAILS on the pinned tree and on the current one.
package iavl

import (
	"fmt"
	"testing"

	"github.com/stretchr/testify/require"
)

func TestC20ReplayWithHeightFilterZero(t *testing.T) {
	dir := t.TempDir()
	opts := DefaultTreeOptions()
	opts.HeightFilter = 0
	opts.CheckpointInterval = 100
	pool := NewNodePool()
	sql, err := NewSqliteDb(pool, SqliteDbOptions{Path: dir})
	require.NoError(t, err)
	tree := NewTree(sql, pool, opts)
	for i := 0; i < 8; i++ {
		_, err := tree.Set([]byte(fmt.Sprintf("key-%02d", i)), []byte("x"))
		require.NoError(t, err)
	}
	_, _, err = tree.SaveVersion()
	require.NoError(t, err)
	_, err = tree.Set([]byte("key-03"), []byte("y"))
	require.NoError(t, err)
	_, err = tree.Set([]byte("key-99"), []byte("new"))
	require.NoError(t, err)
	h2, _, err := tree.SaveVersion()
	require.NoError(t, err)
	require.NoError(t, tree.Close())

	pool = NewNodePool()
	sql, err = NewSqliteDb(pool, SqliteDbOptions{Path: dir})
	require.NoError(t, err)
	re := NewTree(sql, pool, opts)
	require.NoError(t, re.LoadVersion(2)) // checkpoint at version 1, version 2 is replayed
	require.Equal(t, h2, re.root.hash)
	got, err := re.Get([]byte("key-03"))
	require.NoError(t, err)
	require.Equal(t, "y", string(got), "value written in the replayed version")
	got, err = re.Get([]byte("key-99"))
	require.NoError(t, err)
	require.Equal(t, "new", string(got), "key created in the replayed version")
	require.NoError(t, re.Close())
}
