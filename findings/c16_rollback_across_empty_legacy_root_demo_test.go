// Demonstration for the fixed defect C16/C09 "rollback across an empty legacy version": FAILS (panicked before a93d2e9) without the fix.
// Copy into the repository root (package iavl): go test -vet=off -count=1 -run TestC16RollbackAcrossEmptyLegacyRoot .
// The legacy-database generator (seed3*) was written by a seeding sub-agent for its own seed; its TestSeed* control is kept.
// Demonstration for seeded defect 3 (property C16).
// Copy this file into the repository root directory (package iavl), e.g. as
// seed_demo3_test.go, and run:  go test -vet=off -count=1 -run TestSeed3 .
//
// Scenario: a legacy database (its orphan records o<to><from><hash> are in place) is
// rolled back INSIDE the legacy range with LoadVersionForOverwriting, new versions are
// committed on the legacy version that became the latest one, and the legacy versions are
// then pruned with DeleteVersionsTo at (or above) the new boundary. The new versions
// are meant to remain, with their contents and canonical hashes.
package iavl

import (
	"bytes"
	"fmt"
	"sort"
	"testing"

	"github.com/stretchr/testify/require"

	dbm "github.com/cosmos/iavl/db"
	"github.com/cosmos/iavl/internal/encoding"
)

func seed3Run(t *testing.T, deleted []int64, pruneTo int64) {
	lg := seed3BuildLegacy(t, seed3History(8), deleted)

	tree := NewMutableTree(lg.db, 100, false, NewNopLogger())
	v, err := tree.Load()
	require.NoError(t, err)
	require.Equal(t, int64(8), v)

	// roll back to the legacy version 5 (the reference tree follows)
	require.NoError(t, tree.LoadVersionForOverwriting(5))
	require.NoError(t, lg.ref.LoadVersionForOverwriting(5))
	lg.cur = map[string]string{}
	for k, val := range lg.contents[5] {
		lg.cur[k] = val
	}
	for version := int64(6); version <= 8; version++ {
		delete(lg.contents, version)
		delete(lg.hashes, version)
	}
	for version := range lg.contents {
		seed3CheckVersion(t, lg, version)
	}

	// new versions 6 and 7 on top of the legacy version 5
	require.Equal(t, int64(6), seed3Commit(t, tree, lg, []seed3Op{seed3Set("k01-0", "six"), seed3Set("new6", "x")}))
	require.Equal(t, int64(7), seed3Commit(t, tree, lg, []seed3Op{seed3Del("k02-2")}))
	for version := range lg.contents {
		seed3CheckVersion(t, lg, version)
	}

	// prune the legacy versions
	require.NoError(t, tree.DeleteVersionsTo(pruneTo))
	want := []int{}
	for version := pruneTo + 1; version <= 7; version++ {
		want = append(want, int(version))
	}
	require.Equal(t, want, tree.AvailableVersions())
	for version := pruneTo + 1; version <= 7; version++ {
		seed3CheckVersion(t, lg, version)
	}

	// reopening, and life goes on
	tree = NewMutableTree(lg.db, 100, false, NewNopLogger())
	v, err = tree.Load()
	require.NoError(t, err)
	require.Equal(t, int64(7), v)
	require.Equal(t, int64(8), seed3Commit(t, tree, lg, []seed3Op{seed3Set("k05-3", "eight")}))
	for version := pruneTo + 1; version <= 8; version++ {
		seed3CheckVersion(t, lg, version)
	}
}

func TestSeed3RollbackInLegacyRangeThenPruneAtBoundary(t *testing.T) {
	seed3Run(t, nil, 5)
}

func TestSeed3RollbackInLegacyRangeThenPruneAtBoundaryWithLegacyDeletions(t *testing.T) {
	seed3Run(t, []int64{2, 4}, 5)
}

func TestSeed3RollbackInLegacyRangeThenPruneAboveBoundary(t *testing.T) {
	seed3Run(t, []int64{3}, 6)
}

// seed3History is a legacy history with inserts, updates and removals in every version
// (the first version also creates a base of 40 keys that are mostly left alone, so that
// many nodes of early versions stay alive in all later ones).
func seed3History(n int) [][]seed3Op {
	h := [][]seed3Op{}
	for v := 1; v <= n; v++ {
		ops := []seed3Op{}
		if v == 1 {
			for j := 0; j < 40; j++ {
				ops = append(ops, seed3Set(fmt.Sprintf("base%02d", j), fmt.Sprintf("b%d", j)))
			}
		} else {
			ops = append(ops, seed3Set(fmt.Sprintf("base%02d", 4*v), fmt.Sprintf("b-upd%d", v)))
			ops = append(ops, seed3Del(fmt.Sprintf("base%02d", 4*v+1)))
		}
		for j := 0; j < 4; j++ {
			ops = append(ops, seed3Set(fmt.Sprintf("k%02d-%d", v, j), fmt.Sprintf("v%d-%d", v, j)))
		}
		if v > 1 {
			ops = append(ops, seed3Set(fmt.Sprintf("k%02d-%d", v-1, 0), fmt.Sprintf("upd%d", v)))
			ops = append(ops, seed3Del(fmt.Sprintf("k%02d-%d", v-1, 1)))
		}
		h = append(h, ops)
	}
	return h
}

// ---- deterministic legacy database generator with an oracle ----
//
// The history is built with the current library in a scratch database (which is
// kept as the REFERENCE for canonical hashes of later versions), and every
// version is re-encoded in the legacy, hash keyed layout of iavl 0.x:
//   n<hash>              -> height, size, version, key, value | leftHash, rightHash
//   r<version>           -> root hash
//   o<to><from><hash>    -> hash   (orphan record: the node lived in versions from..to)
// Legacy-side DeleteVersion calls are replayed on top (re-keying / dropping orphans).

type seed3Op struct {
	del bool
	k   string
	v   string
}

type seed3Legacy struct {
	db       *dbm.MemDB
	ref      *MutableTree // reference tree (pure new format) holding the same history
	latest   int64
	contents map[int64]map[string]string
	hashes   map[int64][]byte
	cur      map[string]string
}

func seed3Set(k, v string) seed3Op { return seed3Op{k: k, v: v} }
func seed3Del(k string) seed3Op    { return seed3Op{del: true, k: k} }

func seed3Apply(t *testing.T, tree *MutableTree, ops []seed3Op) {
	t.Helper()
	for _, op := range ops {
		if op.del {
			_, removed, err := tree.Remove([]byte(op.k))
			require.NoError(t, err)
			require.True(t, removed)
		} else {
			_, err := tree.Set([]byte(op.k), []byte(op.v))
			require.NoError(t, err)
		}
	}
}

func seed3BuildLegacy(t *testing.T, history [][]seed3Op, deleted []int64) *seed3Legacy {
	t.Helper()
	src := NewMutableTree(dbm.NewMemDB(), 0, true, NewNopLogger())
	out := &seed3Legacy{db: dbm.NewMemDB(), ref: src, contents: map[int64]map[string]string{}, hashes: map[int64][]byte{}, cur: map[string]string{}}

	nodeSets := map[int64]map[string]bool{}
	nodeFrom := map[string]int64{}
	for i, ops := range history {
		seed3Apply(t, src, ops)
		for _, op := range ops {
			if op.del {
				delete(out.cur, op.k)
			} else {
				out.cur[op.k] = op.v
			}
		}
		hash, v, err := src.SaveVersion()
		require.NoError(t, err)
		require.Equal(t, int64(i+1), v)
		out.latest = v
		out.hashes[v] = hash
		out.contents[v] = map[string]string{}
		for k, val := range out.cur {
			out.contents[v][k] = val
		}

		rootKey, err := src.ndb.GetRoot(v)
		require.NoError(t, err)
		set := map[string]bool{}
		nodeSets[v] = set
		if rootKey == nil {
			require.NoError(t, out.db.Set(legacyRootKeyFormat.Key(v), []byte{}))
			continue
		}
		itr, err := NewNodeIterator(rootKey, src.ndb)
		require.NoError(t, err)
		var rootHash []byte
		for ; itr.Valid(); itr.Next(false) {
			node := itr.GetNode()
			if rootHash == nil {
				rootHash = node.hash
			}
			require.Len(t, node.hash, hashSize)
			set[string(node.hash)] = true
			if _, ok := nodeFrom[string(node.hash)]; ok {
				continue
			}
			nodeFrom[string(node.hash)] = node.nodeKey.version
			var buf bytes.Buffer
			require.NoError(t, encoding.EncodeVarint(&buf, int64(node.subtreeHeight)))
			require.NoError(t, encoding.EncodeVarint(&buf, node.size))
			require.NoError(t, encoding.EncodeVarint(&buf, node.nodeKey.version))
			require.NoError(t, encoding.EncodeBytes(&buf, node.key))
			if node.isLeaf() {
				require.NoError(t, encoding.EncodeBytes(&buf, node.value))
			} else {
				l, err := src.ndb.GetNode(node.leftNodeKey)
				require.NoError(t, err)
				r, err := src.ndb.GetNode(node.rightNodeKey)
				require.NoError(t, err)
				require.NoError(t, encoding.EncodeBytes(&buf, l.hash))
				require.NoError(t, encoding.EncodeBytes(&buf, r.hash))
			}
			require.NoError(t, out.db.Set(legacyNodeKeyFormat.Key(node.hash), buf.Bytes()))
		}
		require.NoError(t, itr.Error())
		require.Equal(t, hash, rootHash)
		require.NoError(t, out.db.Set(legacyRootKeyFormat.Key(v), rootHash))
	}

	type orphan struct {
		to, from int64
		hash     string
	}
	orphans := []orphan{}
	for h, from := range nodeFrom {
		to := from
		for v := from; v <= out.latest; v++ {
			if nodeSets[v][h] {
				to = v
			}
		}
		if to < out.latest {
			orphans = append(orphans, orphan{to, from, h})
		}
	}
	existing := map[int64]bool{}
	for v := int64(1); v <= out.latest; v++ {
		existing[v] = true
	}
	// replay of the legacy DeleteVersion(dv)
	for _, dv := range deleted {
		require.True(t, existing[dv] && dv != out.latest)
		pred := int64(0)
		for v := dv - 1; v >= 1; v-- {
			if existing[v] {
				pred = v
				break
			}
		}
		for i := range orphans {
			o := &orphans[i]
			if o.to != dv {
				continue
			}
			if pred >= o.from {
				o.to = pred // still needed by an earlier version
			} else {
				require.NoError(t, out.db.Delete(legacyNodeKeyFormat.Key([]byte(o.hash))))
				o.to = -1
			}
		}
		require.NoError(t, out.db.Delete(legacyRootKeyFormat.Key(dv)))
		delete(existing, dv)
		delete(out.contents, dv)
		delete(out.hashes, dv)
	}
	for _, o := range orphans {
		if o.to < 0 {
			continue
		}
		require.NoError(t, out.db.Set(legacyOrphanKeyFormat.Key(o.to, o.from, []byte(o.hash)), []byte(o.hash)))
	}
	return out
}

// seed3Commit applies the same writes to the tree under test and to the reference
// tree, saves both and compares version and root hash (canonical hash).
func seed3Commit(t *testing.T, tree *MutableTree, lg *seed3Legacy, ops []seed3Op) int64 {
	t.Helper()
	seed3Apply(t, tree, ops)
	seed3Apply(t, lg.ref, ops)
	for _, op := range ops {
		if op.del {
			delete(lg.cur, op.k)
		} else {
			lg.cur[op.k] = op.v
		}
	}
	wantHash, wantVersion, err := lg.ref.SaveVersion()
	require.NoError(t, err)
	hash, version, err := tree.SaveVersion()
	require.NoError(t, err)
	require.Equal(t, wantVersion, version)
	require.Equal(t, wantHash, hash, "hash of new version %d is not canonical", version)
	lg.hashes[version] = hash
	lg.contents[version] = map[string]string{}
	for k, v := range lg.cur {
		lg.contents[version][k] = v
	}
	return version
}

// seed3CheckVersion reads the version through a FRESH tree on the database (a
// reopening: no shared caches) and compares contents and root hash with the record.
func seed3CheckVersion(t *testing.T, lg *seed3Legacy, version int64) {
	t.Helper()
	want, ok := lg.contents[version]
	require.True(t, ok)
	tree := NewMutableTree(lg.db, 0, true, NewNopLogger())
	require.True(t, tree.VersionExists(version), "version %d should exist", version)
	itree, err := tree.GetImmutable(version)
	require.NoError(t, err, "version %d cannot be opened", version)
	got := map[string]string{}
	itr, err := itree.Iterator(nil, nil, true)
	require.NoError(t, err)
	for ; itr.Valid(); itr.Next() {
		got[string(itr.Key())] = string(itr.Value())
	}
	require.NoError(t, itr.Error(), "iterating version %d", version)
	require.NoError(t, itr.Close())
	require.Equal(t, want, got, "contents of version %d", version)
	keys := make([]string, 0, len(want))
	for k := range want {
		keys = append(keys, k)
	}
	sort.Strings(keys)
	for _, k := range keys {
		v, err := itree.Get([]byte(k))
		require.NoError(t, err, "version %d key %s", version, k)
		require.Equal(t, want[k], string(v), "version %d key %s", version, k)
	}
	require.Equal(t, lg.hashes[version], itree.Hash(), "root hash of version %d", version)
}

// rollback across an empty legacy version: the legacy root record of version 3 has an empty value
func TestC16RollbackAcrossEmptyLegacyRoot(t *testing.T) {
	h := [][]seed3Op{
		{seed3Set("a", "1")},
		{seed3Set("b", "1")},
		{seed3Del("a"), seed3Del("b")},
		{seed3Set("c", "1")},
	}
	lg := seed3BuildLegacy(t, h, nil)
	for v := range lg.contents {
		seed3CheckVersion(t, lg, v)
	}
	tree := NewMutableTree(lg.db, 100, false, NewNopLogger())
	_, err := tree.Load()
	require.NoError(t, err)
	require.NoError(t, tree.LoadVersionForOverwriting(2))
	require.Equal(t, int64(2), tree.Version())
	tree = NewMutableTree(lg.db, 100, false, NewNopLogger())
	v, err := tree.Load()
	require.NoError(t, err)
	require.Equal(t, int64(2), v)
}
