package iavl

import (
	"errors"
	"fmt"
	"testing"

	corestore "cosmossdk.io/core/store"

	dbm "github.com/cosmos/iavl/db"
)

var errRbInjected = errors.New("injected write fault")

type rbDB struct {
	corestore.KVStoreWithBatch
	failWrites bool
}

func (f *rbDB) NewBatch() corestore.Batch { return &rbBatch{f.KVStoreWithBatch.NewBatch(), f} }
func (f *rbDB) NewBatchWithSize(n int) corestore.Batch {
	return &rbBatch{f.KVStoreWithBatch.NewBatchWithSize(n), f}
}

type rbBatch struct {
	corestore.Batch
	f *rbDB
}

func (b *rbBatch) Write() error {
	if b.f.failWrites {
		return errRbInjected
	}
	return b.Batch.Write()
}
func (b *rbBatch) WriteSync() error {
	if b.f.failWrites {
		return errRbInjected
	}
	return b.Batch.WriteSync()
}

func TestC17RollbackAfterFailedCommit(t *testing.T) {
	for _, skipFast := range []bool{true, false} {
		t.Run(fmt.Sprintf("skipFast=%v", skipFast), func(t *testing.T) {
			mem := dbm.NewMemDB()
			fdb := &rbDB{KVStoreWithBatch: mem}
			tree := NewMutableTree(fdb, 0, skipFast, NewNopLogger())
			for i := 0; i < 8; i++ {
				tree.Set([]byte(fmt.Sprintf("k%02d", i)), []byte("v1"))
			}
			if _, _, err := tree.SaveVersion(); err != nil {
				t.Fatal(err)
			}
			tree.Set([]byte("k03"), []byte("DISCARDED"))
			tree.Set([]byte("zzz"), []byte("DISCARDED"))
			fdb.failWrites = true
			if _, _, err := tree.SaveVersion(); err == nil {
				t.Fatal("commit with a failing write reported success")
			}
			fdb.failWrites = false
			tree.Rollback()
			tree.Set([]byte("k05"), []byte("v2"))
			_, v, err := tree.SaveVersion()
			if err != nil {
				t.Fatalf("commit after rollback: %v", err)
			}
			tree2 := NewMutableTree(mem, 0, skipFast, NewNopLogger())
			if _, err := tree2.Load(); err != nil {
				t.Fatalf("load: %v", err)
			}
			if tree2.Version() != v {
				t.Fatalf("version %d want %d", tree2.Version(), v)
			}
			for _, c := range []struct{ k, want string }{{"k03", "v1"}, {"k05", "v2"}, {"zzz", ""}} {
				got, err := tree2.Get([]byte(c.k))
				if err != nil {
					t.Fatalf("Get(%s): %v", c.k, err)
				}
				if string(got) != c.want {
					t.Errorf("Get(%s) = %q want %q", c.k, got, c.want)
				}
				_, got2, err := tree2.GetWithIndex([]byte(c.k))
				if err != nil {
					t.Fatalf("GetWithIndex(%s): %v", c.k, err)
				}
				if string(got2) != c.want {
					t.Errorf("GetWithIndex(%s) = %q want %q", c.k, got2, c.want)
				}
			}
		})
	}
}
