package iavl

// Demonstration (not part of the machinery): a commit repeated after a failed batch write reported success over
// an unreadable version.  Copy into a worktree of cosmos/iavl: go test -run TestC17RetryAfterFailedCommit .

import (
	"errors"
	"fmt"
	"testing"

	corestore "cosmossdk.io/core/store"

	dbm "github.com/cosmos/iavl/db"
)

var errRetryInjected = errors.New("injected write fault")

type retryDB struct {
	corestore.KVStoreWithBatch
	failWrites bool
}

func (f *retryDB) NewBatch() corestore.Batch { return &retryBatch{f.KVStoreWithBatch.NewBatch(), f} }
func (f *retryDB) NewBatchWithSize(n int) corestore.Batch {
	return &retryBatch{f.KVStoreWithBatch.NewBatchWithSize(n), f}
}

type retryBatch struct {
	corestore.Batch
	f *retryDB
}

func (b *retryBatch) Write() error {
	if b.f.failWrites {
		return errRetryInjected
	}
	return b.Batch.Write()
}
func (b *retryBatch) WriteSync() error {
	if b.f.failWrites {
		return errRetryInjected
	}
	return b.Batch.WriteSync()
}

// A commit whose batch write failed is reported as failed; the SAME commit repeated without a
// fault is reported as successful - the database must then hold that version intact.
func TestC17RetryAfterFailedCommit(t *testing.T) {
	for _, skipFast := range []bool{true, false} {
		t.Run(fmt.Sprintf("skipFast=%v", skipFast), func(t *testing.T) {
			mem := dbm.NewMemDB()
			fdb := &retryDB{KVStoreWithBatch: mem}
			tree := NewMutableTree(fdb, 0, skipFast, NewNopLogger())
			for i := 0; i < 8; i++ {
				if _, err := tree.Set([]byte(fmt.Sprintf("k%02d", i)), []byte("v1")); err != nil {
					t.Fatal(err)
				}
			}
			if _, _, err := tree.SaveVersion(); err != nil {
				t.Fatal(err)
			}
			for i := 4; i < 12; i++ {
				if _, err := tree.Set([]byte(fmt.Sprintf("k%02d", i)), []byte("v2")); err != nil {
					t.Fatal(err)
				}
			}
			fdb.failWrites = true
			if _, _, err := tree.SaveVersion(); err == nil {
				t.Fatal("commit with a failing write reported success")
			}
			fdb.failWrites = false
			hash, v, err := tree.SaveVersion()
			if err != nil {
				t.Skipf("retry is refused: %v", err)
			}
			// reopen from the same storage
			tree2 := NewMutableTree(mem, 0, skipFast, NewNopLogger())
			if _, err := tree2.Load(); err != nil {
				t.Fatalf("database left by a successful commit does not load: %v", err)
			}
			if tree2.Version() != v {
				t.Fatalf("reopened at version %d, committed %d", tree2.Version(), v)
			}
			for i := 0; i < 12; i++ {
				want := "v1"
				if i >= 4 {
					want = "v2"
				}
				k := []byte(fmt.Sprintf("k%02d", i))
				_, got, err := tree2.GetWithIndex(k)
				if err != nil {
					t.Fatalf("GetWithIndex(%s) after reopen: %v", k, err)
				}
				if string(got) != want {
					t.Fatalf("GetWithIndex(%s) = %q want %q", k, got, want)
				}
			}
			if h := tree2.Hash(); string(h) != string(hash) {
				t.Fatalf("hash after reopen %x, committed %x", h, hash)
			}
		})
	}
}
