package iavl

// Demonstration (not part of the machinery): v2 Tree.Remove returns the removed
// value only if it is read before the leaf goes back to the node pool.
//   (copy into /repo/v2)  go test -run TestVerifRemoveReturnsValue .

import (
	"testing"

	"github.com/stretchr/testify/require"
)

func TestVerifRemoveReturnsValue(t *testing.T) {
	tree := NewTree(nil, NewNodePool(), DefaultTreeOptions())
	_, err := tree.Set([]byte("a"), []byte("1"))
	require.NoError(t, err)
	_, err = tree.Set([]byte("b"), []byte("2"))
	require.NoError(t, err)
	val, removed, err := tree.Remove([]byte("a"))
	require.NoError(t, err)
	require.True(t, removed)
	require.Equal(t, []byte("1"), val, "Remove must report the previous value")
}
