// Demonstration (not part of the machinery) of a defect of the UNCHANGED code, C16: two legacy nodes of the same
// legacy version that are promoted to root by successive removals-only commits are both re-saved under the synthetic
// node key (legacyVersion, 0); the second overwrites the first and the earlier committed version gets the wrong root.
// Run: go test -vet=off -count=1 -run TestC16TwoLegacyNodesPromotedToRoot .
// The legacy-database generator below was written by a seeding sub-agent (its own control test is kept: it passes).
// Demonstration for seeded defect 2 of property C16.
// Copy this file into the repository root (package iavl, next to mutable_tree.go) and run:
//   go test -vet=off -count=1 -run TestSeedC16LegacySubtreePromotedToRoot .
//
// Scenario: the first new-format commit on top of a legacy database only REMOVES keys,
// in such a way that a whole persisted legacy subtree (or a single legacy leaf)
// becomes the new root. The new version then consists of a reference root pointing
// to a legacy node; it must be readable with the canonical hash and contents, right
// away, after reopening, and after the legacy versions have been pruned.
package iavl

import (
	"bytes"
	"fmt"
	"sort"
	"testing"

	"github.com/stretchr/testify/require"

	dbm "github.com/cosmos/iavl/db"
	"github.com/cosmos/iavl/internal/encoding"
)

func TestSeedC16LegacySubtreePromotedToRoot(t *testing.T) {
	type tc struct {
		name    string
		removes []string // removed by the first new-format commit
	}
	for _, c := range []tc{
		{name: "inner-node-promoted", removes: []string{"c"}},
		{name: "leaf-promoted", removes: []string{"b", "c"}},
	} {
		for _, skipFast := range []bool{true, false} {
			t.Run(fmt.Sprintf("%s/skipFast=%v", c.name, skipFast), func(t *testing.T) {
				g := newseedC16bGen(t)
				// legacy history: the latest legacy tree is ((a b) c), all built in version 1
				g.commit(seedC16bOp{k: "a", v: "1"}, seedC16bOp{k: "b", v: "2"}, seedC16bOp{k: "c", v: "3"}, seedC16bOp{k: "d", v: "4"})
				g.commit(seedC16bOp{k: "e", v: "5"})
				g.commit(seedC16bOp{del: true, k: "e"}, seedC16bOp{del: true, k: "d"})
				db := g.dumpLegacy(3)
				existing := map[int64]bool{1: true, 2: true, 3: true}

				tree := seedC16bReopen(t, db, skipFast)
				g.checkAll(tree, existing, 3)

				// first new-format commit: removals only; a persisted legacy node becomes the root
				var ops []seedC16bOp
				for _, k := range c.removes {
					ops = append(ops, seedC16bOp{del: true, k: k})
				}
				v := g.apply(tree, ops...)
				require.Equal(t, int64(4), v)
				existing[v] = true
				g.checkAll(tree, existing, 4)

				// more history on top
				existing[g.apply(tree, seedC16bOp{k: "z", v: "9"})] = true
				existing[g.apply(tree)] = true
				g.checkAll(tree, existing, 6)

				tree = seedC16bReopen(t, db, skipFast)
				g.checkAll(tree, existing, 6)

				// prune the legacy versions, then the first new version
				require.NoError(t, tree.DeleteVersionsTo(3))
				delete(existing, 1)
				delete(existing, 2)
				delete(existing, 3)
				g.checkAll(tree, existing, 6)
				tree = seedC16bReopen(t, db, skipFast)
				g.checkAll(tree, existing, 6)
				require.NoError(t, tree.DeleteVersionsTo(4))
				delete(existing, 4)
				g.checkAll(tree, existing, 6)
				tree = seedC16bReopen(t, db, skipFast)
				g.checkAll(tree, existing, 6)
			})
		}
	}
}

// ---------------------------------------------------------------------------
// helpers: a legacy-format (pre-1.0, hash-keyed) database generator WITH an oracle.
//
// A reference tree (current format, in its own MemDB) is driven with a known
// history; every version's contents and root hash are recorded. The versions are
// then written into a second MemDB in the legacy layout:
//   n<hash>              -> legacy node encoding (height,size,version,key,[value | leftHash,rightHash])
//   r<version>           -> root hash
//   o<to><from><hash>    -> orphan record (node lived in versions [from..to])
// Node hashes are format independent, so the hashes of the reference tree are the
// hashes the legacy library reported.
// ---------------------------------------------------------------------------

type seedC16bOp struct {
	del  bool
	k, v string
}

type seedC16bGen struct {
	t        *testing.T
	ref      *MutableTree
	cur      map[string]string
	contents map[int64]map[string]string
	hashes   map[int64][]byte
}

func newseedC16bGen(t *testing.T) *seedC16bGen {
	return &seedC16bGen{
		t:        t,
		ref:      NewMutableTree(dbm.NewMemDB(), 0, true, NewNopLogger()),
		cur:      map[string]string{},
		contents: map[int64]map[string]string{},
		hashes:   map[int64][]byte{},
	}
}

// commit applies ops to the reference tree and records the oracle for the new version.
func (g *seedC16bGen) commit(ops ...seedC16bOp) int64 {
	for _, op := range ops {
		if op.del {
			_, _, err := g.ref.Remove([]byte(op.k))
			require.NoError(g.t, err)
			delete(g.cur, op.k)
		} else {
			_, err := g.ref.Set([]byte(op.k), []byte(op.v))
			require.NoError(g.t, err)
			g.cur[op.k] = op.v
		}
	}
	h, v, err := g.ref.SaveVersion()
	require.NoError(g.t, err)
	snap := map[string]string{}
	for k, val := range g.cur {
		snap[k] = val
	}
	g.contents[v] = snap
	g.hashes[v] = append([]byte(nil), h...)
	return v
}

// apply commits the same ops on the reference and on the tree under test and
// checks that the tree under test reports the canonical (reference) hash.
func (g *seedC16bGen) apply(tree *MutableTree, ops ...seedC16bOp) int64 {
	t := g.t
	v := g.commit(ops...)
	for _, op := range ops {
		if op.del {
			_, _, err := tree.Remove([]byte(op.k))
			require.NoError(t, err)
		} else {
			_, err := tree.Set([]byte(op.k), []byte(op.v))
			require.NoError(t, err)
		}
	}
	h, v2, err := tree.SaveVersion()
	require.NoError(t, err)
	require.Equal(t, v, v2)
	require.Equal(t, g.hashes[v], h, "hash of new version %d is not canonical", v)
	return v
}

// rollback rolls the reference (and the oracle) back to target.
func (g *seedC16bGen) rollback(target int64) {
	require.NoError(g.t, g.ref.LoadVersionForOverwriting(target))
	g.cur = map[string]string{}
	for k, v := range g.contents[target] {
		g.cur[k] = v
	}
	for v := range g.contents {
		if v > target {
			delete(g.contents, v)
			delete(g.hashes, v)
		}
	}
}

// dumpLegacy writes versions 1..upTo of the reference tree in the legacy format.
func (g *seedC16bGen) dumpLegacy(upTo int64) *dbm.MemDB {
	t := g.t
	out := dbm.NewMemDB()
	ndb := g.ref.ndb
	var write func(nk []byte) []byte
	write = func(nk []byte) []byte {
		n, err := ndb.GetNode(nk)
		require.NoError(t, err)
		var buf bytes.Buffer
		require.NoError(t, encoding.EncodeVarint(&buf, int64(n.subtreeHeight)))
		require.NoError(t, encoding.EncodeVarint(&buf, n.size))
		require.NoError(t, encoding.EncodeVarint(&buf, n.nodeKey.version))
		require.NoError(t, encoding.EncodeBytes(&buf, n.key))
		if n.isLeaf() {
			require.NoError(t, encoding.EncodeBytes(&buf, n.value))
		} else {
			lh := write(n.leftNodeKey)
			rh := write(n.rightNodeKey)
			require.NoError(t, encoding.EncodeBytes(&buf, lh))
			require.NoError(t, encoding.EncodeBytes(&buf, rh))
		}
		require.Len(t, n.hash, hashSize)
		require.NoError(t, out.Set(legacyNodeKeyFormat.Key(n.hash), buf.Bytes()))
		return n.hash
	}
	for v := int64(1); v <= upTo; v++ {
		rk, err := ndb.GetRoot(v)
		require.NoError(t, err)
		if rk == nil {
			require.NoError(t, out.Set(legacyRootKeyFormat.Key(v), []byte{}))
			continue
		}
		require.NoError(t, out.Set(legacyRootKeyFormat.Key(v), write(rk)))
	}
	for v := int64(1); v < upTo; v++ {
		require.NoError(t, ndb.traverseOrphans(v, v+1, func(n *Node) error {
			return out.Set(legacyOrphanKeyFormat.Key(v, n.nodeKey.version, n.hash), n.hash)
		}))
	}
	return out
}

// seedC16bLegacyDeleteVersion mimics DeleteVersion of the legacy library on a legacy database:
// orphans whose lifetime ends at the deleted version are either removed (no earlier
// surviving version needs them) or handed over to the predecessor version.
func seedC16bLegacyDeleteVersion(t *testing.T, db *dbm.MemDB, version int64) {
	var pred int64
	for v := version - 1; v >= 1; v-- {
		has, err := db.Has(legacyRootKeyFormat.Key(v))
		require.NoError(t, err)
		if has {
			pred = v
			break
		}
	}
	type rec struct {
		key, hash []byte
		from      int64
	}
	var recs []rec
	itr, err := db.Iterator(legacyOrphanKeyFormat.Key(version), legacyOrphanKeyFormat.Key(version+1))
	require.NoError(t, err)
	for ; itr.Valid(); itr.Next() {
		var to, from int64
		legacyOrphanKeyFormat.Scan(itr.Key(), &to, &from)
		recs = append(recs, rec{append([]byte(nil), itr.Key()...), append([]byte(nil), itr.Value()...), from})
	}
	require.NoError(t, itr.Close())
	for _, r := range recs {
		require.NoError(t, db.Delete(r.key))
		if pred < r.from {
			require.NoError(t, db.Delete(legacyNodeKeyFormat.Key(r.hash)))
		} else {
			require.NoError(t, db.Set(legacyOrphanKeyFormat.Key(pred, r.from, r.hash), r.hash))
		}
	}
	require.NoError(t, db.Delete(legacyRootKeyFormat.Key(version)))
}

// checkVersion compares everything readable of a version with the oracle.
func (g *seedC16bGen) checkVersion(tree *MutableTree, v int64) {
	t := g.t
	require.True(t, tree.VersionExists(v), "version %d should exist", v)
	it, err := tree.GetImmutable(v)
	require.NoError(t, err, "version %d", v)
	require.Equal(t, g.hashes[v], it.Hash(), "root hash of version %d", v)
	want := g.contents[v]
	got := map[string]string{}
	_, err = it.Iterate(func(k, val []byte) bool { got[string(k)] = string(val); return false })
	require.NoError(t, err, "iterating version %d", v)
	require.Equal(t, want, got, "contents of version %d", v)
	walked := map[string]string{}
	var walkErr error
	var walk func(n *Node)
	walk = func(n *Node) {
		if n == nil || walkErr != nil {
			return
		}
		if n.isLeaf() {
			walked[string(n.key)] = string(n.value)
			return
		}
		l, err := n.getLeftNode(it)
		if err != nil {
			walkErr = err
			return
		}
		r, err := n.getRightNode(it)
		if err != nil {
			walkErr = err
			return
		}
		walk(l)
		walk(r)
	}
	walk(it.root)
	require.NoError(t, walkErr, "walking the nodes of version %d", v)
	require.Equal(t, want, walked, "tree contents of version %d", v)
	require.Equal(t, int64(len(want)), it.Size())
	keys := make([]string, 0, len(want))
	for k := range want {
		keys = append(keys, k)
	}
	sort.Strings(keys)
	for i, k := range keys {
		val, err := it.Get([]byte(k))
		require.NoError(t, err)
		require.Equal(t, want[k], string(val), "Get(%s) at version %d", k, v)
		val, err = tree.GetVersioned([]byte(k), v)
		require.NoError(t, err)
		require.Equal(t, want[k], string(val), "GetVersioned(%s, %d)", k, v)
		kk, vv, err := it.GetByIndex(int64(i))
		require.NoError(t, err)
		require.Equal(t, k, string(kk))
		require.Equal(t, want[k], string(vv))
		proof, err := it.GetMembershipProof([]byte(k))
		require.NoError(t, err)
		ok, err := it.VerifyMembership(proof, []byte(k))
		require.NoError(t, err)
		require.True(t, ok, "membership proof of %s at version %d", k, v)
	}
}

// checkAll checks that exactly the versions of the oracle listed in `existing` are
// available, with the recorded contents and hashes.
func (g *seedC16bGen) checkAll(tree *MutableTree, existing map[int64]bool, upTo int64) {
	var want []int
	for v := int64(1); v <= upTo; v++ {
		if existing[v] {
			g.checkVersion(tree, v)
			want = append(want, int(v))
		} else {
			require.False(g.t, tree.VersionExists(v), "version %d should not exist", v)
		}
	}
	require.Equal(g.t, want, tree.AvailableVersions())
}

func seedC16bReopen(t *testing.T, db *dbm.MemDB, skipFast bool) *MutableTree {
	tree := NewMutableTree(db, 100, skipFast, NewNopLogger())
	_, err := tree.Load()
	require.NoError(t, err)
	return tree
}

// history commits n versions with sets, overwrites and removals over a small key space.
func (g *seedC16bGen) history(n int) {
	for i := 0; i < n; i++ {
		var ops []seedC16bOp
		for j := 0; j < 4; j++ {
			ops = append(ops, seedC16bOp{k: fmt.Sprintf("k%02d", (i*3+j*5)%23), v: fmt.Sprintf("v%d-%d", i, j)})
		}
		if i%3 == 2 {
			ops = append(ops, seedC16bOp{del: true, k: fmt.Sprintf("k%02d", (i*3)%23)})
		}
		g.commit(ops...)
	}
}

// Two successive removals-only commits on top of a legacy database, each promoting a
// persisted legacy node of the SAME legacy version to root.
func TestC16TwoLegacyNodesPromotedToRoot(t *testing.T) {
	for _, skipFast := range []bool{true, false} {
		t.Run(fmt.Sprintf("skipFast=%v", skipFast), func(t *testing.T) {
			g := newseedC16bGen(t)
			g.commit(seedC16bOp{k: "a", v: "1"}, seedC16bOp{k: "b", v: "2"}, seedC16bOp{k: "c", v: "3"}, seedC16bOp{k: "d", v: "4"})
			g.commit(seedC16bOp{k: "e", v: "5"})
			g.commit(seedC16bOp{del: true, k: "e"}, seedC16bOp{del: true, k: "d"})
			db := g.dumpLegacy(3)
			existing := map[int64]bool{1: true, 2: true, 3: true}
			tree := seedC16bReopen(t, db, skipFast)
			g.checkAll(tree, existing, 3)
			existing[g.apply(tree, seedC16bOp{del: true, k: "c"})] = true // root := legacy inner node (a b)
			g.checkAll(tree, existing, 4)
			existing[g.apply(tree, seedC16bOp{del: true, k: "b"})] = true // root := legacy leaf a
			g.checkAll(tree, existing, 5)
			tree = seedC16bReopen(t, db, skipFast)
			g.checkAll(tree, existing, 5)
		})
	}
}

// Second defect of the unchanged code (repaired by a fix: commit): rolling back into the legacy range after a no-write
// commit on a legacy root left the re-saved root copy s<legacyVersion,0> behind; the reopened database did not load.
func TestC16RollbackBelowResavedLegacyRoot(t *testing.T) {
	for _, skipFast := range []bool{true, false} {
		t.Run(fmt.Sprintf("skipFast=%v", skipFast), func(t *testing.T) {
			g := newseedC16bGen(t)
			g.commit(seedC16bOp{k: "a", v: "1"}, seedC16bOp{k: "b", v: "2"})
			g.commit(seedC16bOp{k: "c", v: "3"})
			g.commit(seedC16bOp{k: "d", v: "4"}) // root node is of version 3
			db := g.dumpLegacy(3)
			existing := map[int64]bool{1: true, 2: true, 3: true}
			tree := seedC16bReopen(t, db, skipFast)
			existing[g.apply(tree)] = true // no-write commit 4 on the legacy root: root re-saved under (3,0)
			g.checkAll(tree, existing, 4)
			// roll back to version 2, below the root node's version
			require.NoError(t, tree.LoadVersionForOverwriting(2))
			g.rollback(2)
			delete(existing, 3)
			delete(existing, 4)
			g.checkAll(tree, existing, 2)
			tree = seedC16bReopen(t, db, skipFast)
			g.checkAll(tree, existing, 2)
		})
	}
}
