package iavl

// Demonstration (not part of the machinery) of KNOWN FINDING C07: a database
// written without the fast index is opened once at an OLDER version with the
// index enabled; the index is built from that older version but labelled with
// the latest one, so every later process serves stale indexed reads.
//   go test -run TestVerifStaleIndex .

import (
	"testing"

	"github.com/stretchr/testify/require"

	dbm "github.com/cosmos/iavl/db"
)

func TestVerifStaleIndex(t *testing.T) {
	mem := dbm.NewMemDB()
	w := NewMutableTree(mem, 0, true, NewNopLogger()) // index disabled
	for v := 1; v <= 3; v++ {
		_, err := w.Set([]byte("k"), []byte{byte('0' + v)})
		require.NoError(t, err)
		_, _, err = w.SaveVersion()
		require.NoError(t, err)
	}
	// process 2: index enabled, opens version 1
	p2 := NewMutableTree(mem, 0, false, NewNopLogger())
	_, err := p2.LoadVersion(1)
	require.NoError(t, err)
	// process 3: index enabled, opens the latest version
	p3 := NewMutableTree(mem, 0, false, NewNopLogger())
	_, err = p3.Load()
	require.NoError(t, err)
	indexed, err := p3.Get([]byte("k"))
	require.NoError(t, err)
	_, walked, err := p3.GetWithIndex([]byte("k"))
	require.NoError(t, err)
	require.Equal(t, walked, indexed, "indexed read differs from tree walk at the latest version")
}
