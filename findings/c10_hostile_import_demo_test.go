package iavl

// Demonstration (not part of the machinery): hostile node streams that made
// the pinned importer panic.  go test -run TestVerifHostile .

import (
	"testing"

	"github.com/stretchr/testify/require"

	dbm "github.com/cosmos/iavl/db"
)

func noPanic(t *testing.T, name string, f func() error) {
	t.Helper()
	defer func() {
		if r := recover(); r != nil {
			t.Errorf("%s: panic instead of an error: %v", name, r)
		}
	}()
	require.Error(t, f(), name)
}

func TestVerifHostileImport(t *testing.T) {
	newImp := func() *Importer {
		tree := NewMutableTree(dbm.NewMemDB(), 0, true, NewNopLogger())
		imp, err := tree.Import(5)
		require.NoError(t, err)
		return imp
	}
	noPanic(t, "negative version", func() error {
		return newImp().Add(&ExportNode{Key: []byte("k"), Value: []byte("v"), Version: -1, Height: 0})
	})
	noPanic(t, "compressed: branch node first", func() error {
		return NewCompressImporter(newImp()).Add(&ExportNode{Version: 1, Height: 1})
	})
	noPanic(t, "compressed: nil node", func() error {
		return NewCompressImporter(newImp()).Add(nil)
	})
	noPanic(t, "compressed: shared prefix longer than the previous key", func() error {
		return NewCompressImporter(newImp()).Add(&ExportNode{Key: []byte{40, 'x'}, Value: []byte("v"), Version: 1, Height: 0})
	})
	noPanic(t, "compressed: huge shared prefix", func() error {
		return NewCompressImporter(newImp()).Add(&ExportNode{Key: []byte{0xff, 0xff, 0xff, 0xff, 0xff, 0xff, 0xff, 0xff, 0x7f, 'x'}, Value: []byte("v"), Version: 1, Height: 0})
	})
}
