package iavl

// Demonstration (not part of the machinery): enumerate every boundary
// between physical writes of one operation, stop there, reopen, and check
// that every version the operation was not deleting is still loadable.
//   go test -run 'TestVerifCut' -v .

import (
	"fmt"
	"testing"

	corestore "cosmossdk.io/core/store"
	"github.com/stretchr/testify/require"

	dbm "github.com/cosmos/iavl/db"
)

// cutDB drops every physical write after the first `allow` ones.
type cutDB struct {
	corestore.KVStoreWithBatch
	allow  int
	writes int
}

func (c *cutDB) NewBatch() corestore.Batch { return &cutBatch{c.KVStoreWithBatch.NewBatch(), c} }
func (c *cutDB) NewBatchWithSize(n int) corestore.Batch {
	return &cutBatch{c.KVStoreWithBatch.NewBatchWithSize(n), c}
}

type cutBatch struct {
	corestore.Batch
	c *cutDB
}

func (b *cutBatch) Write() error {
	b.c.writes++
	if b.c.allow >= 0 && b.c.writes > b.c.allow {
		return b.Batch.Close() // lost: the process stopped before this write
	}
	return b.Batch.Write()
}
func (b *cutBatch) WriteSync() error { return b.Write() }

// build creates versions 1..3: v1 has 6 keys, v2 is a commit without writes (its
// root is a reference to v1's), v3 changes one key.
func buildShared(t *testing.T, db corestore.KVStoreWithBatch, threshold int) *MutableTree {
	tree := NewMutableTree(db, 0, true, NewNopLogger(), FlushThresholdOption(threshold))
	for i := 0; i < 6; i++ {
		_, err := tree.Set([]byte(fmt.Sprintf("k%d", i)), []byte("value"))
		require.NoError(t, err)
	}
	_, _, err := tree.SaveVersion()
	require.NoError(t, err)
	_, _, err = tree.SaveVersion()
	require.NoError(t, err)
	_, err = tree.Set([]byte("k0"), []byte("other"))
	require.NoError(t, err)
	_, _, err = tree.SaveVersion()
	require.NoError(t, err)
	return tree
}

func reopenOK(db corestore.KVStoreWithBatch, versions ...int64) error {
	tree := NewMutableTree(db, 0, true, NewNopLogger())
	if _, err := tree.Load(); err != nil {
		return fmt.Errorf("Load: %w", err)
	}
	for _, v := range versions {
		imm, err := tree.GetImmutable(v)
		if err != nil {
			return fmt.Errorf("GetImmutable(%d): %w", v, err)
		}
		n := 0
		if _, err := imm.Iterate(func(k, v []byte) bool { n++; return false }); err != nil {
			return fmt.Errorf("Iterate(%d): %w", v, err)
		}
		if n != 6 {
			return fmt.Errorf("version %d has %d keys, want 6", v, n)
		}
	}
	return nil
}

// TestVerifCutPruneRekey: DeleteVersionsTo(1) re-keys v1's root (shared with v2)
// from (1,1) to (1,0).  Versions 2 and 3 must survive a stop at any boundary.
func TestVerifCutPruneRekey(t *testing.T) {
	const threshold = 150
	var bad []string
	for cut := 0; ; cut++ {
		mem := dbm.NewMemDB()
		buildShared(t, mem, 100000)
		cdb := &cutDB{KVStoreWithBatch: mem, allow: -1}
		tree := NewMutableTree(cdb, 0, true, NewNopLogger(), FlushThresholdOption(threshold))
		_, err := tree.Load()
		require.NoError(t, err)
		cdb.writes, cdb.allow = 0, cut
		_ = tree.DeleteVersionsTo(1)
		total := cdb.writes
		if err := reopenOK(mem, 2, 3); err != nil {
			bad = append(bad, fmt.Sprintf("stop after physical write %d of %d: %v", cut, total, err))
		}
		if cut >= total {
			break
		}
	}
	require.Empty(t, bad, "DeleteVersionsTo(1) with flush threshold %d", threshold)
}

// TestVerifCutSaveVersion: a commit split over several physical writes by a small
// flush threshold.  (KNOWN FINDING C05: fails on the pinned tree by design.)
func TestVerifCutSaveVersion(t *testing.T) {
	const threshold = 300
	var bad []string
	for cut := 0; ; cut++ {
		mem := dbm.NewMemDB()
		cdb := &cutDB{KVStoreWithBatch: mem, allow: cut}
		tree := NewMutableTree(cdb, 0, true, NewNopLogger(), FlushThresholdOption(threshold))
		for i := 0; i < 8; i++ {
			_, err := tree.Set([]byte(fmt.Sprintf("k%d", i)), []byte("value"))
			require.NoError(t, err)
		}
		_, _, _ = tree.SaveVersion()
		total := cdb.writes
		re := NewMutableTree(mem, 0, true, NewNopLogger())
		if _, err := re.Load(); err != nil {
			bad = append(bad, fmt.Sprintf("stop after physical write %d of %d: Load: %v", cut, total, err))
		}
		if cut >= total {
			break
		}
	}
	require.Empty(t, bad, "SaveVersion with flush threshold %d", threshold)
}

// TestVerifCutImport: the importer flushes every 10000 nodes before Commit.  A stop
// after that flush (before Commit) must leave a database that still opens (as
// empty).  (KNOWN FINDING C05.)
func TestVerifCutImport(t *testing.T) {
	src := NewMutableTree(dbm.NewMemDB(), 0, true, NewNopLogger())
	for i := 0; i < 6000; i++ {
		_, err := src.Set([]byte(fmt.Sprintf("key-%05d", i)), []byte("v"))
		require.NoError(t, err)
	}
	_, _, err := src.SaveVersion()
	require.NoError(t, err)
	imm, err := src.GetImmutable(1)
	require.NoError(t, err)
	exp, err := imm.Export()
	require.NoError(t, err)
	defer exp.Close()

	mem := dbm.NewMemDB()
	dst := NewMutableTree(mem, 0, true, NewNopLogger())
	imp, err := dst.Import(1)
	require.NoError(t, err)
	n := 0
	for {
		node, err := exp.Next()
		if err != nil {
			break
		}
		require.NoError(t, imp.Add(node))
		n++
		if n == 10500 { // the process stops here: one background flush has happened, no Commit
			break
		}
	}
	imp.Close()
	re := NewMutableTree(mem, 0, true, NewNopLogger())
	_, err = re.Load()
	require.NoError(t, err, "database left behind by an interrupted import cannot be opened")
}
