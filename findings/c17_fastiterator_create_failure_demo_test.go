package iavl

// Demonstration (not part of the machinery), C17: a storage failure while the index iterator is being created ended
// in a nil-pointer panic instead of an error.  go test -vet=off -count=1 -run TestC17FastIteratorCreateFailure .

import (
	"errors"
	"testing"

	corestore "cosmossdk.io/core/store"
	"github.com/stretchr/testify/require"

	dbm "github.com/cosmos/iavl/db"
)

type failIterDB struct {
	corestore.KVStoreWithBatch
	fail bool
}

func (f *failIterDB) Iterator(s, e []byte) (corestore.Iterator, error) {
	if f.fail {
		return nil, errors.New("injected iterator fault")
	}
	return f.KVStoreWithBatch.Iterator(s, e)
}

func TestC17FastIteratorCreateFailure(t *testing.T) {
	fdb := &failIterDB{KVStoreWithBatch: dbm.NewMemDB()}
	tree := NewMutableTree(fdb, 0, false, NewNopLogger())
	_, err := tree.Set([]byte("a"), []byte("1"))
	require.NoError(t, err)
	_, _, err = tree.SaveVersion()
	require.NoError(t, err)

	fdb.fail = true
	require.NotPanics(t, func() {
		_, err := tree.Iterate(func(k, v []byte) bool { return false })
		require.Error(t, err, "the iteration must report that the storage iterator could not be created")
	})
	require.NotPanics(t, func() {
		itr := NewFastIterator(nil, nil, true, tree.ndb)
		require.False(t, itr.Valid())
		require.Error(t, itr.Error())
		_ = itr.Close()
	})
}
