// Demonstration for the fixed defect C07/C09 "the index purge writes while its iterator is open" (hangs on MemDB, default options).
// Copy into the repository root (package iavl): go test -vet=off -count=1 -run TestC07IndexPurgeOnMemDBDefaultThreshold .
package iavl

import (
	"fmt"
	"testing"
	"time"

	"github.com/stretchr/testify/require"

	dbm "github.com/cosmos/iavl/db"
)

func TestC07IndexPurgeOnMemDBDefaultThreshold(t *testing.T) {
	tree := NewMutableTree(dbm.NewMemDB(), 0, false, NewNopLogger())
	for v := 1; v <= 2; v++ {
		for i := 0; i < 12000; i++ {
			_, err := tree.Set([]byte(fmt.Sprintf("some-longer-application-key-%05d", i)), []byte(fmt.Sprintf("v%d-%d", v, i)))
			require.NoError(t, err)
		}
		_, _, err := tree.SaveVersion()
		require.NoError(t, err)
	}
	done := make(chan error, 1)
	go func() { done <- tree.LoadVersionForOverwriting(1) }()
	select {
	case err := <-done:
		require.NoError(t, err)
	case <-time.After(90 * time.Second):
		t.Fatal("LoadVersionForOverwriting did not return within 90s (MemDB: flush inside the index purge loop)")
	}
	for i := 0; i < 12000; i += 997 {
		k := []byte(fmt.Sprintf("some-longer-application-key-%05d", i))
		fast, err := tree.Get(k)
		require.NoError(t, err)
		_, slow, err := tree.GetWithIndex(k)
		require.NoError(t, err)
		require.Equal(t, string(slow), string(fast))
		require.Equal(t, fmt.Sprintf("v1-%d", i), string(fast))
	}
}
