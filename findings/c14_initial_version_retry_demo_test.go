// Demonstration for the fixed defect C14/C17 "failed first commit uses up the initial version": FAILS before the fix.
// Copy into the repository root (package iavl): go test -vet=off -count=1 -run TestC14InitialVersionRetry .
package iavl

import (
	"errors"
	"testing"

	corestore "cosmossdk.io/core/store"
	"github.com/stretchr/testify/require"

	dbm "github.com/cosmos/iavl/db"
)

type c14ivDB struct {
	corestore.KVStoreWithBatch
	fail *bool
}
type c14ivBatch struct {
	corestore.Batch
	fail *bool
}

func (d c14ivDB) NewBatch() corestore.Batch { return c14ivBatch{d.KVStoreWithBatch.NewBatch(), d.fail} }
func (d c14ivDB) NewBatchWithSize(n int) corestore.Batch {
	return c14ivBatch{d.KVStoreWithBatch.NewBatchWithSize(n), d.fail}
}
func (b c14ivBatch) Write() error {
	if *b.fail {
		return errors.New("injected")
	}
	return b.Batch.Write()
}
func (b c14ivBatch) WriteSync() error {
	if *b.fail {
		return errors.New("injected")
	}
	return b.Batch.WriteSync()
}

func TestC14InitialVersionRetry(t *testing.T) {
	fail := true
	db := c14ivDB{dbm.NewMemDB(), &fail}
	tree := NewMutableTree(db, 0, true, NewNopLogger(), InitialVersionOption(10))
	_, err := tree.Set([]byte("a"), []byte("1"))
	require.NoError(t, err)
	_, _, err = tree.SaveVersion()
	require.Error(t, err)
	fail = false
	hash, version, err := tree.SaveVersion()
	require.NoError(t, err)
	require.EqualValues(t, 10, version)
	ref := NewMutableTree(dbm.NewMemDB(), 0, true, NewNopLogger(), InitialVersionOption(10))
	ref.Set([]byte("a"), []byte("1"))
	rh, rv, err := ref.SaveVersion()
	require.NoError(t, err)
	require.EqualValues(t, 10, rv)
	require.Equal(t, rh, hash)
}
