// Demonstration for the known finding C09 "rollback writes while its range iterator is open" (hangs on MemDB).
// Copy into the repository root (package iavl): go test -vet=off -count=1 -run TestC09RollbackOnMemDBDefaultThreshold .
// FAILS (after 60 s) on the pinned tree and on the current one: default options, 3 versions of 6000 keys.
package iavl

import (
	"fmt"
	"testing"
	"time"

	"github.com/stretchr/testify/require"

	dbm "github.com/cosmos/iavl/db"
)

func TestC09RollbackOnMemDBDefaultThreshold(t *testing.T) {
	tree := NewMutableTree(dbm.NewMemDB(), 0, true, NewNopLogger())
	for v := 1; v <= 3; v++ {
		for i := 0; i < 6000; i++ {
			_, err := tree.Set([]byte(fmt.Sprintf("k%05d", i)), []byte(fmt.Sprintf("v%d-%d", v, i)))
			require.NoError(t, err)
		}
		_, _, err := tree.SaveVersion()
		require.NoError(t, err)
	}
	done := make(chan error, 1)
	go func() { done <- tree.LoadVersionForOverwriting(1) }()
	select {
	case err := <-done:
		require.NoError(t, err)
	case <-time.After(60 * time.Second):
		t.Fatal("LoadVersionForOverwriting did not return within 60s (MemDB: flush inside the range scan)")
	}
}
