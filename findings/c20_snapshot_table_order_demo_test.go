// Demonstration for the fixed defect C20 "the snapshot search orders snapshot tables by name as text".
// Copy into v2/ (package iavl): go test -vet=off -count=1 -run TestC20SnapshotAtVersionTen .
package iavl

import (
	"fmt"
	"testing"

	"github.com/stretchr/testify/require"
)

func TestC20SnapshotAtVersionTen(t *testing.T) {
	dir := t.TempDir()
	pool := NewNodePool()
	sql, err := NewSqliteDb(pool, SqliteDbOptions{Path: dir})
	require.NoError(t, err)
	tree := NewTree(sql, pool, DefaultTreeOptions())
	var hash10 []byte
	for v := 1; v <= 10; v++ {
		for i := 0; i < 20; i++ {
			_, err := tree.Set([]byte(fmt.Sprintf("key-%02d", i)), []byte(fmt.Sprintf("v%d-%d", v, i)))
			require.NoError(t, err)
		}
		h, _, err := tree.SaveVersion()
		require.NoError(t, err)
		if v == 9 || v == 10 {
			require.NoError(t, tree.SaveSnapshot())
		}
		hash10 = h
	}
	require.NoError(t, tree.Close())

	pool = NewNodePool()
	sql, err = NewSqliteDb(pool, SqliteDbOptions{Path: dir})
	require.NoError(t, err)
	re := NewTree(sql, pool, DefaultTreeOptions())
	require.NoError(t, re.LoadSnapshot(10, PreOrder), "the snapshot taken at version 10 is there")
	require.Equal(t, hash10, re.root.hash)
	require.NoError(t, re.Close())
}
