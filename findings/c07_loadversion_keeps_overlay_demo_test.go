package iavl

import (
	"testing"

	dbm "github.com/cosmos/iavl/db"
)

// Loading a version replaces the working tree; the uncommitted overlay of the
// replaced working tree must go with it.
func TestLoadVersionDiscardsOverlay(t *testing.T) {
	tree := NewMutableTree(dbm.NewMemDB(), 0, false, NewNopLogger())
	tree.Set([]byte("a"), []byte("1"))
	if _, _, err := tree.SaveVersion(); err != nil {
		t.Fatal(err)
	}
	tree.Set([]byte("b"), []byte("uncommitted"))
	tree.Remove([]byte("a"))
	if _, err := tree.LoadVersion(1); err != nil {
		t.Fatal(err)
	}
	// the working tree is version 1 again: {a:1}
	if has, _ := tree.Has([]byte("b")); has {
		t.Fatalf("Has(b) true after LoadVersion")
	}
	if v, _ := tree.Get([]byte("b")); v != nil {
		t.Errorf("Get(b) = %q after LoadVersion(1), tree walk says absent", v)
	}
	if v, _ := tree.Get([]byte("a")); string(v) != "1" {
		t.Errorf("Get(a) = %q after LoadVersion(1), want 1", v)
	}
	var keys []string
	tree.Iterate(func(k, v []byte) bool { keys = append(keys, string(k)); return false })
	if len(keys) != 1 || keys[0] != "a" {
		t.Errorf("Iterate = %v want [a]", keys)
	}
}
