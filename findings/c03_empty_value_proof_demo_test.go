// Demonstration for the known finding C03 "a key stored with an empty value has no verifying membership proof".
// Copy into the repository root (package iavl): go test -vet=off -count=1 -run TestC03EmptyValueProof .
// FAILS on the pinned tree and on the current one.
package iavl

import (
	"testing"

	ics23 "github.com/cosmos/ics23/go"
	"github.com/stretchr/testify/require"

	dbm "github.com/cosmos/iavl/db"
)

func TestC03EmptyValueProof(t *testing.T) {
	tree := NewMutableTree(dbm.NewMemDB(), 0, false, NewNopLogger())
	for _, k := range []string{"a", "b", "c"} {
		_, err := tree.Set([]byte(k), []byte("v-"+k))
		require.NoError(t, err)
	}
	_, err := tree.Set([]byte("b"), []byte{}) // an empty, non-nil value is accepted
	require.NoError(t, err)
	root, v, err := tree.SaveVersion()
	require.NoError(t, err)
	proof, err := tree.GetVersionedProof([]byte("b"), v)
	require.NoError(t, err)
	require.True(t, ics23.VerifyMembership(ics23.IavlSpec, root, proof, []byte("b"), []byte{}), "membership of a present key with an empty value")
}
