// Demonstration for the known finding C17 "a retried commit after a failed batch Set skips the unsaved nodes".
// Copy into the repository root (package iavl): go test -vet=off -count=1 -run TestC17RetryAfterFailedNodeQueueing .
// FAILS on the pinned tree and on the current one.
package iavl

import (
	"errors"
	"testing"

	corestore "cosmossdk.io/core/store"
	"github.com/stretchr/testify/require"

	dbm "github.com/cosmos/iavl/db"
)

type c17qDB struct {
	corestore.KVStoreWithBatch
	failSetAt *int // the n-th batch Set fails once (0 = never)
}
type c17qBatch struct {
	corestore.Batch
	db *c17qDB
}

func (d *c17qDB) NewBatch() corestore.Batch { return &c17qBatch{d.KVStoreWithBatch.NewBatch(), d} }
func (d *c17qDB) NewBatchWithSize(n int) corestore.Batch {
	return &c17qBatch{d.KVStoreWithBatch.NewBatchWithSize(n), d}
}
func (b *c17qBatch) Set(k, v []byte) error {
	if *b.db.failSetAt > 0 {
		*b.db.failSetAt--
		if *b.db.failSetAt == 0 {
			return errors.New("injected: storage refused the write")
		}
	}
	return b.Batch.Set(k, v)
}

func TestC17RetryAfterFailedNodeQueueing(t *testing.T) {
	for k := 2; k <= 6; k++ {
		n := k
		mem := dbm.NewMemDB()
		db := &c17qDB{mem, &n}
		tree := NewMutableTree(db, 0, true, NewNopLogger())
		for _, key := range []string{"a", "b", "c", "d", "e", "f", "g", "h"} {
			_, err := tree.Set([]byte(key), []byte("v"))
			require.NoError(t, err)
		}
		_, _, err := tree.SaveVersion()
		require.Error(t, err, "k=%d", k)
		// the application retries the commit
		_, v, err := tree.SaveVersion()
		if err != nil {
			continue // refusing the retry is fine
		}
		require.EqualValues(t, 1, v)
		// the commit was reported successful: the version must be there
		re := NewMutableTree(mem, 0, true, NewNopLogger())
		got, err := re.Load()
		require.NoError(t, err, "k=%d: reopen after a commit that reported success", k)
		require.EqualValues(t, 1, got)
		for _, key := range []string{"a", "b", "c", "d", "e", "f", "g", "h"} {
			val, err := re.Get([]byte(key))
			require.NoError(t, err)
			require.Equal(t, "v", string(val), "k=%d key %s", k, key)
		}
	}
}
