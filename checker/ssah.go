package main

import (
	"fmt"
	"go/constant"
	"go/token"
	"go/types"
	"sort"
	"strings"

	"golang.org/x/tools/go/callgraph"
	"golang.org/x/tools/go/ssa"
)

// ---------------------------------------------------------------------------
// call helpers

func callCommon(in ssa.Instruction) *ssa.CallCommon {
	switch x := in.(type) {
	case *ssa.Call:
		return &x.Call
	case *ssa.Defer:
		return &x.Call
	case *ssa.Go:
		return &x.Call
	}
	return nil
}

// CallPred decides whether a call (by its CallCommon) is "the target".
type CallPred func(c *ssa.CallCommon) bool

// staticCallee returns the statically known callee, looking through
// closures bound with MakeClosure.
func staticCallee(c *ssa.CallCommon) *ssa.Function {
	if f := c.StaticCallee(); f != nil {
		return f
	}
	return nil
}

func predStatic(fns ...*ssa.Function) CallPred {
	set := map[*ssa.Function]bool{}
	for _, f := range fns {
		if f != nil {
			set[f] = true
		}
	}
	return func(c *ssa.CallCommon) bool {
		f := staticCallee(c)
		if f == nil {
			return false
		}
		if set[f] {
			return true
		}
		if o := f.Origin(); o != nil && set[o] {
			return true
		}
		return false
	}
}

// predInvoke matches dynamic interface calls of method `name` whose
// interface type is declared in package path pkg (e.g. cosmossdk.io/core/store).
func predInvoke(pkg string, names ...string) CallPred {
	set := map[string]bool{}
	for _, n := range names {
		set[n] = true
	}
	return func(c *ssa.CallCommon) bool {
		if !c.IsInvoke() {
			return false
		}
		m := c.Method
		if !set[m.Name()] {
			return false
		}
		if pkg == "" {
			return true
		}
		return m.Pkg() != nil && m.Pkg().Path() == pkg
	}
}

func predOr(ps ...CallPred) CallPred {
	return func(c *ssa.CallCommon) bool {
		for _, p := range ps {
			if p != nil && p(c) {
				return true
			}
		}
		return false
	}
}

// predExt matches static calls to a function pkg.name or method (pkg.T).name
// outside the module (std-lib etc.) by full String() of the function.
func predFuncString(names ...string) CallPred {
	set := map[string]bool{}
	for _, n := range names {
		set[n] = true
	}
	return func(c *ssa.CallCommon) bool {
		f := staticCallee(c)
		return f != nil && set[f.String()]
	}
}

// Reach is a transitive "contains a call matching pred" summary over the
// call graph.
type Reach struct {
	l      *Loaded
	pred   CallPred
	direct map[*ssa.Function]bool
	memo   map[*ssa.Function]bool
	// barrier functions are not entered (their body does not count)
	barrier map[*ssa.Function]bool
}

func (l *Loaded) newReach(pred CallPred, barrier ...*ssa.Function) *Reach {
	r := &Reach{l: l, pred: pred, direct: map[*ssa.Function]bool{}, memo: map[*ssa.Function]bool{}, barrier: map[*ssa.Function]bool{}}
	for _, b := range barrier {
		if b != nil {
			r.barrier[b] = true
		}
	}
	// fixpoint over the whole call graph (cycles handled by iteration)
	for fn, n := range l.CG.Nodes {
		if fn == nil || fn.Blocks == nil {
			continue
		}
		_ = n
		for _, b := range fn.Blocks {
			for _, in := range b.Instrs {
				if c := callCommon(in); c != nil && pred(c) {
					r.direct[fn] = true
				}
			}
		}
	}
	for fn := range r.direct {
		if !r.barrier[fn] {
			r.memo[fn] = true
		}
	}
	changed := true
	for changed {
		changed = false
		for fn, n := range l.CG.Nodes {
			if fn == nil || r.memo[fn] || r.barrier[fn] {
				continue
			}
			for _, e := range n.Out {
				if r.memo[e.Callee.Func] {
					r.memo[fn] = true
					changed = true
					break
				}
			}
		}
	}
	return r
}

// Fn reports whether fn transitively performs a matching call.
func (r *Reach) Fn(fn *ssa.Function) bool { return r.memo[fn] }

// Instr reports whether the call instruction matches directly or may reach a
// matching call through its callees.
func (r *Reach) Instr(in ssa.Instruction) bool {
	c := callCommon(in)
	if c == nil {
		return false
	}
	if r.pred(c) {
		return true
	}
	for _, callee := range r.l.calleesOf(in) {
		if r.memo[callee] {
			return true
		}
	}
	return false
}

// calleesOf resolves the possible callees of a call instruction with the VTA
// call graph (static callee first).
func (l *Loaded) calleesOf(in ssa.Instruction) []*ssa.Function {
	c := callCommon(in)
	if c == nil {
		return nil
	}
	if f := staticCallee(c); f != nil {
		return []*ssa.Function{f}
	}
	fn := in.Parent()
	n := l.CG.Nodes[fn]
	if n == nil {
		return nil
	}
	var out []*ssa.Function
	for _, e := range n.Out {
		if e.Site != nil && e.Site == in.(ssa.CallInstruction) {
			out = append(out, e.Callee.Func)
		}
	}
	return out
}

// callersOf returns the call edges into fn.
func (l *Loaded) callersOf(fn *ssa.Function) []*callgraph.Edge {
	n := l.CG.Nodes[fn]
	if n == nil {
		return nil
	}
	return n.In
}

// reachableFrom returns the set of functions reachable from roots in the call
// graph (including the roots).
func (l *Loaded) reachableFrom(roots ...*ssa.Function) map[*ssa.Function]bool {
	seen := map[*ssa.Function]bool{}
	var stack []*ssa.Function
	for _, r := range roots {
		if r != nil && !seen[r] {
			seen[r] = true
			stack = append(stack, r)
		}
	}
	for len(stack) > 0 {
		f := stack[len(stack)-1]
		stack = stack[:len(stack)-1]
		n := l.CG.Nodes[f]
		if n == nil {
			continue
		}
		for _, e := range n.Out {
			g := e.Callee.Func
			if !seen[g] {
				seen[g] = true
				stack = append(stack, g)
			}
		}
		// anonymous functions created here are reachable when called; the
		// call graph has those edges already.
	}
	return seen
}

// ---------------------------------------------------------------------------
// CFG helpers

// edgeDominates reports whether every path from entry to block x goes through
// the CFG edge from→from.Succs[si].
func edgeDominates(from *ssa.BasicBlock, si int, x *ssa.BasicBlock) bool {
	s := from.Succs[si]
	if !s.Dominates(x) {
		return false
	}
	// the two successors must differ, otherwise the edge carries no fact
	if len(from.Succs) == 2 && from.Succs[0] == from.Succs[1] {
		return false
	}
	for _, p := range s.Preds {
		if p == from {
			continue
		}
		if !s.Dominates(p) { // another way into s that is not a back edge
			return false
		}
	}
	return true
}

// instrIndex returns the index of in within its block.
func instrIndex(in ssa.Instruction) int {
	for i, x := range in.Block().Instrs {
		if x == in {
			return i
		}
	}
	return -1
}

// instrDominates: a executes before b on every path to b.
func instrDominates(a, b ssa.Instruction) bool {
	if a.Block() == b.Block() {
		return instrIndex(a) < instrIndex(b)
	}
	return a.Block().Dominates(b.Block())
}

type point struct {
	b *ssa.BasicBlock
	i int
}

// searchFrom explores forward from the given start points; at each
// instruction `visit` is called: it returns stop=true to not continue past
// this instruction on this path.  Each instruction is visited at most once.
func searchFrom(starts []point, visit func(in ssa.Instruction) (stop bool)) {
	searchFromEdges(starts, visit, nil)
}

// searchFromEdges is searchFrom with edge pruning: follow(b, i) == false
// means the i-th successor edge of b is not taken.
func searchFromEdges(starts []point, visit func(in ssa.Instruction) (stop bool), follow func(b *ssa.BasicBlock, succ int) bool) {
	seenBlock := map[*ssa.BasicBlock]bool{}
	var work []point
	work = append(work, starts...)
	for len(work) > 0 {
		p := work[len(work)-1]
		work = work[:len(work)-1]
		if p.i == 0 {
			if seenBlock[p.b] {
				continue
			}
			seenBlock[p.b] = true
		}
		stopped := false
		for i := p.i; i < len(p.b.Instrs); i++ {
			if visit(p.b.Instrs[i]) {
				stopped = true
				break
			}
		}
		if stopped {
			continue
		}
		for i, s := range p.b.Succs {
			if follow != nil && !follow(p.b, i) {
				continue
			}
			if !seenBlock[s] {
				work = append(work, point{s, 0})
			}
		}
	}
}

func after(in ssa.Instruction) point { return point{in.Block(), instrIndex(in) + 1} }
func blockStart(b *ssa.BasicBlock) point { return point{b, 0} }

// mustPass computes, for each instruction in sinks, whether every path from
// function entry to it passes an instruction satisfying isTarget.
// `kills` optionally resets the fact (e.g. a later batch mutation).
func mustPass(fn *ssa.Function, isTarget func(ssa.Instruction) bool, kills func(ssa.Instruction) bool) func(ssa.Instruction) bool {
	in := map[*ssa.BasicBlock]bool{}
	out := map[*ssa.BasicBlock]bool{}
	for _, b := range fn.Blocks {
		in[b] = true
		out[b] = true
	}
	if len(fn.Blocks) == 0 {
		return func(ssa.Instruction) bool { return false }
	}
	transfer := func(b *ssa.BasicBlock, v bool, upto int) bool {
		for i, x := range b.Instrs {
			if upto >= 0 && i >= upto {
				break
			}
			if kills != nil && kills(x) {
				v = false
			}
			if isTarget(x) {
				v = true
			}
		}
		return v
	}
	changed := true
	for changed {
		changed = false
		for _, b := range fn.Blocks {
			v := true
			if b == fn.Blocks[0] {
				v = false
			} else if len(b.Preds) == 0 {
				v = true // unreachable (e.g. recover block)
			} else {
				for _, p := range b.Preds {
					v = v && out[p]
				}
			}
			o := transfer(b, v, -1)
			if v != in[b] || o != out[b] {
				in[b], out[b] = v, o
				changed = true
			}
		}
	}
	return func(s ssa.Instruction) bool {
		b := s.Block()
		return transfer(b, in[b], instrIndex(s))
	}
}

// returnsOf lists the Return instructions of fn.
func returnsOf(fn *ssa.Function) []*ssa.Return {
	var out []*ssa.Return
	for _, b := range fn.Blocks {
		if len(b.Instrs) == 0 || b == fn.Recover {
			continue
		}
		if r, ok := b.Instrs[len(b.Instrs)-1].(*ssa.Return); ok {
			out = append(out, r)
		}
	}
	return out
}

// retVal returns the value returned as result i by r.  Functions with a
// defer spill their results into local slots (the recover block reloads
// them), so `return x, nil` becomes store;store;rundefers;load;load;return:
// the store in the same block is looked up.
func retVal(r *ssa.Return, i int) ssa.Value {
	v := r.Results[i]
	ld, ok := v.(*ssa.UnOp)
	if !ok || ld.Op != token.MUL {
		return v
	}
	al, ok := ld.X.(*ssa.Alloc)
	if !ok {
		return v
	}
	b := r.Block()
	var last ssa.Value
	for _, in := range b.Instrs {
		if in == ld {
			break
		}
		if st, ok := in.(*ssa.Store); ok && st.Addr == al {
			last = st.Val
		}
	}
	if last != nil {
		return last
	}
	// bare return of named results: unique store elsewhere?
	var only ssa.Value
	n := 0
	for _, ref := range refs(al) {
		if st, ok := ref.(*ssa.Store); ok && st.Addr == al {
			n++
			only = st.Val
		}
	}
	if n == 1 {
		return only
	}
	return v
}

// isRecoverReturn: the synthetic return of the recover block.
func isRecoverReturn(r *ssa.Return) bool { return r.Block() == r.Parent().Recover }

var errorType = types.Universe.Lookup("error").Type()

func isErrorType(t types.Type) bool { return types.Identical(t, errorType) }

// errResultIndex returns the index of the (last) error result of sig, or -1.
func errResultIndex(sig *types.Signature) int {
	r := sig.Results()
	for i := r.Len() - 1; i >= 0; i-- {
		if isErrorType(r.At(i).Type()) {
			return i
		}
	}
	return -1
}

func isNilConst(v ssa.Value) bool {
	c, ok := v.(*ssa.Const)
	return ok && c.IsNil()
}

// nilCond decodes an If condition of the form `v == nil` / `v != nil`.
// Returns the compared value and the successor index on which v is non-nil.
func nilCond(cond ssa.Value) (v ssa.Value, nonNilSucc int, ok bool) {
	b, isBin := cond.(*ssa.BinOp)
	if !isBin || (b.Op != token.EQL && b.Op != token.NEQ) {
		return nil, 0, false
	}
	var x ssa.Value
	switch {
	case isNilConst(b.Y):
		x = b.X
	case isNilConst(b.X):
		x = b.Y
	default:
		return nil, 0, false
	}
	if b.Op == token.NEQ {
		return x, 0, true
	}
	return x, 1, true
}

// ifOf returns the If terminating block b, or nil.
func ifOf(b *ssa.BasicBlock) *ssa.If {
	if len(b.Instrs) == 0 {
		return nil
	}
	i, _ := b.Instrs[len(b.Instrs)-1].(*ssa.If)
	return i
}

// knownNonNilAt: is value v known non-nil / nil at block x by a dominating
// nil test?  returns +1 non-nil, -1 nil, 0 unknown.
func nilFactAt(v ssa.Value, x *ssa.BasicBlock) int {
	fn := x.Parent()
	for _, b := range fn.Blocks {
		iff := ifOf(b)
		if iff == nil {
			continue
		}
		cv, nn, ok := nilCond(iff.Cond)
		if !ok || !sameValue(cv, v) {
			continue
		}
		if edgeDominates(b, nn, x) {
			return +1
		}
		if edgeDominates(b, 1-nn, x) {
			return -1
		}
	}
	return 0
}

// sameValue: identical SSA value, or two loads of the same local address
// with no intervening store is NOT attempted: identity only, looking through
// trivial single-operand phis and ChangeInterface.
func sameValue(a, b ssa.Value) bool {
	return stripTrivial(a) == stripTrivial(b)
}

func stripTrivial(v ssa.Value) ssa.Value {
	for {
		switch x := v.(type) {
		case *ssa.ChangeInterface:
			v = x.X
		case *ssa.Phi:
			if len(x.Edges) == 1 {
				v = x.Edges[0]
			} else {
				return v
			}
		default:
			return v
		}
	}
}

// errMayBeNil classifies the error operand v of a Return in block x:
// -1 definitely nil, +1 definitely non-nil, 0 unknown.
func errNilness(v ssa.Value, x *ssa.BasicBlock, depth int) int {
	v = stripTrivial(v)
	switch t := v.(type) {
	case *ssa.Const:
		if t.IsNil() {
			return -1
		}
		return +1
	case *ssa.MakeInterface:
		return +1
	case *ssa.Call:
		if f := staticCallee(&t.Call); f != nil {
			switch f.String() {
			case "fmt.Errorf", "errors.New", "errors.Join":
				return +1
			}
		}
	case *ssa.UnOp:
		if t.Op == token.MUL {
			if _, ok := t.X.(*ssa.Global); ok {
				return +1 // package-level sentinel error
			}
		}
	case *ssa.Phi:
		if depth < 4 {
			all := 2
			for _, e := range t.Edges {
				n := errNilness(e, x, depth+1)
				if all == 2 {
					all = n
				} else if all != n {
					all = 0
				}
			}
			if all != 2 && all != 0 {
				return all
			}
		}
	}
	return nilFactAt(v, x)
}

// ---------------------------------------------------------------------------
// value helpers

// accessPath renders the address/value expression v as a path rooted at a
// parameter, free variable, global or call; "" if not expressible.
func accessPath(v ssa.Value) string {
	return accessPathD(v, 0)
}

func accessPathD(v ssa.Value, d int) string {
	if d > 12 {
		return ""
	}
	switch x := v.(type) {
	case *ssa.Parameter:
		return x.Name()
	case *ssa.FreeVar:
		return x.Name()
	case *ssa.Global:
		return "global:" + x.Name()
	case *ssa.UnOp:
		if x.Op == token.MUL {
			return accessPathD(x.X, d+1)
		}
	case *ssa.FieldAddr:
		base := accessPathD(x.X, d+1)
		if base == "" {
			return ""
		}
		return base + "." + fieldName(x.X.Type(), x.Field)
	case *ssa.Field:
		base := accessPathD(x.X, d+1)
		if base == "" {
			return ""
		}
		return base + "." + fieldName(x.X.Type(), x.Field)
	case *ssa.ChangeInterface:
		return accessPathD(x.X, d+1)
	case *ssa.ChangeType:
		return accessPathD(x.X, d+1)
	case *ssa.Phi:
		if len(x.Edges) == 1 {
			return accessPathD(x.Edges[0], d+1)
		}
	case *ssa.Alloc:
		return "local:" + x.Comment
	}
	return ""
}

func fieldName(t types.Type, idx int) string {
	if p, ok := t.Underlying().(*types.Pointer); ok {
		t = p.Elem()
	}
	st, ok := t.Underlying().(*types.Struct)
	if !ok || idx >= st.NumFields() {
		return fmt.Sprintf("f%d", idx)
	}
	return st.Field(idx).Name()
}

// fieldOf returns the struct field object addressed by a FieldAddr/Field.
func fieldVar(t types.Type, idx int) *types.Var {
	if p, ok := t.Underlying().(*types.Pointer); ok {
		t = p.Elem()
	}
	st, ok := t.Underlying().(*types.Struct)
	if !ok || idx >= st.NumFields() {
		return nil
	}
	return st.Field(idx)
}

// derefNamed returns the named type behind t (through one pointer).
func derefNamed(t types.Type) *types.Named {
	if p, ok := t.Underlying().(*types.Pointer); ok {
		t = p.Elem()
	}
	if p, ok := t.(*types.Pointer); ok {
		t = p.Elem()
	}
	n, _ := t.(*types.Named)
	return n
}

func constInt(v ssa.Value) (int64, bool) {
	c, ok := v.(*ssa.Const)
	if !ok || c.Value == nil {
		return 0, false
	}
	if c.Value.Kind() != constant.Int {
		return 0, false
	}
	n, exact := constant.Int64Val(c.Value)
	return n, exact
}

// roots follows v backwards through phis, extracts, conversions and
// interface wrapping, returning the root values.
func roots(v ssa.Value) []ssa.Value {
	seen := map[ssa.Value]bool{}
	var out []ssa.Value
	var walk func(v ssa.Value)
	walk = func(v ssa.Value) {
		if v == nil || seen[v] {
			return
		}
		seen[v] = true
		switch x := v.(type) {
		case *ssa.Phi:
			for _, e := range x.Edges {
				walk(e)
			}
		case *ssa.ChangeInterface:
			walk(x.X)
		case *ssa.ChangeType:
			walk(x.X)
		case *ssa.Convert:
			walk(x.X)
		case *ssa.MakeInterface:
			walk(x.X)
		default:
			out = append(out, v)
		}
	}
	walk(v)
	return out
}

// allInstrs iterates the instructions of fn.
func allInstrs(fn *ssa.Function, f func(ssa.Instruction)) {
	for _, b := range fn.Blocks {
		for _, in := range b.Instrs {
			f(in)
		}
	}
}

// callsIn lists call instructions of fn matching pred (direct match only).
func callsIn(fn *ssa.Function, pred CallPred) []ssa.Instruction {
	var out []ssa.Instruction
	allInstrs(fn, func(in ssa.Instruction) {
		if c := callCommon(in); c != nil && pred(c) {
			out = append(out, in)
		}
	})
	return out
}

// callsReaching lists call instructions of fn that match or may reach r.
func callsReaching(fn *ssa.Function, r *Reach) []ssa.Instruction {
	var out []ssa.Instruction
	allInstrs(fn, func(in ssa.Instruction) {
		if callCommon(in) != nil && r.Instr(in) {
			out = append(out, in)
		}
	})
	return out
}

// calleeName renders the callee of a call for keys and messages.
func (l *Loaded) calleeName(in ssa.Instruction) string {
	c := callCommon(in)
	if c == nil {
		return "?"
	}
	if c.IsInvoke() {
		recv := c.Value.Type().String()
		return l.short(recv) + "." + c.Method.Name()
	}
	if f := staticCallee(c); f != nil {
		return l.fname(f)
	}
	if p := accessPath(c.Value); p != "" {
		return "dyn:" + p
	}
	return "dyn:" + c.Value.Name()
}

// blockPath renders a list of block indices for diagnostics.
func blockList(bs []*ssa.BasicBlock) string {
	var s []string
	for _, b := range bs {
		s = append(s, fmt.Sprintf("b%d", b.Index))
	}
	return strings.Join(s, "→")
}

func sortedKeys[M ~map[string]V, V any](m M) []string {
	out := make([]string, 0, len(m))
	for k := range m {
		out = append(out, k)
	}
	sort.Strings(out)
	return out
}

// referrers of v (nil-safe).
func refs(v ssa.Value) []ssa.Instruction {
	r := v.Referrers()
	if r == nil {
		return nil
	}
	return *r
}

// extractOf returns the Extract instruction of tuple call t at index i, or nil.
func extractOf(t ssa.Value, i int) *ssa.Extract {
	for _, r := range refs(t) {
		if e, ok := r.(*ssa.Extract); ok && e.Index == i {
			return e
		}
	}
	return nil
}

func sortStrings(s []string) { sort.Strings(s) }

// FnReach is a transitive summary over the call graph seeded by a predicate
// on functions ("contains a store to field X", …).
type FnReach struct {
	l    *Loaded
	memo map[*ssa.Function]bool
}

func (l *Loaded) newFnReach(base func(fn *ssa.Function) bool, barrier ...*ssa.Function) *FnReach {
	r := &FnReach{l: l, memo: map[*ssa.Function]bool{}}
	bar := map[*ssa.Function]bool{}
	for _, b := range barrier {
		if b != nil {
			bar[b] = true
		}
	}
	for fn := range l.CG.Nodes {
		if fn != nil && fn.Blocks != nil && !bar[fn] && base(fn) {
			r.memo[fn] = true
		}
	}
	changed := true
	for changed {
		changed = false
		for fn, n := range l.CG.Nodes {
			if fn == nil || r.memo[fn] || bar[fn] {
				continue
			}
			for _, e := range n.Out {
				if r.memo[e.Callee.Func] {
					r.memo[fn] = true
					changed = true
					break
				}
			}
		}
	}
	return r
}

func (r *FnReach) Fn(fn *ssa.Function) bool { return r.memo[fn] }

// Instr: the call instruction may enter a function of the summary.
func (r *FnReach) Instr(in ssa.Instruction) bool {
	for _, g := range r.l.calleesOf(in) {
		if r.memo[g] {
			return true
		}
	}
	return false
}

// writesField: fn contains a Store through a FieldAddr of one of fields.
func writesField(fn *ssa.Function, fields ...*types.Var) bool {
	found := false
	allInstrs(fn, func(in ssa.Instruction) {
		if st, ok := in.(*ssa.Store); ok {
			if fa, ok := st.Addr.(*ssa.FieldAddr); ok {
				fv := fieldVar(fa.X.Type(), fa.Field)
				for _, f := range fields {
					if f != nil && fv == f {
						found = true
					}
				}
			}
		}
	})
	return found
}

func isStoreToField(in ssa.Instruction, fields ...*types.Var) bool {
	st, ok := in.(*ssa.Store)
	if !ok {
		return false
	}
	fa, ok := st.Addr.(*ssa.FieldAddr)
	if !ok {
		return false
	}
	fv := fieldVar(fa.X.Type(), fa.Field)
	for _, f := range fields {
		if f != nil && fv == f {
			return true
		}
	}
	return false
}

func ifaceHasMethod(t types.Type, name string) bool {
	it, ok := t.Underlying().(*types.Interface)
	if !ok {
		return false
	}
	for i := 0; i < it.NumMethods(); i++ {
		if it.Method(i).Name() == name {
			return true
		}
	}
	return false
}

// implementers returns the module's concrete methods that can be the target
// of an interface method call (type-based, independent of the call graph).
func (l *Loaded) implementers(recv types.Type, method string) []*ssa.Function {
	it, ok := recv.Underlying().(*types.Interface)
	if !ok {
		return nil
	}
	var out []*ssa.Function
	for path, sp := range l.byPkg {
		if path != l.ModPath && !strings.HasPrefix(path, l.ModPath+"/") {
			continue
		}
		for _, name := range sp.Pkg.Scope().Names() {
			tn, ok := sp.Pkg.Scope().Lookup(name).(*types.TypeName)
			if !ok || tn.IsAlias() {
				continue
			}
			named, ok := tn.Type().(*types.Named)
			if !ok {
				continue
			}
			if _, isIface := named.Underlying().(*types.Interface); isIface {
				continue
			}
			for _, T := range []types.Type{named, types.NewPointer(named)} {
				if !types.Implements(T, it) {
					continue
				}
				ms := l.Prog.MethodSets.MethodSet(T)
				if sel := ms.Lookup(tn.Pkg(), method); sel != nil {
					if f := l.Prog.MethodValue(sel); f != nil {
						out = append(out, f)
					}
				} else {
					for i := 0; i < ms.Len(); i++ {
						if ms.At(i).Obj().Name() == method {
							if f := l.Prog.MethodValue(ms.At(i)); f != nil {
								out = append(out, f)
							}
						}
					}
				}
				break
			}
		}
	}
	return out
}

// valueName: the source-level variable a value is (a load of): parameter,
// captured variable or named local; "" otherwise.
func valueName(v ssa.Value) string {
	v = stripTrivial(v)
	for i := 0; i < 4; i++ {
		switch x := v.(type) {
		case *ssa.Parameter:
			return x.Name()
		case *ssa.FreeVar:
			return x.Name()
		case *ssa.Alloc:
			return x.Comment
		case *ssa.UnOp:
			if x.Op == token.MUL {
				if fa, ok := x.X.(*ssa.FieldAddr); ok {
					return fieldName(fa.X.Type(), fa.Field)
				}
				v = x.X
				continue
			}
			if x.Op == token.NOT {
				v = x.X
				continue
			}
		}
		return ""
	}
	return ""
}

// ---------------------------------------------------------------------------
// reset summaries: a helper that (re)initialises a field on every path counts
// as a store of that field at its call sites ("treat a wrapper as the thing it
// wraps when all its paths do it").

type resetInfo struct{ all, cond bool }

var resetMemo = map[*Loaded]map[*types.Var]map[*ssa.Function]resetInfo{}

// resetters computes, for field f, the module functions every return of which
// has stored f (all), or has stored f unless it went through an
// index-disabled edge (cond).  Fixpoint over direct calls, depth-bounded.
func (l *Loaded) resetters(f *types.Var) map[*ssa.Function]resetInfo {
	if m, ok := resetMemo[l][f]; ok {
		return m
	}
	if resetMemo[l] == nil {
		resetMemo[l] = map[*types.Var]map[*ssa.Function]resetInfo{}
	}
	res := map[*ssa.Function]resetInfo{}
	resetMemo[l][f] = res
	for round := 0; round < 4; round++ {
		changed := false
		for _, fn := range l.SrcFuncs {
			if !l.inModule(fn) || fn.Blocks == nil {
				continue
			}
			gen := func(cond bool) func(ssa.Instruction) bool {
				return func(in ssa.Instruction) bool {
					if isStoreToField(in, f) {
						return true
					}
					if cc := callCommon(in); cc != nil {
						if g := staticCallee(cc); g != nil && g != fn {
							if ri, ok := res[g]; ok && (ri.all || cond && ri.cond) {
								return true
							}
						}
					}
					return false
				}
			}
			has := false
			allInstrs(fn, func(in ssa.Instruction) {
				if gen(true)(in) {
					has = true
				}
			})
			if !has {
				continue
			}
			qa := mustState(fn, false, gen(false), nil)
			qc := mustStateE(fn, false, gen(true), nil, fastDisabledEdge)
			ri := resetInfo{true, true}
			for _, r := range returnsOf(fn) {
				if isRecoverReturn(r) {
					continue
				}
				ri.all = ri.all && qa(r)
				ri.cond = ri.cond && qc(r)
			}
			if (ri.all || ri.cond) && res[fn] != ri {
				res[fn] = ri
				changed = true
			}
		}
		if !changed {
			break
		}
	}
	return res
}

// storeOrReset: instruction stores field f or calls a function that resets it
// on every path (cond: on every path on which the fast index is enabled).
func (l *Loaded) storeOrReset(f *types.Var, cond bool) func(ssa.Instruction) bool {
	rs := l.resetters(f)
	return func(in ssa.Instruction) bool {
		if isStoreToField(in, f) {
			return true
		}
		if cc := callCommon(in); cc != nil {
			if g := staticCallee(cc); g != nil {
				if ri, ok := rs[g]; ok && (ri.all || cond && ri.cond) {
					return true
				}
			}
		}
		return false
	}
}
