package main

import (
	"fmt"
	"go/token"
	"strings"

	"golang.org/x/tools/go/ssa"
)

func init() {
	register(&propCheck{id: "C14", needRoot: true, run: checkC14,
		explanation: "Decided statically: (1) DOM — in SaveVersion every call that can reach a batch mutation is dominated by the `version does not exist yet` edge of the overwrite check, and the `exists` edge never reaches a batch mutation (it returns on both outcomes), so committing an existing version number writes nothing; (2) ORDER — LoadVersion replaces the working tree / lastSaved only after the target-range test, the existence test and the root lookup have all passed; (3) FLOW — the version number given to every writer in SaveVersion, stored as the tree version and returned on success is the single value WorkingVersion(), and WorkingVersion() is `version+1` or the configured initial version. Added in the build round: lastSaved follows every successful commit / load; first version advances only after a successful deleteVersion; VersionExists and re-commit decision tables (TABLE); ORDER-publish-after-commit — SaveVersion publishes the new number (cached latest version, tree.version, working / lastSaved trees) only after Commit() returned nil or on the idempotent re-save edge; ERR-version-range — storage errors in the range discovery and existence probes are surfaced, never read as 'absent' (closures handed to library search routines included). NOT decided: that the contiguous range is rediscovered correctly after reopening (first-version binary search relies on data invariants), nor the contents of versions. Rules added in the later seeding rounds (each listed with what it decides in this file's rule table) are described in DESIGN.md §3 \"Third and fourth seeding rounds\" and Appendix C3–C5."})
}

// batchMutationReach: functions that may perform Batch.Set/Delete.
func batchMutationReach(l *Loaded) *Reach {
	return l.newReach(isBatchMutation)
}

// isBatchMutation: invoke of Set/Delete on a corestore interface that also
// has Write (i.e. a Batch, not a KVStore).
func isBatchMutation(c *ssa.CallCommon) bool {
	if !c.IsInvoke() || c.Method.Pkg() == nil || c.Method.Pkg().Path() != corestorePkg {
		return false
	}
	if n := c.Method.Name(); n != "Set" && n != "Delete" {
		return false
	}
	return ifaceHasMethod(c.Value.Type(), "Write")
}

func isBatchWrite(c *ssa.CallCommon) bool {
	if !c.IsInvoke() || c.Method.Pkg() == nil || c.Method.Pkg().Path() != corestorePkg {
		return false
	}
	n := c.Method.Name()
	return n == "Write" || n == "WriteSync"
}

func checkC14(c *Ctx) {
	l := c.L
	checkImportRootKey(c, "OWN-version-probe-key")
	checkFailedWriteRetainsBatch(c)
	checkMemoAfterIteratorVerdict(c, "ORDER-memo-after-verdict")
	checkVersionProbeRemoved(c, "PASS-version-probe-removed")
	checkRootRecordEmpty(c, "TABLE-root-record")
	checkInitialVersionConsumed(c, "ORDER-initial-version-consumed")
	c.rule("DOM-overwrite-check", "overwrite check dominates every write of SaveVersion", 4)
	c.rule("ORDER-load-after-checks", "LoadVersion mutates the tree only after its checks", 2)
	c.rule("FLOW-commit-number", "the committed number is WorkingVersion()", 6)

	sv := l.Func("", "*MutableTree.SaveVersion")
	vexists := l.Func("", "*MutableTree.versionExists")
	VExists := l.Func("", "*MutableTree.VersionExists")
	wv := l.Func("", "*MutableTree.WorkingVersion")
	lv := l.Func("", "*MutableTree.LoadVersion")
	if sv == nil || (vexists == nil && VExists == nil) || wv == nil || lv == nil {
		c.anchorMissing("DOM-overwrite-check", "SaveVersion / versionExists / WorkingVersion / LoadVersion")
		return
	}
	existsPred := predStatic(vexists, VExists)
	mut := batchMutationReach(l)

	// (1)
	isExists := isResultOf(existsPred, 0)
	gs := findGuards(sv, func(cond ssa.Value) (bool, int) {
		if isExists(stripTrivial(cond)) {
			return true, 1 // proceed to write when it does NOT exist
		}
		return false, 0
	})
	if len(gs) == 0 {
		c.bad("DOM-overwrite-check", "SaveVersion overwrite check", l.pos(sv.Pos()), "no branch on the result of the version-existence check found in SaveVersion")
	} else {
		for _, in := range callsReaching(sv, mut) {
			c.decide("DOM-overwrite-check", "SaveVersion write "+l.calleeName(in), l.ipos(in), guardsEffect(gs, in),
				"dominated by the `version does not exist` edge", "a call that can reach a batch mutation is not dominated by the `version does not exist` edge of the overwrite check")
		}
		for _, g := range gs {
			reached := false
			searchFrom([]point{blockStart(g.iff.Block().Succs[1-g.pass])}, func(in ssa.Instruction) bool {
				if callCommon(in) != nil && mut.Instr(in) {
					reached = true
				}
				return false
			})
			c.decide("DOM-overwrite-check", "SaveVersion exists-edge writes nothing", l.ipos(g.iff), !reached,
				"no batch mutation reachable when the version already exists", "a batch mutation is reachable on the `version already exists` edge")
		}
	}

	// (1b) the new version is published (cached latest version, tree.version, working/lastSaved trees)
	// only after the physical commit succeeded — or on the `already exists` edge of the idempotent re-save
	c.rule("ORDER-publish-after-commit", "SaveVersion publishes the new version number only after Commit() returned nil", 3)
	{
		commitF := l.Func("", "*nodeDB.Commit")
		rlvF := l.Func("", "*nodeDB.resetLatestVersion")
		fVer := l.Field("", "ImmutableTree", "version")
		fLast0 := l.Field("", "MutableTree", "lastSaved")
		fImm0 := l.Field("", "MutableTree", "ImmutableTree")
		if commitF == nil || rlvF == nil || fVer == nil || fLast0 == nil || fImm0 == nil {
			c.anchorMissing("ORDER-publish-after-commit", "nodeDB.Commit / resetLatestVersion / ImmutableTree.version / lastSaved")
		} else {
			var commitCall *ssa.Call
			for _, in := range callsIn(sv, predStatic(commitF)) {
				if cl, ok := in.(*ssa.Call); ok {
					commitCall = cl
				}
			}
			existsEdge := func(in ssa.Instruction) bool {
				for _, g := range gs {
					if edgeDominates(g.iff.Block(), 1-g.pass, in.Block()) {
						return true
					}
				}
				return false
			}
			var pubs []ssa.Instruction
			pubs = append(pubs, callsIn(sv, predStatic(rlvF))...)
			allInstrs(sv, func(in ssa.Instruction) {
				if isStoreToField(in, fVer, fLast0, fImm0) {
					pubs = append(pubs, in)
				}
			})
			if commitCall == nil {
				c.bad("ORDER-publish-after-commit", "SaveVersion commits", l.pos(sv.Pos()), "SaveVersion no longer calls nodeDB.Commit")
			}
			for _, p := range pubs {
				if commitCall == nil {
					break
				}
				ok := okEdgeDominates(commitCall, p) || existsEdge(p)
				c.decide("ORDER-publish-after-commit", "SaveVersion "+describe(l, p), l.ipos(p), ok, "after Commit() == nil (or on the idempotent re-save edge)",
					"the version is published before the physical commit is known to have succeeded: a failed commit leaves a version number that VersionExists / AvailableVersions report but that is not in the store")
			}
		}
	}

	// (2)
	fImm := l.Field("", "MutableTree", "ImmutableTree")
	fLast := l.Field("", "MutableTree", "lastSaved")
	getRoot := l.Func("", "*nodeDB.GetRoot")
	if fImm == nil || fLast == nil || getRoot == nil {
		c.anchorMissing("ORDER-load-after-checks", "MutableTree.ImmutableTree / lastSaved / nodeDB.GetRoot")
	} else {
		exG := findGuards(lv, func(cond ssa.Value) (bool, int) {
			if isExists(stripTrivial(cond)) {
				return true, 0
			}
			return false, 0
		})
		var rootCall *ssa.Call
		for _, in := range callsIn(lv, predStatic(getRoot)) {
			if cl, ok := in.(*ssa.Call); ok {
				rootCall = cl
			}
		}
		latestPred := predStatic(l.Func("", "*nodeDB.getLatestVersion"))
		rangeG := findGuards(lv, cmpMatcher(token.LSS, isResultOf(latestPred, 1), isParam(lv, "targetVersion"), true))
		stores := append(storesToField(lv, fImm), storesToField(lv, fLast)...)
		if len(stores) == 0 {
			c.anchorMissing("ORDER-load-after-checks", "no store of the working tree in LoadVersion")
		}
		for _, st := range stores {
			key := "LoadVersion " + describe(l, st)
			ok1 := guardsEffect(exG, st)
			ok2 := rootCall != nil && okEdgeDominates(rootCall, st)
			ok3 := guardsEffect(rangeG, st)
			switch {
			case !ok1:
				c.bad("ORDER-load-after-checks", key, l.ipos(st), "the working tree is replaced before the version-existence test has passed")
			case !ok2:
				c.bad("ORDER-load-after-checks", key, l.ipos(st), "the working tree is replaced before the root lookup succeeded")
			case !ok3:
				c.bad("ORDER-load-after-checks", key, l.ipos(st), "the working tree is replaced before the `target <= latest` test has passed")
			default:
				c.ok("ORDER-load-after-checks", key, l.ipos(st), "dominated by the range test, the existence test and the successful root lookup")
			}
		}
	}

	// (2b) every successful SaveVersion / LoadVersion re-establishes lastSaved
	checkLastSaved(c)
	// (2c) the cached first version only advances past a version that was just deleted
	c.rule("ORDER-first-version", "first version advances only after a successful deleteVersion", 1)
	if dvt, dv, rfv := l.Func("", "*nodeDB.deleteVersionsTo"), l.Func("", "*nodeDB.deleteVersion"), l.Func("", "*nodeDB.resetFirstVersion"); dvt == nil || dv == nil || rfv == nil {
		c.anchorMissing("ORDER-first-version", "deleteVersionsTo / deleteVersion / resetFirstVersion")
	} else {
		var dvCall *ssa.Call
		for _, in := range callsIn(dvt, predStatic(dv)) {
			if cl, ok := in.(*ssa.Call); ok {
				dvCall = cl
			}
		}
		n := 0
		for _, in := range callsIn(dvt, predStatic(rfv)) {
			if dvCall == nil || !dvCall.Block().Dominates(in.Block()) {
				continue
			}
			n++
			// argument is (the version handed to deleteVersion) + 1
			arg := stripTrivial(callCommon(in).Args[1])
			okArg := false
			if bo, isB := arg.(*ssa.BinOp); isB && bo.Op == token.ADD {
				if one, isC := constInt(bo.Y); isC && one == 1 && sameValue(bo.X, dvCall.Call.Args[1]) {
					okArg = true
				}
			}
			c.decide("ORDER-first-version", "deleteVersionsTo advances firstVersion to deleted+1 after success", l.ipos(in), okArg && okEdgeDominates(dvCall, in),
				"resetFirstVersion(version+1) right after deleteVersion(version) returned nil", "the cached first version is set to something other than (just deleted version)+1, or without a successful deletion: the advertised range no longer matches what is stored")
		}
		if n == 0 {
			c.bad("ORDER-first-version", "deleteVersionsTo advances firstVersion per deleted version", l.pos(dvt.Pos()), "no resetFirstVersion follows deleteVersion inside the pruning loop: the cached range is not advanced version by version")
		}
	}

	checkVersionRangeTable(c)
	checkCounterWriters(c)
	checkLastSavedIsFinal(c)
	c.rule("PASS-root-record", "existence and identity of a version come from its stored root record, not from the node cache", 2)
	checkRootRecord(c, "PASS-root-record")
	// the range is re-discovered from storage after a reopen: a failed probe must be an error, not "absent"
	c.rule("ERR-version-range", "storage errors in the version-range discovery and existence probes are surfaced, not read as 'absent'", 15)
	{
		ea := newErrAnalysis(c, l)
		var fns []*ssa.Function
		for _, n := range []string{"*nodeDB.getFirstVersion", "*nodeDB.getFirstNonLegacyVersion", "*nodeDB.getLatestVersion", "*nodeDB.hasVersion", "*nodeDB.getLegacyLatestVersion",
			"*MutableTree.versionExists", "*MutableTree.VersionExists", "*MutableTree.AvailableVersions", "*nodeDB.GetRoot", "*nodeDB.HasVersion"} {
			if f := l.Func("", n); f != nil {
				fns = append(fns, f)
			}
		}
		ea.runE1E2E4("ERR-version-range", "ERR-version-range", "ERR-version-range", func(fn *ssa.Function) bool {
			for f := fn; f != nil; f = f.Parent() {
				for _, g := range fns {
					if f == g {
						return true
					}
				}
			}
			return false
		})
	}
	checkOverwriteTable(c)

	// (3)
	var wvCall ssa.Value
	for _, in := range callsIn(sv, predStatic(wv)) {
		if v, ok := in.(ssa.Value); ok && wvCall == nil {
			wvCall = v
		}
	}
	if wvCall == nil {
		c.bad("FLOW-commit-number", "SaveVersion calls WorkingVersion", l.pos(sv.Pos()), "SaveVersion no longer derives its number from WorkingVersion()")
	} else {
		sinks := map[string]int{"saveNewNodes": 1, "SaveRoot": 1, "SaveEmptyRoot": 1, "saveFastNodeVersion": 1, "resetLatestVersion": 1}
		allInstrs(sv, func(in ssa.Instruction) {
			cc := callCommon(in)
			if cc == nil {
				return
			}
			f := staticCallee(cc)
			if f == nil {
				return
			}
			idx, ok := sinks[f.Name()]
			if !ok || !l.inModule(f) || idx >= len(cc.Args) {
				return
			}
			c.decide("FLOW-commit-number", "SaveVersion → "+f.Name()+" version argument", l.ipos(in), sameValue(cc.Args[idx], wvCall),
				"argument is the WorkingVersion() value", "version argument is not the WorkingVersion() value computed at entry")
		})
		fVer := l.Field("", "ImmutableTree", "version")
		for _, st := range storesToField(sv, fVer) {
			c.decide("FLOW-commit-number", "SaveVersion store tree.version", l.ipos(st), sameValue(st.Val, wvCall), "stores the WorkingVersion() value", "tree.version is set to something other than WorkingVersion()")
		}
		for _, r := range successReturns(sv) {
			c.decide("FLOW-commit-number", "SaveVersion returned version", l.ipos(r), sameValue(retVal(r, 1), wvCall), "returns the WorkingVersion() value", "a success return hands back a number other than WorkingVersion()")
		}
	}
	// WorkingVersion shape
	fVer := l.Field("", "ImmutableTree", "version")
	fInit := l.Field("", "Options", "InitialVersion")
	okShape := fVer != nil && fInit != nil
	for _, r := range returnsOf(wv) {
		for _, root := range roots(retVal(r, 0)) {
			switch x := root.(type) {
			case *ssa.BinOp:
				one, isOne := constInt(x.Y)
				if !(x.Op == token.ADD && isOne && one == 1 && isLoadOfField(fVer)(x.X)) {
					okShape = false
				}
			case *ssa.UnOp:
				if !isLoadOfField(fInit)(x) {
					okShape = false
				}
			default:
				okShape = false
			}
		}
	}
	c.decide("FLOW-commit-number", "WorkingVersion = version+1 | InitialVersion", l.pos(wv.Pos()), okShape,
		"returns tree.version+1 or the configured initial version", "WorkingVersion() returns something other than version+1 / Options.InitialVersion")
}

// checkVersionRangeTable: versionExists as a decision table over the position
// of the queried version relative to the legacy boundary, the first and the
// latest version.
func checkVersionRangeTable(c *Ctx) {
	l := c.L
	c.rule("TABLE-version-range", "VersionExists = legacy lookup below the boundary, else first <= v <= latest", 12)
	fn := l.Func("", "*MutableTree.versionExists")
	if fn == nil {
		c.anchorMissing("TABLE-version-range", "MutableTree.versionExists")
		return
	}
	for _, vsLegacy := range []int{-1, 0, 1} {
		for _, vsFirst := range []int{-1, 0, 1} {
			for _, vsLatest := range []int{-1, 0, 1} {
				for _, found := range []bool{true, false} {
					if vsLegacy <= 0 && (vsFirst != 0 || vsLatest != 0 || !found) {
						continue // below the boundary nothing else is consulted
					}
					vsLegacy, vsFirst, vsLatest, found := vsLegacy, vsFirst, vsLatest, found
					env := &tableEnv{l: l, flag: map[string]int{"getLatestVersion()#0": map[bool]int{true: 1, false: -1}[found]}, cmp: func(a, b string) (int, bool) { return 0, false }}
					const V = 100
					env.ints = func(v ssa.Value, role string) (int64, bool) {
						switch {
						case role == "arg0":
							return V, true
						case strings.HasPrefix(role, "getLegacyLatestVersion("):
							return V - int64(vsLegacy), true
						case strings.HasPrefix(role, "getFirstVersion("):
							return V - int64(vsFirst), true
						case strings.HasPrefix(role, "getLatestVersion(") && strings.HasSuffix(role, "#1"):
							return V - int64(vsLatest), true
						}
						return 0, false
					}
					var legacyLookup bool
					run := runTable(fn, env, func(call *ssa.Call) string {
						if f := staticCallee(&call.Call); f != nil && f.Name() == "hasLegacyVersion" {
							legacyLookup = true
						}
						return ""
					})
					got := "stuck"
					if run.ret != nil {
						got = roleOf(l, retVal(run.ret, 0), "tree", 0)
						if legacyLookup {
							got = "legacy-lookup"
						}
					}
					want := "false"
					switch {
					case vsLegacy <= 0:
						want = "legacy-lookup"
					case found && vsFirst >= 0 && vsLatest <= 0:
						want = "true"
					}
					// the in-range answer is returned as the value of the conjunction; accept the constant or the evaluated comparison
					if got != want && run.ret != nil && !legacyLookup {
						w2 := &walker{env: &walkEnv{evalAtom: env.atom}, vals: map[ssa.Value]int{}}
						// re-walk to the return to resolve phis, then evaluate the returned boolean
						env.recv = fn.Params[0].Name()
						ret, _ := w2.run(fn)
						if ret != nil {
							switch w2.eval(retVal(ret, 0), 0) {
							case 1:
								got = "true"
							case -1:
								got = "false"
							}
						}
					}
					c.decide("TABLE-version-range", fmt.Sprintf("versionExists: v vs legacy %+d, vs first %+d, vs latest %+d, found=%v", vsLegacy, vsFirst, vsLatest, found), l.pos(fn.Pos()), got == want, got, "answers `"+got+"`, the range rule says `"+want+"`")
				}
			}
		}
	}
}

// checkOverwriteTable: committing an existing version number succeeds iff the
// root hash is identical (or both trees are empty), otherwise it is an error.
func checkOverwriteTable(c *Ctx) {
	l := c.L
	c.rule("TABLE-overwrite", "re-commit of an existing version: success iff identical root", 6)
	sv := l.Func("", "*MutableTree.SaveVersion")
	if sv == nil {
		c.anchorMissing("TABLE-overwrite", "SaveVersion")
		return
	}
	for _, storedEmpty := range []bool{true, false} {
		for _, workingEmpty := range []bool{true, false} {
			for _, equal := range []bool{true, false} {
				if storedEmpty && !equal {
					continue // no hash to compare
				}
				storedEmpty, workingEmpty, equal := storedEmpty, workingEmpty, equal
				env := &tableEnv{l: l, flag: map[string]int{"versionExists()#0": 1, "VersionExists()": 1}, cmp: func(a, b string) (int, bool) {
					if strings.HasSuffix(a, ".hash") || strings.HasSuffix(b, ".hash") {
						if equal {
							return 0, true
						}
						return 1, true
					}
					return 0, false
				}}
				env.isNil = func(role string) int {
					switch {
					case strings.HasPrefix(role, "GetRoot(") && strings.HasSuffix(role, "#0"):
						if storedEmpty {
							return 1
						}
						return -1
					case strings.HasSuffix(role, "ImmutableTree.root"):
						if workingEmpty {
							return 1
						}
						return -1
					}
					return 0
				}
				wrote := false
				run := runTable(sv, env, func(call *ssa.Call) string {
					if f := staticCallee(&call.Call); f != nil && (f.Name() == "Commit" || f.Name() == "saveNewNodes" || f.Name() == "SaveRoot" || f.Name() == "SaveEmptyRoot") {
						wrote = true
					}
					return ""
				})
				got := "stuck"
				if run.ret != nil {
					if errNilness(retVal(run.ret, 2), run.ret.Block(), 0) < 0 {
						got = "success"
					} else {
						got = "error"
					}
					if wrote {
						got += "+writes"
					}
				}
				want := "error"
				if (storedEmpty && workingEmpty) || (!storedEmpty && equal) {
					want = "success"
				}
				c.decide("TABLE-overwrite", fmt.Sprintf("SaveVersion on an existing version: stored empty=%v working empty=%v hash equal=%v", storedEmpty, workingEmpty, equal), l.pos(sv.Pos()), got == want, got, "outcome `"+got+"`, the contract says `"+want+"` (and nothing is written either way)")
			}
		}
	}
}

// checkLastSaved (shared by C14, C01, C09): every successful SaveVersion /
// LoadVersion re-establishes lastSaved; Hash() and Rollback() are defined by
// it.
func checkLastSaved(c *Ctx) {
	l := c.L
	sv, lv := l.Func("", "*MutableTree.SaveVersion"), l.Func("", "*MutableTree.LoadVersion")
	if sv == nil || lv == nil {
		c.anchorMissing("PASS-last-saved", "SaveVersion / LoadVersion")
		return
	}
	c.rule("PASS-last-saved", "lastSaved follows every successful commit or load", 2)
	if fLast := l.Field("", "MutableTree", "lastSaved"); fLast == nil {
		c.anchorMissing("PASS-last-saved", "MutableTree.lastSaved")
	} else {
		for _, fn := range []*ssa.Function{sv, lv} {
			q := mustState(fn, false, l.storeOrReset(fLast, false), nil)
			var bad *ssa.Return
			for _, r := range successReturns(fn) {
				// LoadVersion on an empty store returns before anything is loaded
				if !q(r) {
					if fn == lv {
						if v, ok := constInt(stripTrivial(retVal(r, 0))); ok && v == 0 {
							continue
						}
					}
					bad = r
				}
			}
			pos := l.pos(fn.Pos())
			if bad != nil {
				pos = l.ipos(bad)
			}
			c.decide("PASS-last-saved", l.fname(fn)+" sets lastSaved on success", pos, bad == nil, "every success return passes the store", "a success return keeps an older lastSaved: Hash() is stale and Rollback() silently returns to an older version")
		}
	}
}

// checkRootRecord (shared by C14, C15, C01): whether a version exists — and
// which tree it is — is decided by its stored root record, never by what
// happens to be in the node cache (the cache is not purged by pruning or
// rollback).  GetImmutable resolves the root through GetRoot on every path
// that hands out a tree, and GetRoot reads the root record from storage on
// every path that returns a root.
func checkRootRecord(c *Ctx, rule string) {
	l := c.L
	gi := l.Func("", "*MutableTree.GetImmutable")
	gr := l.Func("", "*nodeDB.GetRoot")
	fDB := l.Field("", "nodeDB", "db")
	if gi == nil || gr == nil || fDB == nil {
		c.anchorMissing(rule, "GetImmutable / GetRoot / nodeDB.db")
		return
	}
	q := mustState(gi, false, func(in ssa.Instruction) bool { cc := callCommon(in); return cc != nil && predStatic(gr)(cc) }, nil)
	ok := true
	var bad *ssa.Return
	for _, r := range successReturns(gi) {
		if !q(r) {
			ok, bad = false, r
		}
	}
	pos := l.pos(gi.Pos())
	if bad != nil {
		pos = l.ipos(bad)
	}
	c.decide(rule, "GetImmutable resolves the version through its stored root record", pos, ok, "every success return passes GetRoot", "a tree is handed out without consulting the version's root record (e.g. from a cached node): a version deleted by pruning or rollback in this process still loads")
	isRead := func(in ssa.Instruction) bool {
		cc := callCommon(in)
		return cc != nil && cc.IsInvoke() && cc.Method.Name() == "Get" && isLoadOfField(fDB)(cc.Value)
	}
	q2 := mustState(gr, false, isRead, nil)
	ok, bad = true, nil
	for _, r := range successReturns(gr) {
		if !q2(r) {
			ok, bad = false, r
		}
	}
	pos = l.pos(gr.Pos())
	if bad != nil {
		pos = l.ipos(bad)
	}
	c.decide(rule, "GetRoot reads the root record from storage", pos, ok, "every success return passes db.Get", "GetRoot can answer without reading the root record (e.g. because a node with the root's key is cached): after a rollback that re-commits the version without writes, the erased root is served")
}

// checkCounterWriters: the cached version counters of nodeDB are written only
// by their reset functions (and nodeDB.DeleteVersionsFrom's forced legacy
// reset); everything else goes through those — whose call sites the ORDER
// rules place after the commit.  A helper that updates a counter "to keep it
// in step" publishes a version number before it is committed.
func checkCounterWriters(c *Ctx) {
	l := c.L
	const R = "OWN-version-counters"
	c.rule(R, "cached version counters are written only by their reset functions", 3)
	owners := map[string]map[string]bool{
		"latestVersion":       {"(*iavl.nodeDB).resetLatestVersion": true},
		"firstVersion":        {"(*iavl.nodeDB).resetFirstVersion": true},
		"legacyLatestVersion": {"(*iavl.nodeDB).resetLegacyLatestVersion": true, "(*iavl.nodeDB).DeleteVersionsFrom": true},
	}
	n := 0
	for fname, allowed := range owners {
		f := l.Field("", "nodeDB", fname)
		if f == nil {
			c.anchorMissing(R, "nodeDB."+fname)
			continue
		}
		for _, fn := range l.SrcFuncs {
			if l.pkgPathOf(fn) != l.ModPath {
				continue
			}
			for _, st := range storesToField(fn, f) {
				// struct literal initialisation in the constructor
				if _, isAl := stripTrivial(st.Addr.(*ssa.FieldAddr).X).(*ssa.Alloc); isAl {
					continue
				}
				n++
				c.decide(R, l.fname(fn)+" writes nodeDB."+fname, l.ipos(st), allowed[l.fname(fn)], "owner of the counter",
					"nodeDB."+fname+" is written outside its reset function: a version number can become visible (VersionExists, AvailableVersions, GetLatestVersion) without the ordering the callers of the reset function are checked for — e.g. before the commit that may still fail")
			}
		}
	}
	if n < 3 {
		c.anchorMissing(R, "fewer than 3 counter writes")
	}
}

// checkLastSavedIsFinal: lastSaved is a snapshot of the tree as committed.
// In every function that assigns it from clone(), no field of the working
// tree (version, root) is written between that clone() call and the return —
// otherwise lastSaved carries the old version number or root, and Rollback()
// throws the handle back to it.
func checkLastSavedIsFinal(c *Ctx) {
	l := c.L
	const R = "ORDER-last-saved-final"
	c.rule(R, "lastSaved is cloned from the final committed tree (nothing of the working tree is written after the clone)", 2)
	fLast := l.Field("", "MutableTree", "lastSaved")
	fVer := l.Field("", "ImmutableTree", "version")
	fRoot := l.Field("", "ImmutableTree", "root")
	cloneM := l.Func("", "*ImmutableTree.clone")
	if fLast == nil || fVer == nil || fRoot == nil || cloneM == nil {
		c.anchorMissing(R, "lastSaved / ImmutableTree.version / root / clone")
		return
	}
	n := 0
	for _, fn := range l.SrcFuncs {
		if l.pkgPathOf(fn) != l.ModPath {
			continue
		}
		for _, st := range storesToField(fn, fLast) {
			call, ok := stripTrivial(st.Val).(*ssa.Call)
			if !ok || !predStatic(cloneM)(&call.Call) {
				continue
			}
			// only clones of the receiver's own working tree (SaveVersion); a clone of a freshly loaded tree is final by construction
			if r := roleOf(l, call.Call.Args[0], "", 0); !strings.HasPrefix(r, "recv") {
				continue
			}
			n++
			later := reachableAfter(call, func(x ssa.Instruction) bool { return isStoreToField(x, fVer, fRoot) }, nil)
			msg := ""
			if len(later) > 0 {
				msg = "after lastSaved was cloned, " + describe(l, later[0]) + " at " + l.ipos(later[0]) + " still changes the working tree: lastSaved keeps the previous version number / root, and a Rollback() returns the handle to it (the next commit re-uses the version number)"
			}
			c.decide(R, l.fname(fn)+" clones lastSaved from the final tree", l.ipos(st), len(later) == 0, "no write of version / root after the clone", msg)
		}
	}
	if n < 2 {
		c.anchorMissing(R, "fewer than 2 lastSaved = clone() assignments")
	}
}

// checkRootRecordEmpty (shared by C14, C13, C01): the stored root record of a
// version has three forms — empty (the version is an empty tree), a reference
// to an earlier root, or the root node itself.  GetRoot must decide "empty ⇒
// (nil root, no error)" before it inspects or returns anything else: without
// it the record of an empty version is taken for a root node stored under
// (version,1) and every empty version becomes unloadable.
func checkRootRecordEmpty(c *Ctx, rule string) {
	l := c.L
	c.rule(rule, "GetRoot decides the empty root record (empty tree) before the other forms", 2)
	gr := l.Func("", "*nodeDB.GetRoot")
	if gr == nil {
		c.anchorMissing(rule, "nodeDB.GetRoot")
		return
	}
	var v ssa.Value
	var at ssa.Instruction
	allInstrs(gr, func(in ssa.Instruction) {
		cc := callCommon(in)
		if v != nil || cc == nil || !cc.IsInvoke() || cc.Method.Name() != "Get" || len(cc.Args) == 0 {
			return
		}
		r := roleOf(l, cc.Args[0], "ndb", 0)
		if strings.Contains(r, "nodeKeyFormat") && strings.Contains(r, "GetRootKey(arg0)") {
			if e := extractOf(in.(ssa.Value), 0); e != nil {
				v, at = e, in
			}
		}
	})
	if v == nil {
		c.anchorMissing(rule, "root record Get in GetRoot")
		return
	}
	gs := nonEmptyGuards(gr, func(x ssa.Value) bool { return x == v })
	if len(gs) == 0 {
		c.bad(rule, "GetRoot: empty root record ⇒ empty tree", l.ipos(at), "no emptiness test of the stored root record: the record of an empty version (an empty value) is taken for a root node stored under (version,1); the node read then fails and the empty version cannot be loaded")
		c.bad(rule, "GetRoot: other forms only for a non-empty record", l.ipos(at), "no emptiness test of the stored root record")
		return
	}
	good := true
	for _, g := range gs {
		searchFrom([]point{blockStart(g.iff.Block().Succs[1-g.pass])}, func(in ssa.Instruction) bool {
			if r, ok := in.(*ssa.Return); ok {
				if !isNilConst(stripTrivial(retVal(r, 0))) || !isNilConst(stripTrivial(retVal(r, 1))) {
					good = false
				}
				return true
			}
			return false
		})
	}
	c.decide(rule, "GetRoot: empty root record ⇒ empty tree", l.ipos(gs[0].iff), good, "the empty edge returns (nil, nil)", "the empty root record does not lead to (nil root, no error): an empty version is reported as missing or as a root node")
	// every other use of the record, and every success return that is reachable with the record present, lies behind the test
	okUses := true
	var bad ssa.Instruction
	for _, r := range refs(v) {
		in, isIn := r.(ssa.Instruction)
		if !isIn {
			continue
		}
		if call, isCall := r.(*ssa.Call); isCall {
			if bi, isB := call.Call.Value.(*ssa.Builtin); isB && bi.Name() == "len" {
				continue
			}
		}
		if bo, isBo := r.(*ssa.BinOp); isBo && (isNilConst(bo.X) || isNilConst(bo.Y)) {
			continue // the nil test (entry missing) comes first
		}
		if !guardsEffect(gs, in) {
			okUses, bad = false, in
		}
	}
	pos := l.ipos(at)
	if bad != nil {
		pos = l.ipos(bad)
	}
	c.decide(rule, "GetRoot: other forms only for a non-empty record", pos, okUses, "reference test and key extraction are behind the non-empty edge", "the stored root record is inspected as a reference / node before it was found non-empty")
}

// checkInitialVersionConsumed (shared by C14, C17): the configured initial
// version numbers the FIRST commit; the one-shot flag that says it is still
// to be used may be cleared only once that commit is known to have succeeded
// (after Commit() == nil, or on the idempotent re-save edge).  Cleared
// earlier, a first commit that fails on a storage write is retried as
// version 1.
func checkInitialVersionConsumed(c *Ctx, rule string) {
	l := c.L
	c.rule(rule, "the initial-version flag is cleared only by a commit that succeeded", 1)
	sv := l.Func("", "*MutableTree.SaveVersion")
	commitF := l.Func("", "*nodeDB.Commit")
	fInit := l.Field("", "MutableTree", "initialVersionSet")
	fVer := l.Field("", "ImmutableTree", "version")
	if sv == nil || commitF == nil || fInit == nil || fVer == nil {
		c.anchorMissing(rule, "SaveVersion / nodeDB.Commit / MutableTree.initialVersionSet")
		return
	}
	n := 0
	// a site is fine after a successful physical commit, or next to / after the assignment of the tree's version
	// (the idempotent re-save edge assigns it only once the stored root was found identical)
	var siteOK func(fn *ssa.Function, at ssa.Instruction, depth int) bool
	siteOK = func(fn *ssa.Function, at ssa.Instruction, depth int) bool {
		for _, in := range callsIn(fn, predStatic(commitF)) {
			if cl, isCall := in.(*ssa.Call); isCall && okEdgeDominates(cl, at) {
				return true
			}
		}
		for _, vs := range storesToField(fn, fVer) {
			if vs.Block() == at.Block() || vs.Block().Dominates(at.Block()) {
				return true
			}
		}
		if depth >= 2 {
			return false
		}
		// a helper: every call site must be fine
		edges := l.callersOf(fn)
		if len(edges) == 0 {
			return false
		}
		for _, e := range edges {
			if e.Site == nil || e.Caller.Func == nil || !siteOK(e.Caller.Func, e.Site, depth+1) {
				return false
			}
		}
		return true
	}
	for _, fn := range l.SrcFuncs {
		if l.pkgPathOf(fn) != l.ModPath {
			continue
		}
		for _, st := range storesToField(fn, fInit) {
			if _, isAl := stripTrivial(st.Addr.(*ssa.FieldAddr).X).(*ssa.Alloc); isAl {
				continue // constructor literal
			}
			k, isC := stripTrivial(st.Val).(*ssa.Const)
			if !isC || k.Value == nil || k.Value.String() != "false" {
				continue // setting the flag (SetInitialVersion) is not a consumption
			}
			n++
			c.decide(rule, l.fname(fn)+" clears initialVersionSet", l.ipos(st), siteOK(fn, st, 0), "after Commit() == nil, or with the assignment of the version on the idempotent re-save edge",
				"the initial-version flag is cleared before the commit is known to have succeeded: when the first commit of a tree with a configured initial version fails on a storage write, the retry is numbered 1 instead of the initial version (and the working hash computed meanwhile uses version 1)")
		}
	}
	if n == 0 {
		c.anchorMissing(rule, "no consumption of initialVersionSet found")
	}
}

// checkImportRootKey (C14): the key (v,1) is what the version search probes
// for "version v exists".  The importer gives the imported root the nonce 1
// under the root's OWN version; when the root is older than the imported
// version (the exported version was saved without changes) this creates the
// probe key of a version that was never imported, and the first-version search
// lands on it.  The nonce-1 assignment must therefore be confined to the edge
// on which the root's version is the imported version.
func checkImportRootKey(c *Ctx, rule string) {
	l := c.L
	c.rule(rule, "the importer creates the version-probe key (v,1) only for the imported version", 1)
	ic := l.Func("", "*Importer.Commit")
	fNonce := l.Field("", "NodeKey", "nonce")
	fIVer := l.Field("", "Importer", "version")
	fKVer := l.Field("", "NodeKey", "version")
	if ic == nil || fNonce == nil || fIVer == nil || fKVer == nil {
		c.anchorMissing(rule, "Importer.Commit / NodeKey.nonce / Importer.version")
		return
	}
	// guards comparing the root's key version with the imported version; pass = equal (not older)
	var same []guard
	for _, b := range ic.Blocks {
		iff := ifOf(b)
		if iff == nil {
			continue
		}
		bo, ok := stripTrivial(iff.Cond).(*ssa.BinOp)
		if !ok {
			continue
		}
		x, y := stripTrivial(bo.X), stripTrivial(bo.Y)
		if !(isLoadOfField(fKVer)(x) && isLoadOfField(fIVer)(y)) && !(isLoadOfField(fKVer)(y) && isLoadOfField(fIVer)(x)) {
			continue
		}
		switch bo.Op {
		case token.EQL:
			same = append(same, guard{iff, 0})
		case token.NEQ, token.LSS, token.GTR:
			same = append(same, guard{iff, 1})
		case token.GEQ, token.LEQ:
			same = append(same, guard{iff, 0})
		}
	}
	n := 0
	for _, st := range storesToField(ic, fNonce) {
		k, isC := constInt(st.Val)
		if !isC || k != 1 {
			continue
		}
		n++
		c.decide(rule, "Importer.Commit keys the root (root version, 1)", l.ipos(st), guardsEffect(same, st), "only on the edge where the root's version is the imported version",
			"the imported root is stored under (its own version, 1) also when it is older than the imported version: that key is the version-search probe of a version that was never imported — AvailableVersions / VersionExists report the phantom versions from the root's version up to the imported one (and LoadVersion refuses the store when the root's version lies below the configured initial version)")
	}
	if n == 0 {
		c.anchorMissing(rule, "no nonce-1 assignment in Importer.Commit")
	}
}
