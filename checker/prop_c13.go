package main

import (
	"fmt"
	"go/token"
	"go/types"
	"sort"
	"strings"

	"golang.org/x/tools/go/ssa"
)

func init() {
	register(&propCheck{id: "C13", needRoot: true, run: checkC13,
		explanation: "Decided statically: (1) FORMAT — the token sequence emitted on every success path of the node / fast-node encoders, consumed by the decoders (with the field each decoded value is stored into), and the fixed-width big-endian key layouts and key-space prefixes equal the pinned on-disk format, which is written in the checker as data independent of the code; encoder and decoder are compared with the table separately, so a symmetric change to both is reported; (2) TOTAL — every decoder of stored bytes (varint/bytes decoders, MakeNode, MakeLegacyNode, fastnode.DeserializeNode, the reference-root reader) is free of reachable panic sites, unbounded allocations and loops for ALL byte strings: each index/slice/make/conversion site is an obligation discharged by a difference-bound (zone) abstract interpretation with verified callee post-conditions. NOT decided: that decoded values equal the reference tree over histories; that node keys sort numerically is implied by the big-endian layout only for non-negative versions. Rules added in the later seeding rounds (each listed with what it decides in this file's rule table) are described in DESIGN.md §3 \"Third and fourth seeding rounds\" and Appendix C3–C5."})
}

// pinned on-disk format (data, not derived from the code)
var pinnedNodeBody = []string{
	"V(subtreeHeight) V(size) B(key) ?leaf B(value)",
	"V(subtreeHeight) V(size) B(key) ?inner H(hash) V(computed) ?!mode&1 V(GetNodeKey(leftNodeKey).version) V(GetNodeKey(leftNodeKey).nonce) ?!mode&2 V(GetNodeKey(rightNodeKey).version) V(GetNodeKey(rightNodeKey).nonce)",
	"V(subtreeHeight) V(size) B(key) ?inner H(hash) V(computed) ?!mode&1 V(GetNodeKey(leftNodeKey).version) V(GetNodeKey(leftNodeKey).nonce) ?mode&2 H(rightNodeKey)",
	"V(subtreeHeight) V(size) B(key) ?inner H(hash) V(computed) ?mode&1 H(leftNodeKey) ?!mode&2 V(GetNodeKey(rightNodeKey).version) V(GetNodeKey(rightNodeKey).nonce)",
	"V(subtreeHeight) V(size) B(key) ?inner H(hash) V(computed) ?mode&1 H(leftNodeKey) ?mode&2 H(rightNodeKey)",
}
var pinnedNodeDecode = []string{
	"V(→Node.subtreeHeight) V(→Node.size) B(→Node.key) ?leaf B(→Node.value)",
	"V(→Node.subtreeHeight) V(→Node.size) B(→Node.key) ?inner B(→Node.hash) V(→unstored) ?!mode&1 V(→leftNodeKey.version) V(→leftNodeKey.nonce) ?!mode&2 V(→rightNodeKey.version) V(→rightNodeKey.nonce)",
	"V(→Node.subtreeHeight) V(→Node.size) B(→Node.key) ?inner B(→Node.hash) V(→unstored) ?!mode&1 V(→leftNodeKey.version) V(→leftNodeKey.nonce) ?mode&2 B(→Node.rightNodeKey)",
	"V(→Node.subtreeHeight) V(→Node.size) B(→Node.key) ?inner B(→Node.hash) V(→unstored) ?mode&1 B(→Node.leftNodeKey) ?!mode&2 V(→rightNodeKey.version) V(→rightNodeKey.nonce)",
	"V(→Node.subtreeHeight) V(→Node.size) B(→Node.key) ?inner B(→Node.hash) V(→unstored) ?mode&1 B(→Node.leftNodeKey) ?mode&2 B(→Node.rightNodeKey)",
}
var pinnedLegacyDecode = []string{
	"V(→Node.subtreeHeight) V(→Node.size) V(→NodeKey.version) B(→Node.key) ?leaf B(→Node.value)",
	"V(→Node.subtreeHeight) V(→Node.size) V(→NodeKey.version) B(→Node.key) ?inner B(→Node.leftNodeKey) B(→Node.rightNodeKey)",
}

// pinned key-space prefixes: global → prefix byte, segment widths
var pinnedKeyFormats = map[string]string{
	"nodeKeyFormat":         "s 12",
	"nodeKeyPrefixFormat":   "s 8",
	"fastKeyFormat":         "f 0",
	"metadataKeyFormat":     "m 0",
	"legacyNodeKeyFormat":   "n 32",
	"legacyOrphanKeyFormat": "o 8 8 32",
	"legacyRootKeyFormat":   "r 8",
}

func checkC13(c *Ctx) {
	l := c.L
	checkDecodedValueNonNil(c)
	c.rule("OWN-node-version", "a node's version (part of its stored form and of its hash) is fixed when the node is created or first keyed; re-keying keeps it", 1)
	checkNodeVersionOwner(c)
	checkRootRecordEmpty(c, "TABLE-root-record")
	c.rule("FORMAT-node", "node encoder / decoder layouts equal the pinned format", 3)
	c.rule("FORMAT-fastnode", "fast-node encoder / decoder layouts equal the pinned format", 2)
	c.rule("FORMAT-keys", "fixed-width big-endian key layouts and key-space prefixes", 10)

	checkFormat(c, l, "FORMAT-node", "Node.writeBytes", l.Func("", "*Node.writeBytes"), false, pinnedNodeBody)
	checkFormat(c, l, "FORMAT-node", "MakeNode", l.Func("", "MakeNode"), true, pinnedNodeDecode)
	checkFormat(c, l, "FORMAT-node", "MakeLegacyNode", l.Func("", "MakeLegacyNode"), true, pinnedLegacyDecode)
	checkFormat(c, l, "FORMAT-fastnode", "fastnode.Node.WriteBytes", l.Func("fastnode", "*Node.WriteBytes"), false, []string{"V(versionLastUpdatedAt) B(value)"})
	checkFormat(c, l, "FORMAT-fastnode", "fastnode.DeserializeNode", l.Func("fastnode", "DeserializeNode"), true, []string{"V(→Node.versionLastUpdatedAt) B(→Node.value)"})
	checkFormat(c, l, "FORMAT-keys", "NodeKey.GetKey", l.Func("", "*NodeKey.GetKey"), false, []string{"MAKE(12) BE64@0(version) BE32@8(nonce)"})
	checkFormat(c, l, "FORMAT-keys", "GetNodeKey", l.Func("", "GetNodeKey"), false, []string{"BE64@0(→NodeKey.version) BE32@8(→NodeKey.nonce)"})
	checkFormat(c, l, "FORMAT-keys", "GetRootKey", l.Func("", "GetRootKey"), false, []string{"MAKE(12) BE64@0(arg0) BE32@8(1)"})

	// byte-level primitives the layouts above are expressed in
	c.rule("FORMAT-primitives", "length-prefixed bytes and 32-byte hash primitives", 3)
	c.rule("ERR-decode-invalidates", "an iterator whose stored entry failed to decode becomes invalid with the error set (no accessor runs on a missing node)", 3)
	{
		ea := newErrAnalysis(c, l)
		ea.runErrorInvalidates("ERR-decode-invalidates", nil)
	}
	c.rule("OWN-resolve-inputs", "node / root lookups depend on the key and the stored bytes only", 4)
	checkResolveInputs(c, "OWN-resolve-inputs")
	checkVarintBoundaries(c, "FORMAT-primitives")
	checkGetNodeKeyLength(c, "TOTAL-decoders")
	c.rule("FORMAT-narrowing", "a decoded integer stored into a narrower field is accepted exactly over that field's range (the range the encoder emits)", 3)
	checkNarrowing(c)
	checkFormatX(c, l, "FORMAT-primitives", "encoding.EncodeBytes", l.Func("internal/encoding", "EncodeBytes"), false, true, []string{"U(len(arg1)) W(arg1)"})
	checkFormatX(c, l, "FORMAT-primitives", "encoding.Encode32BytesHash", l.Func("internal/encoding", "Encode32BytesHash"), false, true, []string{"W(global:hashLenBz) W(arg1)"})
	var encInit *ssa.Function
	if p := l.Pkg("internal/encoding"); p != nil {
		encInit = p.Func("init#1")
	}
	checkFormatX(c, l, "FORMAT-primitives", "encoding hashLenBz = uvarint(32)", encInit, false, true, []string{"MAKE(1) U(32)"})

	// key-space prefixes from the package initialiser
	got := map[string]string{}
	if p := l.Pkg(""); p != nil {
		if ini := p.Func("init"); ini != nil {
			allInstrs(ini, func(in ssa.Instruction) {
				st, ok := in.(*ssa.Store)
				if !ok {
					return
				}
				g, ok := st.Addr.(*ssa.Global)
				if !ok {
					return
				}
				if _, want := pinnedKeyFormats[g.Name()]; !want {
					return
				}
				call, ok := stripTrivial(st.Val).(*ssa.Call)
				if !ok {
					return
				}
				f := staticCallee(&call.Call)
				if f == nil || !strings.HasPrefix(f.Name(), "New") {
					return
				}
				var parts []string
				for i, a := range call.Call.Args {
					if n, ok := constInt(stripTrivial(a)); ok {
						if i == 0 {
							parts = append(parts, string(rune(n)))
						} else {
							parts = append(parts, fmt.Sprint(n))
						}
						continue
					}
					// variadic layout
					for _, seq := range buildSeqs(l, a, nil, 0) {
						for _, t := range seq {
							if t.kind == "RAW" {
								var n int64
								fmt.Sscanf(t.role, "0x%x", &n)
								parts = append(parts, fmt.Sprint(n))
							} else if t.kind == "RAWV" {
								parts = append(parts, t.role)
							}
						}
					}
				}
				got[g.Name()] = strings.Join(parts, " ")
			})
		}
	}
	names := make([]string, 0, len(pinnedKeyFormats))
	for n := range pinnedKeyFormats {
		names = append(names, n)
	}
	sort.Strings(names)
	for _, n := range names {
		g, ok := got[n]
		if !ok {
			c.anchorMissing("FORMAT-keys", "initialiser of "+n)
			continue
		}
		c.decide("FORMAT-keys", "key-space "+n, "nodedb.go", g == pinnedKeyFormats[n], "prefix and widths "+g+" as pinned", "key-space layout is `"+g+"`, pinned format is `"+pinnedKeyFormats[n]+"`: existing databases become unreadable")
	}
	checkTotalC13(c)
}

// commonTrustedInvoke: dynamic calls whose totality is a contract of a
// foreign component, not of the analysed functions.
func commonTrustedInvoke(cc *ssa.CallCommon) bool {
	if cc.Method.Pkg() == nil {
		return cc.Method.Name() == "Error" // error.Error()
	}
	switch cc.Method.Pkg().Path() {
	case corestorePkg, "io", "hash":
		return true
	}
	if n := derefNamed(cc.Value.Type()); n != nil && n.Obj().Name() == "Logger" {
		return true
	}
	return false
}

func keyFormatLengths(l *Loaded) func(call *ssa.Call) (int64, bool) {
	return func(call *ssa.Call) (int64, bool) {
		f := staticCallee(&call.Call)
		if f == nil || f.Name() != "Length" || len(call.Call.Args) == 0 {
			return 0, false
		}
		ld, ok := stripTrivial(call.Call.Args[0]).(*ssa.UnOp)
		if !ok {
			return 0, false
		}
		g, ok := ld.X.(*ssa.Global)
		if !ok {
			return 0, false
		}
		spec, ok := pinnedKeyFormats[g.Name()]
		if !ok {
			return 0, false
		}
		total := int64(1)
		for _, w := range strings.Fields(spec)[1:] {
			var n int64
			fmt.Sscan(w, &n)
			total += n
		}
		return total, true
	}
}

func checkTotalC13(c *Ctx) {
	l := c.L
	c.rule("TOTAL-decoders", "decoders of stored bytes have no reachable panic site, unbounded allocation or loop", 40)
	names := []struct{ rel, name string }{
		{"internal/encoding", "DecodeBytes"}, {"internal/encoding", "DecodeUvarint"}, {"internal/encoding", "DecodeVarint"},
		// the encoders run on DECODED values too (MakeNode hashes every decoded leaf: height, size, version go through EncodeVarint)
		{"internal/encoding", "EncodeVarint"}, {"internal/encoding", "EncodeUvarint"}, {"internal/encoding", "EncodeBytes"},
		{"", "MakeNode"}, {"", "MakeLegacyNode"}, {"", "GetNodeKey"}, {"fastnode", "DeserializeNode"},
		{"", "*nodeDB.GetRoot"}, {"", "isReferenceRoot"}, {"", "*NodeKey.GetKey"}, {"", "GetRootKey"}, {"", "*Node.isLeaf"},
	}
	var T []*ssa.Function
	for _, n := range names {
		f := l.Func(n.rel, n.name)
		if f == nil {
			c.anchorMissing("TOTAL-decoders", n.name)
			continue
		}
		T = append(T, f)
	}
	an := newTotalAnalysis(c, l, "TOTAL-decoders", T)
	getNodeKey := l.Func("", "GetNodeKey")
	isRef := l.Func("", "isReferenceRoot")
	makeNode := l.Func("", "MakeNode")
	needLen := func(n int64, what string) func(s *tstate, args []ssa.Value, at ssa.Instruction, fn *ssa.Function) {
		return func(s *tstate, args []ssa.Value, at ssa.Instruction, fn *ssa.Function) {
			ln := s.lenOfValue(args[0])
			ok := s.entails(konst(n), ln, 0)
			s.an.ob("precondition", at, l.fname(fn)+"("+roleOf(l, args[0], "", 0)+") needs len >= "+fmt.Sprint(n), ok, what)
			s.assume(konst(n), ln, 0)
		}
	}
	an.pre[getNodeKey] = needLen(12, "GetNodeKey reads 12 bytes; the argument's length is not established on some path")
	// isReferenceRoot is analysed for ARBITRARY input (it is called on every value of the node key-space by the
	// whole-store walks, including the empty value that encodes the root of an empty tree)
	_ = isRef
	an.entryInv = func(s *tstate, fn *ssa.Function) {
		switch fn {
		case getNodeKey:
			s.assume(konst(12), s.lenOfValue(fn.Params[0]), 0) // declared precondition, checked at call sites
		case makeNode:
			// declared precondition of MakeNode: nk is a 12-byte node key (GetNode dispatches 32-byte legacy keys to MakeLegacyNode)
			s.assume(konst(12), s.lenOfValue(fn.Params[0]), 0)
		}
	}
	an.constCall = keyFormatLengths(l)
	an.resultLen = func(call *ssa.Call) (int64, bool) {
		if f := staticCallee(&call.Call); f != nil && f.String() == "(*"+l.ModPath+"/keyformat.FastPrefixFormatter).Prefix" {
			return 1, true // constructor stores []byte{prefix}; verified below
		}
		return 0, false
	}
	an.trustedInvoke = commonTrustedInvoke
	an.assertOK = func(ta *ssa.TypeAssert) bool { return poolAssertOK(l, ta) }
	an.trustedCallee = func(f *ssa.Function) bool {
		if strings.HasPrefix(f.String(), "(*"+l.ModPath+"/keyformat.") {
			return true // key formatters: constant non-negative widths (FORMAT-keys)
		}
		switch l.fname(f) {
		case "(*iavl.Node)._hash": // hashing a freshly decoded leaf: in-memory, fixed-size buffers
			return true
		case "(*iavl.nodeDB).legacyRootKey", "(*iavl.nodeDB).nodeKey":
			return true
		case "internal/encoding.fVarintEncode": // a loop over a uint64 that loses 7 bits per round; no index, no allocation
			return true
		}
		return false
	}
	an.run()
	an.report()
	// side condition of resultLen: prefixSlice is only ever a 1-element slice
	fPS := l.Field("keyformat", "FastPrefixFormatter", "prefixSlice")
	if fPS == nil {
		c.anchorMissing("TOTAL-decoders", "keyformat.FastPrefixFormatter.prefixSlice")
	} else {
		ok, n := true, 0
		for _, fn := range l.SrcFuncs {
			for _, st := range storesToField(fn, fPS) {
				n++
				sl, isSl := stripTrivial(st.Val).(*ssa.Slice)
				if !isSl {
					ok = false
					continue
				}
				if ln, isArr := arrayLenOf(sl.X.Type()); !isArr || ln != 1 || sl.Low != nil || sl.High != nil {
					ok = false
				}
			}
		}
		c.decide("TOTAL-decoders", "keyformat.FastPrefixFormatter.prefixSlice has length 1", "keyformat/prefix_formatter.go", ok && n > 0, "every store is a full slice of a 1-element array", "prefixSlice may have a length other than 1: Prefix()[0] can panic")
	}
	c.trust("binary.Uvarint/Varint: n <= len(buf), |n| <= 10", "binary.BigEndian.Uint64/PutUint64 need len >= 8, Uint32/PutUint32 len >= 4 (checked as obligations)",
		"copy, append, bytes.*, sha256.*, errors.*, fmt.Errorf do not panic", "MakeNode precondition: nk is a 12-byte node key (declared; not established for hostile child keys in legacy mode)",
		"storage backend / io.Writer / Logger calls are foreign contracts")
}

// checkNarrowing: decoders read integers as int64 varints and store them into
// narrower fields (int8 height, uint32 nonce).  The encoder emits the whole
// range of the field's type, so the decoder must accept exactly that range:
// either through the round-trip test `x != int64(T(x))`, or through constant
// bounds equal to the type's minimum / maximum.  Narrower bounds reject valid
// stored nodes; missing or wider bounds let distinct stored values decode to
// the same node.
func checkNarrowing(c *Ctx) {
	l := c.L
	const R = "FORMAT-narrowing"
	n := 0
	for _, spec := range [][2]string{{"", "MakeNode"}, {"", "MakeLegacyNode"}} {
		fn := l.Func(spec[0], spec[1])
		if fn == nil {
			c.anchorMissing(R, spec[1])
			continue
		}
		allInstrs(fn, func(in ssa.Instruction) {
			cv, ok := in.(*ssa.Convert)
			if !ok {
				return
			}
			from, ok1 := cv.X.Type().Underlying().(*types.Basic)
			to, ok2 := cv.Type().Underlying().(*types.Basic)
			if !ok1 || !ok2 || from.Kind() != types.Int64 || to.Info()&types.IsInteger == 0 {
				return
			}
			var lo, hi int64
			switch to.Kind() {
			case types.Int8:
				lo, hi = -128, 127
			case types.Int16:
				lo, hi = -32768, 32767
			case types.Int32:
				lo, hi = -2147483648, 2147483647
			case types.Uint8:
				lo, hi = 0, 255
			case types.Uint16:
				lo, hi = 0, 65535
			case types.Uint32:
				lo, hi = 0, 4294967295
			default:
				return
			}
			// only values that come out of a varint decoder
			if !strings.Contains(roleOf(l, cv.X, "", 0), "DecodeVarint") {
				return
			}
			// stored into a field?
			field := ""
			for _, r := range refs(cv) {
				if st, ok := r.(*ssa.Store); ok {
					if fa, ok := st.Addr.(*ssa.FieldAddr); ok {
						field = fieldName(fa.X.Type(), fa.Field)
					}
				}
			}
			if field == "" {
				return
			}
			n++
			x := stripTrivial(cv.X)
			key := fmt.Sprintf("%s: decoded varint narrowed to %s (field %s)", spec[1], to.Name(), field)
			// (a) round trip
			round := false
			allInstrs(fn, func(in2 ssa.Instruction) {
				bo, ok := in2.(*ssa.BinOp)
				if !ok || (bo.Op != token.NEQ && bo.Op != token.EQL) {
					return
				}
				back := func(a, b ssa.Value) bool {
					if stripTrivialKeepConv(a) != x {
						return false
					}
					c2, ok := b.(*ssa.Convert)
					if !ok {
						return false
					}
					// int64(T(x)) or int64(load of the field the narrowed value was stored into)
					inner := c2.X
					if c3, ok := inner.(*ssa.Convert); ok && stripTrivialKeepConv(c3.X) == x && types.Identical(c3.Type(), cv.Type()) {
						return true
					}
					if types.Identical(inner.Type(), cv.Type()) && strings.HasSuffix(roleOf(l, inner, "", 0), "."+field) {
						return true
					}
					return false
				}
				if back(bo.X, bo.Y) || back(bo.Y, bo.X) {
					if len(refs(bo)) > 0 {
						round = true
					}
				}
			})
			if round {
				c.ok(R, key, l.ipos(cv), "round-trip test x == int64(T(x))")
				return
			}
			// (b) constant bounds on x
			var gotLo, gotHi *int64
			allInstrs(fn, func(in2 ssa.Instruction) {
				bo, ok := in2.(*ssa.BinOp)
				if !ok {
					return
				}
				a, b, op := bo.X, bo.Y, bo.Op
				if _, isK := constInt(a); isK {
					a, b = b, a
					op = map[token.Token]token.Token{token.LSS: token.GTR, token.GTR: token.LSS, token.LEQ: token.GEQ, token.GEQ: token.LEQ}[op]
				}
				if stripTrivialKeepConv(a) != x {
					return
				}
				k, isK := constInt(b)
				if !isK {
					return
				}
				switch op {
				case token.LSS: // x < k rejects below k
					v := k
					gotLo = &v
				case token.LEQ:
					v := k + 1
					gotLo = &v
				case token.GTR: // x > k rejects above k
					v := k
					gotHi = &v
				case token.GEQ:
					v := k - 1
					gotHi = &v
				}
			})
			switch {
			case gotLo == nil || gotHi == nil:
				c.bad(R, key, l.ipos(cv), "no complete range test before the narrowing: distinct stored values decode to the same field value")
			case *gotLo != lo || *gotHi != hi:
				c.bad(R, key, l.ipos(cv), fmt.Sprintf("accepted range is [%d, %d] but the field (and the encoder) ranges over [%d, %d]: valid stored nodes are rejected or out-of-range values accepted", *gotLo, *gotHi, lo, hi))
			default:
				c.ok(R, key, l.ipos(cv), fmt.Sprintf("accepted range [%d, %d] = range of %s", lo, hi, to.Name()))
			}
		})
	}
	if n < 3 {
		c.anchorMissing(R, "fewer than 3 narrowing conversions of decoded varints found")
	}
}

// stripTrivialKeepConv strips ChangeType/MakeInterface but not Convert.
func stripTrivialKeepConv(v ssa.Value) ssa.Value {
	for {
		switch x := v.(type) {
		case *ssa.ChangeType:
			v = x.X
		default:
			return v
		}
	}
}

// checkResolveInputs (shared by C13 and C16): which stored entry a node key /
// root key resolves to is a function of the key and of the stored bytes only.
// GetNode and GetRoot (and the decoders) read none of nodeDB's cached version
// counters: those are 0 until something asks for them after an open, and they
// move with pruning — a lookup that depends on them finds a re-keyed (v,0)
// root in one process state and misses it in another.
func checkResolveInputs(c *Ctx, rule string) {
	l := c.L
	ndbT := l.NamedType("", "nodeDB")
	if ndbT == nil {
		c.anchorMissing(rule, "nodeDB")
		return
	}
	counters := map[string]bool{"firstVersion": true, "latestVersion": true, "legacyLatestVersion": true}
	for _, name := range []string{"*nodeDB.GetNode", "*nodeDB.GetRoot", "MakeNode", "MakeLegacyNode"} {
		fn := l.Func("", name)
		if fn == nil {
			c.anchorMissing(rule, name)
			continue
		}
		var at ssa.Instruction
		what := ""
		for _, f := range allUnder(fn) {
			allInstrs(f, func(in ssa.Instruction) {
				fa, ok := in.(*ssa.FieldAddr)
				if !ok {
					return
				}
				n := derefNamed(fa.X.Type())
				if n == nil || n.Obj() != ndbT.Obj() {
					return
				}
				if fname := fieldName(fa.X.Type(), fa.Field); counters[fname] && at == nil {
					at, what = in, fname
				}
			})
		}
		pos := l.pos(fn.Pos())
		if at != nil {
			pos = l.ipos(at)
		}
		c.decide(rule, name+" resolves from the key and the stored bytes only", pos, at == nil, "reads no cached version counter", "the lookup reads nodeDB."+what+": the same stored database resolves differently depending on whether / how far the counter has been initialised or moved by pruning in this process")
	}
}

// checkVarintBoundaries (C13, C02): in the hand-written varint fast paths of
// internal/encoding a value is continued while it has 8 or more significant
// bits: the only admissible comparisons against the continuation boundary are
// `x >= 0x80` / `x < 0x80` (equivalently `x > 0x7f` / `x <= 0x7f`).  An
// off-by-one here mis-encodes exactly the lengths 128, 16384, … — the hash is
// computed through another writer and stays right, the stored bytes do not.
func checkVarintBoundaries(c *Ctx, rule string) {
	l := c.L
	p := l.Pkg("internal/encoding")
	if p == nil {
		c.anchorMissing(rule, "internal/encoding")
		return
	}
	n := 0
	for _, fn := range l.SrcFuncs {
		if l.pkgPathOf(fn) != l.ModPath+"/internal/encoding" {
			continue
		}
		allInstrs(fn, func(in ssa.Instruction) {
			bo, ok := in.(*ssa.BinOp)
			if !ok {
				return
			}
			switch bo.Op {
			case token.LSS, token.LEQ, token.GTR, token.GEQ:
			default:
				return
			}
			x, y, op := bo.X, bo.Y, bo.Op
			if _, isK := constInt(x); isK {
				x, y = y, x
				op = map[token.Token]token.Token{token.LSS: token.GTR, token.GTR: token.LSS, token.LEQ: token.GEQ, token.GEQ: token.LEQ}[op]
			}
			k, isK := constInt(y)
			if !isK || (k != 0x80 && k != 0x7f) {
				return
			}
			if _, isInt := x.Type().Underlying().(*types.Basic); !isInt {
				return
			}
			n++
			ok2 := (k == 0x80 && (op == token.GEQ || op == token.LSS)) || (k == 0x7f && (op == token.GTR || op == token.LEQ))
			c.decide(rule, fmt.Sprintf("%s compares with the varint continuation boundary (%s 0x%x)", l.fname(fn), op, k), l.ipos(in), ok2, "continues exactly while the value needs more than 7 bits",
				fmt.Sprintf("the varint loop compares `x %s 0x%x`: values equal to the boundary (128, 16384, …) are encoded one byte short / long, so a 128-byte key or value gets a wrong length prefix in the stored node", op, k))
		})
	}
	if n < 1 {
		c.anchorMissing(rule, "no varint boundary comparison found in internal/encoding")
	}
}

// checkGetNodeKeyLength: child links are decoded from stored bytes (a legacy
// link is a length-prefixed byte string of any length).  GetNode is where a
// link is resolved: for a key that is neither a 32-byte legacy hash nor a
// 12-byte (version, nonce) key it must leave with an error before it reaches
// GetNodeKey, which indexes 12 bytes.  Walked abstractly for a 5-byte key.
func checkGetNodeKeyLength(c *Ctx, rule string) {
	l := c.L
	gn := l.Func("", "*nodeDB.GetNode")
	gnk := l.Func("", "GetNodeKey")
	if gn == nil || gnk == nil {
		c.anchorMissing(rule, "nodeDB.GetNode / GetNodeKey")
		return
	}
	for _, n := range []int64{5, 13} {
		n := n
		env := &tableEnv{l: l, flag: map[string]int{}, cmp: func(a, b string) (int, bool) { return 0, false }}
		env.ints = func(v ssa.Value, role string) (int64, bool) {
			if role == "len(arg0)" {
				return n, true
			}
			return 0, false
		}
		env.isNil = func(role string) int {
			if role == "arg0" {
				return -1
			}
			return 1 // cache miss, storage miss: the path that goes on to re-key the lookup
		}
		reached := false
		run := runTable(gn, env, func(call *ssa.Call) string {
			if predStatic(gnk)(&call.Call) {
				reached = true
			}
			return ""
		})
		ok := !reached && run.ret != nil && errNilness(retVal(run.ret, 1), run.ret.Block(), 0) > 0
		why := "GetNodeKey is reached"
		if !reached && run.ret == nil {
			why = "the walk could not decide a branch"
		} else if !reached {
			why = "the call returns without an error"
		}
		c.decide(rule, fmt.Sprintf("GetNode rejects a %d-byte node key before indexing it", n), l.pos(gn.Pos()), ok, "error return, GetNodeKey not reached",
			why+fmt.Sprintf(" for a %d-byte key: a stored node whose (legacy) child link has a wrong length makes the tree walk panic (index out of range) instead of failing with an error", n))
	}
}
