package main

import (
	"fmt"
	"go/constant"
	"go/token"
	"go/types"
	"sort"
	"strings"

	"golang.org/x/tools/go/ssa"
)

// TOTAL: no reachable panic site, unbounded allocation or loop in a "total"
// function.  The functions are loop-free, so the abstract interpretation is
// fully trace-partitioned: every acyclic CFG path carries one zone
// (difference-bound constraints x - y <= c over integer SSA values, len()
// terms and constants) and one symbolic field store, which identifies
// repeated loads of the same field (go/ssa has no CSE).  Panic sites are
// obligations that must be entailed on every feasible path.

type tterm int // 0 = the constant zero

type tcon struct {
	x, y tterm
	c    int64
}

type aint struct {
	t     tterm
	off   int64
	known bool
}

type mkey struct {
	obj int
	fv  *types.Var // nil: whole cell (alloc / global / free variable)
}

type mval struct {
	isInt bool
	a     aint
	obj   int
}

type pendFact struct {
	r    int // result index (int result)
	p    int // param index of a slice param (-1: none)
	ub   int64
	hasU bool // r - len(p) <= ub
	lb   int64
	hasL bool // r >= lb
	eqLen bool // r == len(p)
	lenOfResult bool // the fact is about len(result r) instead of r
}

type pending struct {
	call  *ssa.Call
	cond  string // "errnil" | "true" | "always"
	facts []pendFact
}

type tstate struct {
	an      *totalAnalysis
	nterm   int
	nobj    int
	cons    []tcon
	ival    map[ssa.Value]aint
	oid     map[ssa.Value]int
	lenT    map[int]tterm
	mem     map[mkey]mval
	nonnil  map[int]bool
	maybeNil map[int]bool
	pend    []pending
	boolv   map[ssa.Value]int // known bool: 1 true, -1 false
	errnil  map[ssa.Value]int // known error nil: 1 nil, -1 non-nil
	prev    *ssa.BasicBlock
	arrLen  map[int]int64
	sumOf   map[ssa.Value][2]ssa.Value // exact sums of two non-negative bounded values
}

func (s *tstate) clone() *tstate {
	n := &tstate{an: s.an, nterm: s.nterm, nobj: s.nobj, prev: s.prev}
	n.cons = append([]tcon(nil), s.cons...)
	n.ival = make(map[ssa.Value]aint, len(s.ival))
	for k, v := range s.ival {
		n.ival[k] = v
	}
	n.oid = make(map[ssa.Value]int, len(s.oid))
	for k, v := range s.oid {
		n.oid[k] = v
	}
	n.lenT = make(map[int]tterm, len(s.lenT))
	for k, v := range s.lenT {
		n.lenT[k] = v
	}
	n.mem = make(map[mkey]mval, len(s.mem))
	for k, v := range s.mem {
		n.mem[k] = v
	}
	n.nonnil = make(map[int]bool, len(s.nonnil))
	for k, v := range s.nonnil {
		n.nonnil[k] = v
	}
	n.maybeNil = make(map[int]bool, len(s.maybeNil))
	for k, v := range s.maybeNil {
		n.maybeNil[k] = v
	}
	n.pend = append([]pending(nil), s.pend...)
	n.boolv = make(map[ssa.Value]int, len(s.boolv))
	for k, v := range s.boolv {
		n.boolv[k] = v
	}
	n.errnil = make(map[ssa.Value]int, len(s.errnil))
	for k, v := range s.errnil {
		n.errnil[k] = v
	}
	n.sumOf = make(map[ssa.Value][2]ssa.Value, len(s.sumOf))
	for k, v := range s.sumOf {
		n.sumOf[k] = v
	}
	n.arrLen = make(map[int]int64, len(s.arrLen))
	for k, v := range s.arrLen {
		n.arrLen[k] = v
	}
	return n
}

func (s *tstate) newTerm() tterm { s.nterm++; return tterm(s.nterm) }
func (s *tstate) newObj() int    { s.nobj++; return s.nobj }

func (s *tstate) add(x, y tterm, c int64) { s.cons = append(s.cons, tcon{x, y, c}) }

// closure: Floyd–Warshall over the current constraints.  Returns the matrix
// and feasibility.
const inf = int64(1) << 60

func (s *tstate) closure() ([][]int64, bool) {
	n := s.nterm + 1
	d := make([][]int64, n)
	for i := range d {
		d[i] = make([]int64, n)
		for j := range d[i] {
			if i != j {
				d[i][j] = inf
			}
		}
	}
	for _, c := range s.cons {
		if c.c < d[c.x][c.y] {
			d[c.x][c.y] = c.c
		}
	}
	for k := 0; k < n; k++ {
		for i := 0; i < n; i++ {
			if d[i][k] == inf {
				continue
			}
			for j := 0; j < n; j++ {
				if d[k][j] == inf {
					continue
				}
				if v := d[i][k] + d[k][j]; v < d[i][j] {
					d[i][j] = v
				}
			}
		}
	}
	for i := 0; i < n; i++ {
		if d[i][i] < 0 {
			return d, false
		}
	}
	return d, true
}

// entails a - b <= c ?
func (s *tstate) entails(a, b aint, c int64) bool {
	if !a.known || !b.known {
		return false
	}
	d, ok := s.closure()
	if !ok {
		return true
	}
	// (a.t + a.off) - (b.t + b.off) <= c  ⇔ a.t - b.t <= c - a.off + b.off
	if a.t == b.t {
		return a.off-b.off <= c
	}
	bound := d[a.t][b.t]
	return bound != inf && bound <= c-a.off+b.off
}

func (s *tstate) assume(a, b aint, c int64) { // a - b <= c
	if !a.known || !b.known {
		return
	}
	if a.t == b.t {
		if a.off-b.off > c {
			s.add(0, 0, -1) // infeasible
		}
		return
	}
	s.add(a.t, b.t, c-a.off+b.off)
}

func konst(c int64) aint { return aint{t: 0, off: c, known: true} }

// ---------------------------------------------------------------------------

type totalSummary struct {
	computed bool
	inprog   bool
	byCond   map[string][]pendFact // "errnil" / "true" / "always"
}

type totalOb struct {
	key     string
	pos     string
	ok      bool
	why     string
	seen    int
}

type totalAnalysis struct {
	c        *Ctx
	l        *Loaded
	rule     string
	T        map[*ssa.Function]bool
	summ     map[*ssa.Function]*totalSummary
	obs      map[string]*totalOb
	order    []string
	untrustedParam func(fn *ssa.Function, p *ssa.Parameter) bool
	pre      map[*ssa.Function]func(s *tstate, args []ssa.Value, at ssa.Instruction, fn *ssa.Function) // precondition checks
	entryInv func(s *tstate, fn *ssa.Function)
	// sibPre: for a lazily included sibling method, the length lower bounds its slice arguments had at the call
	// site that pulled it in; assumed at its entry, checked at every other call site
	sibPre map[*ssa.Function]map[int]int64
	trustedCallee func(f *ssa.Function) (ok bool)
	constCall func(call *ssa.Call) (int64, bool)
	maxPaths int
	allocBound func(s *tstate, fn *ssa.Function, ms ssa.Instruction, n ssa.Value) (bool, string)
	fieldWriters map[*types.Var]*FnReach
	fieldInv func(s *tstate, fa *ssa.FieldAddr, loaded ssa.Value)
	assertOK func(ta *ssa.TypeAssert) bool
	resultLen func(call *ssa.Call) (int64, bool)
	trustedInvoke func(cc *ssa.CallCommon) bool
	bufLen   map[ssa.Value]bool
	trackedNil map[int]bool
	curFn    *ssa.Function
	paths    int
	trunc    bool
	funcsDone map[*ssa.Function]bool
}

func (an *totalAnalysis) ob(kind string, at ssa.Instruction, desc string, ok bool, why string) {
	key := an.l.fname(an.curFn) + " " + kind + " " + desc
	o := an.obs[key]
	if o == nil {
		o = &totalOb{key: key, pos: an.l.ipos(at), ok: true}
		an.obs[key] = o
		an.order = append(an.order, key)
	}
	o.seen++
	if !ok && o.ok {
		o.ok = false
		o.why = why
		o.pos = an.l.ipos(at)
	}
}

// ---- abstract values

func (s *tstate) intOf(v ssa.Value) aint {
	if a, ok := s.ival[v]; ok {
		return a
	}
	switch x := v.(type) {
	case *ssa.Const:
		if x.Value != nil && x.Value.Kind() == constant.Int {
			if n, exact := constant.Int64Val(x.Value); exact {
				return konst(n)
			}
		}
	}
	a := aint{t: s.newTerm(), known: true}
	s.ival[v] = a
	// unsigned values are non-negative
	if b, ok := v.Type().Underlying().(*types.Basic); ok && b.Info()&types.IsUnsigned != 0 {
		s.add(0, a.t, 0) // 0 - a <= 0
	}
	return a
}

func (s *tstate) objOf(v ssa.Value) int {
	if id, ok := s.oid[v]; ok {
		return id
	}
	id := s.newObj()
	s.oid[v] = id
	return id
}

func (s *tstate) lenOf(id int) aint {
	t, ok := s.lenT[id]
	if !ok {
		t = s.newTerm()
		s.lenT[id] = t
		s.add(0, t, 0) // len >= 0
		s.add(t, 0, s.an.maxLen()) // a slice cannot be larger than the address space allows
	}
	return aint{t: t, known: true}
}

func isIntType(t types.Type) bool {
	b, ok := t.Underlying().(*types.Basic)
	return ok && b.Info()&types.IsInteger != 0
}

func isSliceLike(t types.Type) bool {
	switch u := t.Underlying().(type) {
	case *types.Slice:
		return true
	case *types.Basic:
		return u.Info()&types.IsString != 0
	}
	return false
}

func arrayLenOf(t types.Type) (int64, bool) {
	if p, ok := t.Underlying().(*types.Pointer); ok {
		t = p.Elem()
	}
	if a, ok := t.Underlying().(*types.Array); ok {
		return a.Len(), true
	}
	return 0, false
}

// addrKey resolves an address value to a memory key.
func (s *tstate) addrKey(addr ssa.Value) (mkey, bool) {
	switch x := addr.(type) {
	case *ssa.FieldAddr:
		return mkey{s.objOf(x.X), fieldVar(x.X.Type(), x.Field)}, true
	case *ssa.Alloc:
		return mkey{s.objOf(x), nil}, true
	case *ssa.Global:
		return mkey{s.objOf(x), nil}, true
	case *ssa.FreeVar:
		return mkey{s.objOf(x), nil}, true
	}
	return mkey{}, false
}

func (s *tstate) setVal(v ssa.Value, m mval) {
	if m.isInt {
		s.ival[v] = m.a
	} else {
		s.oid[v] = m.obj
	}
}

func (s *tstate) valOf(v ssa.Value) mval {
	if isIntType(v.Type()) {
		return mval{isInt: true, a: s.intOf(v)}
	}
	return mval{obj: s.objOf(v)}
}

// ---------------------------------------------------------------------------

func (an *totalAnalysis) summaryOf(fn *ssa.Function) *totalSummary {
	sm := an.summ[fn]
	if sm == nil {
		sm = &totalSummary{byCond: map[string][]pendFact{}}
		an.summ[fn] = sm
	}
	if sm.computed || sm.inprog {
		return sm
	}
	sm.inprog = true
	saved := an.curFn
	an.analyse(fn)
	an.curFn = saved
	sm.inprog = false
	sm.computed = true
	return sm
}

// analyse runs the path enumeration over fn, recording obligations and the
// function's summary.
func (an *totalAnalysis) analyse(fn *ssa.Function) {
	if an.funcsDone[fn] {
		return
	}
	an.funcsDone[fn] = true
	an.curFn = fn
	if fn.Blocks == nil {
		return
	}
	// loop freedom
	if hasCycle(fn) {
		an.ob("loop", fn.Blocks[0].Instrs[0], "CFG has a cycle", false, "a total function contains a loop: termination on arbitrary input is not established")
	} else {
		an.ob("loop", fn.Blocks[0].Instrs[0], "CFG is acyclic", true, "")
	}
	s := &tstate{an: an, ival: map[ssa.Value]aint{}, oid: map[ssa.Value]int{}, lenT: map[int]tterm{}, mem: map[mkey]mval{},
		nonnil: map[int]bool{}, maybeNil: map[int]bool{}, boolv: map[ssa.Value]int{}, errnil: map[ssa.Value]int{}, arrLen: map[int]int64{}, sumOf: map[ssa.Value][2]ssa.Value{}}
	for i, p := range fn.Params {
		if _, isPtr := p.Type().Underlying().(*types.Pointer); isPtr {
			id := s.objOf(p)
			if i == 0 && fn.Signature.Recv() != nil {
				s.nonnil[id] = true
			} else if an.untrustedParam != nil && an.untrustedParam(fn, p) {
				s.maybeNil[id] = true
			} else {
				s.nonnil[id] = true
			}
		}
	}
	if an.entryInv != nil {
		an.entryInv(s, fn)
	}
	for i, n := range an.sibPre[fn] {
		if i < len(fn.Params) {
			s.assume(konst(n), s.lenOfValue(fn.Params[i]), 0)
		}
	}
	sm := an.summ[fn]
	if sm == nil {
		sm = &totalSummary{byCond: map[string][]pendFact{}}
		an.summ[fn] = sm
	}
	type retInfo struct {
		cond  string
		facts []pendFact
	}
	var rets []retInfo
	before := an.paths
	onPath := map[*ssa.BasicBlock]bool{}
	var walk func(b *ssa.BasicBlock, s *tstate)
	walk = func(b *ssa.BasicBlock, s *tstate) {
		if an.paths-before > an.maxPaths {
			an.trunc = true
			return
		}
		if onPath[b] {
			return // cycle (reported above)
		}
		onPath[b] = true
		defer func() { onPath[b] = false }()
		for _, in := range b.Instrs {
			switch x := in.(type) {
			case *ssa.If:
				s0, s1 := s.clone(), s.clone()
				s0.prev, s1.prev = b, b
				f0 := s0.assumeCond(x.Cond, true)
				f1 := s1.assumeCond(x.Cond, false)
				if f0 {
					if _, ok := s0.closure(); ok {
						walk(b.Succs[0], s0)
					}
				}
				if f1 {
					if _, ok := s1.closure(); ok {
						walk(b.Succs[1], s1)
					}
				}
				return
			case *ssa.Jump:
				s.prev = b
				walk(b.Succs[0], s)
				return
			case *ssa.Return:
				an.paths++
				if isRecoverReturn(x) {
					return
				}
				rets = append(rets, retInfo{s.retCond(fn, x), s.retFacts(fn, x)})
				return
			case *ssa.Panic:
				an.paths++
				an.curFn = fn
				an.ob("panic", x, "explicit panic", false, "an explicit panic is reachable on a feasible path")
				return
			default:
				an.curFn = fn
				s.step(in)
			}
		}
	}
	walk(fn.Blocks[0], s)
	// merge return facts per condition class
	merge := func(cls string, pick func(r retInfo) bool) {
		var acc []pendFact
		first := true
		for _, r := range rets {
			if !pick(r) {
				continue
			}
			if first {
				acc = append([]pendFact(nil), r.facts...)
				first = false
				continue
			}
			acc = meetFacts(acc, r.facts)
		}
		if !first {
			sm.byCond[cls] = acc
		}
	}
	merge("errnil", func(r retInfo) bool { return r.cond == "errnil" })
	merge("true", func(r retInfo) bool { return r.cond == "true" })
	merge("always", func(r retInfo) bool { return true })
}

func hasCycle(fn *ssa.Function) bool {
	color := map[*ssa.BasicBlock]int{}
	var dfs func(b *ssa.BasicBlock) bool
	dfs = func(b *ssa.BasicBlock) bool {
		color[b] = 1
		for _, s := range b.Succs {
			if color[s] == 1 {
				return true
			}
			if color[s] == 0 && dfs(s) {
				return true
			}
		}
		color[b] = 2
		return false
	}
	return len(fn.Blocks) > 0 && dfs(fn.Blocks[0])
}

// meetFacts keeps the facts present in both lists with the weaker bound.
func meetFacts(a, b []pendFact) []pendFact {
	var out []pendFact
	for _, x := range a {
		for _, y := range b {
			if x.r != y.r || x.p != y.p || x.lenOfResult != y.lenOfResult {
				continue
			}
			z := pendFact{r: x.r, p: x.p, lenOfResult: x.lenOfResult}
			if x.hasU && y.hasU {
				z.hasU, z.ub = true, maxI(x.ub, y.ub)
			}
			if x.hasL && y.hasL {
				z.hasL, z.lb = true, minI(x.lb, y.lb)
			}
			z.eqLen = x.eqLen && y.eqLen
			if z.hasU || z.hasL || z.eqLen {
				out = append(out, z)
			}
		}
	}
	return out
}

func maxI(a, b int64) int64 {
	if a > b {
		return a
	}
	return b
}
func minI(a, b int64) int64 {
	if a < b {
		return a
	}
	return b
}

// retCond classifies a return: error result nil constant → errnil; first
// bool result constant true → true.
func (s *tstate) retCond(fn *ssa.Function, r *ssa.Return) string {
	ei := errResultIndex(fn.Signature)
	if ei >= 0 {
		v := stripTrivial(retVal(r, ei))
		if isNilConst(v) || s.errnil[v] > 0 {
			return "errnil"
		}
		if s.errnil[v] < 0 || errNilness(v, r.Block(), 0) > 0 {
			return "err"
		}
		return "errnil" // unknown: treat as possible success (weaker facts)
	}
	for i := 0; i < fn.Signature.Results().Len(); i++ {
		if b, ok := fn.Signature.Results().At(i).Type().Underlying().(*types.Basic); ok && b.Kind() == types.Bool {
			v := stripTrivial(retVal(r, i))
			if c, ok := v.(*ssa.Const); ok && c.Value != nil && constant.BoolVal(c.Value) {
				return "true"
			}
			if s.boolv[v] > 0 {
				return "true"
			}
			return "false"
		}
	}
	return "plain"
}

// retFacts computes, for each int result and each slice parameter, the
// bounds entailed at this return.
func (s *tstate) retFacts(fn *ssa.Function, r *ssa.Return) []pendFact {
	// materialise every term first: the closure matrix is sized by the term count
	for i := 0; i < fn.Signature.Results().Len(); i++ {
		rv := retVal(r, i)
		if isIntType(fn.Signature.Results().At(i).Type()) {
			s.intOf(rv)
		} else if isSliceLike(fn.Signature.Results().At(i).Type()) {
			s.lenOf(s.objOf(rv))
		}
	}
	for _, p := range fn.Params {
		if isSliceLike(p.Type()) {
			s.lenOf(s.objOf(p))
		}
	}
	d, ok := s.closure()
	if !ok {
		return nil
	}
	var out []pendFact
	res := fn.Signature.Results()
	for i := 0; i < res.Len(); i++ {
		rv := retVal(r, i)
		var a aint
		lenOfResult := false
		switch {
		case isIntType(res.At(i).Type()):
			a = s.intOf(rv)
		case isSliceLike(res.At(i).Type()):
			a = s.lenOf(s.objOf(rv))
			lenOfResult = true
			if isNilConst(stripTrivial(rv)) {
				a = konst(0)
			}
		default:
			continue
		}
		// lower bound
		f := pendFact{r: i, p: -1, lenOfResult: lenOfResult}
		if a.t == 0 {
			f.hasL, f.lb = true, a.off
		} else if d[0][a.t] != inf { // 0 - a.t <= c → a.t >= -c
			f.hasL, f.lb = true, -d[0][a.t]+a.off
		}
		if f.hasL {
			out = append(out, f)
		}
		for pi, p := range fn.Params {
			if !isSliceLike(p.Type()) {
				continue
			}
			lp := s.lenOf(s.objOf(p))
			g := pendFact{r: i, p: pi, lenOfResult: lenOfResult}
			var ub int64 = inf
			if a.t == lp.t {
				ub = a.off
			} else if a.t == 0 {
				// const - len(p) <= ?  : needs lower bound of len(p)
				if d[0][lp.t] != inf {
					ub = a.off + d[0][lp.t]
				}
			} else if d[a.t][lp.t] != inf {
				ub = d[a.t][lp.t] + a.off
			}
			if ub != inf {
				g.hasU, g.ub = true, ub
			}
			// equality
			if g.hasU && g.ub == 0 {
				var lb int64 = inf
				if a.t == lp.t {
					lb = -a.off
				} else if a.t != 0 && d[lp.t][a.t] != inf {
					lb = d[lp.t][a.t] - a.off
				}
				if lb == 0 {
					g.eqLen = true
				}
			}
			if g.hasU {
				out = append(out, g)
			}
		}
	}
	return out
}

// assumeCond adds the facts of taking the given edge; returns false if the
// edge is known infeasible.
func (s *tstate) assumeCond(cond ssa.Value, taken bool) bool {
	cond = stripTrivial(cond)
	if u, ok := cond.(*ssa.UnOp); ok && u.Op == token.NOT {
		return s.assumeCond(u.X, !taken)
	}
	if c, ok := cond.(*ssa.Const); ok && c.Value != nil && c.Value.Kind() == constant.Bool {
		return constant.BoolVal(c.Value) == taken
	}
	if k := s.boolv[cond]; k != 0 {
		if (k > 0) != taken {
			return false
		}
	}
	if taken {
		s.boolv[cond] = 1
	} else {
		s.boolv[cond] = -1
	}
	// pending facts conditioned on a bool result
	if taken {
		s.firePending(cond, "true")
	}
	bo, ok := cond.(*ssa.BinOp)
	if !ok {
		return true
	}
	// nil tests
	if v, nn, isNil := nilCond(bo); isNil {
		v = stripTrivial(v)
		nonNil := (nn == 0) == taken
		if isErrorType(v.Type()) {
			if k := s.errnil[v]; k != 0 && (k > 0) == nonNil {
				return false
			}
			if nonNil {
				s.errnil[v] = -1
			} else {
				s.errnil[v] = 1
				s.firePending(v, "errnil")
			}
			return true
		}
		if isSliceLike(v.Type()) {
			if !nonNil {
				l := s.lenOf(s.objOf(v))
				s.assume(l, konst(0), 0)
			}
			return true
		}
		id := s.objOf(v)
		if nonNil {
			if s.isNilObj(id) {
				return false
			}
			s.nonnil[id] = true
			delete(s.maybeNil, id)
		} else {
			if s.nonnil[id] {
				return false
			}
			s.maybeNil[id] = true
		}
		return true
	}
	if !isIntType(bo.X.Type()) {
		return true
	}
	// terms denote the runtime value as a mathematical integer (unsigned
	// values are >= 0), so comparisons are facts for signed and unsigned alike;
	// only arithmetic and conversions can wrap, and those create fresh terms.
	x, y := s.intOf(bo.X), s.intOf(bo.Y)
	op := bo.Op
	if !taken {
		switch op {
		case token.LSS:
			op = token.GEQ
		case token.LEQ:
			op = token.GTR
		case token.GTR:
			op = token.LEQ
		case token.GEQ:
			op = token.LSS
		case token.EQL:
			op = token.NEQ
		case token.NEQ:
			op = token.EQL
		}
	}
	switch op {
	case token.LSS:
		s.assume(x, y, -1)
	case token.LEQ:
		s.assume(x, y, 0)
	case token.GTR:
		s.assume(y, x, -1)
	case token.GEQ:
		s.assume(y, x, 0)
	case token.EQL:
		s.assume(x, y, 0)
		s.assume(y, x, 0)
	case token.NEQ:
		// x != y: sharpen a touching bound
		if s.entails(x, y, 0) && !s.entails(x, y, -1) && s.entails(y, x, 0) {
			return false // x == y entailed
		}
		if s.entails(y, x, 0) { // x >= y
			s.assume(y, x, -1)
		} else if s.entails(x, y, 0) {
			s.assume(x, y, -1)
		}
	}
	return true
}

func (s *tstate) isNilObj(id int) bool { return false }

func (s *tstate) firePending(v ssa.Value, cond string) {
	for _, p := range s.pend {
		if p.cond != cond {
			continue
		}
		// v must be a result of p.call
		var match bool
		switch x := v.(type) {
		case *ssa.Extract:
			match = x.Tuple == ssa.Value(p.call)
		case *ssa.Call:
			match = x == p.call
		}
		if !match {
			continue
		}
		s.applyFacts(p.call, p.facts)
	}
}

func (s *tstate) resultValue(call *ssa.Call, idx int) ssa.Value {
	if call.Call.Signature().Results().Len() == 1 {
		return call
	}
	if e := extractOf(call, idx); e != nil {
		return e
	}
	return nil
}

func (s *tstate) applyFacts(call *ssa.Call, facts []pendFact) {
	for _, f := range facts {
		rv := s.resultValue(call, f.r)
		if rv == nil {
			continue
		}
		var a aint
		if f.lenOfResult {
			a = s.lenOf(s.objOf(rv))
		} else {
			a = s.intOf(rv)
		}
		if f.hasL && f.p < 0 {
			s.assume(konst(f.lb), a, 0)
		}
		if f.p >= 0 && f.p < len(call.Call.Args) {
			lp := s.lenOf(s.objOf(call.Call.Args[f.p]))
			if f.hasU {
				s.assume(a, lp, f.ub)
			}
			if f.eqLen {
				s.assume(lp, a, 0)
			}
		}
	}
}

// ---------------------------------------------------------------------------
// transfer function

func (s *tstate) derefCheck(at ssa.Instruction, p ssa.Value) {
	id := s.objOf(p)
	if s.maybeNil[id] && !s.nonnil[id] {
		s.an.ob("nil-deref", at, roleOf(s.an.l, p, "", 0), false, "pointer taken from untrusted input is dereferenced on a path where it was not tested against nil")
		s.nonnil[id] = true // report once per path
		return
	}
	if _, tracked := s.maybeNilEver(id); tracked {
		s.an.ob("nil-deref", at, roleOf(s.an.l, p, "", 0), true, "")
	}
}

func (s *tstate) maybeNilEver(id int) (bool, bool) {
	_, ok := s.maybeNil[id]
	if ok {
		return true, true
	}
	return false, s.an.trackedNil[id]
}

func (s *tstate) clobberField(fv *types.Var, exceptObj int) {
	for k := range s.mem {
		if k.fv == fv && k.obj != exceptObj {
			delete(s.mem, k)
		}
	}
}

func (s *tstate) step(in ssa.Instruction) {
	an := s.an
	l := an.l
	switch x := in.(type) {
	case *ssa.Phi:
		// single path: take the edge from the predecessor
		for i, p := range x.Block().Preds {
			if p == s.prev {
				s.setVal(x, s.valOf(x.Edges[i]))
				if k := s.errnil[stripTrivial(x.Edges[i])]; k != 0 {
					s.errnil[x] = k
				}
				if isNilConst(stripTrivial(x.Edges[i])) && isErrorType(x.Type()) {
					s.errnil[x] = 1
				}
				if id, ok := s.oid[x]; ok && isNilConst(stripTrivial(x.Edges[i])) {
					_ = id
				}
				return
			}
		}
	case *ssa.Alloc:
		id := s.objOf(x)
		s.nonnil[id] = true
		if n, ok := arrayLenOf(x.Type()); ok {
			s.arrLen[id] = n
		}
	case *ssa.FieldAddr:
		s.derefCheck(x, x.X)
	case *ssa.Field:
		// struct value field: model as memory of the struct object
		k := mkey{s.objOf(x.X), fieldVar(x.X.Type(), x.Field)}
		if m, ok := s.mem[k]; ok {
			s.setVal(x, m)
		} else {
			m := s.valOf(x)
			s.mem[k] = m
		}
	case *ssa.UnOp:
		switch x.Op {
		case token.MUL:
			if k, ok := s.addrKey(x.X); ok {
				if m, ok := s.mem[k]; ok {
					s.setVal(x, m)
				} else {
					m := s.valOf(x)
					s.mem[k] = m
					// declared invariants on freshly seen fields
					if fa, isFA := x.X.(*ssa.FieldAddr); isFA && an.fieldInv != nil {
						an.fieldInv(s, fa, x)
					}
				}
			} else if _, isPtr := x.X.Type().Underlying().(*types.Pointer); isPtr {
				if _, isIA := x.X.(*ssa.IndexAddr); !isIA {
					s.derefCheck(x, x.X)
				}
			}
		case token.SUB:
			if isIntType(x.Type()) {
				a := s.intOf(x.X)
				if a.known && a.t == 0 {
					s.ival[x] = konst(-a.off)
				} else {
					// y = -x : y + x = 0 is not a difference constraint; keep sign facts
					y := s.intOf(x)
					if s.entails(a, konst(0), 0) {
						s.assume(konst(0), y, 0)
					}
					if s.entails(konst(0), a, 0) {
						s.assume(y, konst(0), 0)
					}
				}
			}
		case token.ARROW:
			// channel receive: unknown value
		}
	case *ssa.Store:
		if k, ok := s.addrKey(x.Addr); ok {
			if k.fv != nil {
				s.clobberField(k.fv, k.obj)
			}
			s.mem[k] = s.valOf(x.Val)
			if fa, isFA := x.Addr.(*ssa.FieldAddr); isFA {
				s.derefCheck(x, fa.X)
			}
		}
	case *ssa.BinOp:
		if !isIntType(x.Type()) {
			return
		}
		a, b := s.intOf(x.X), s.intOf(x.Y)
		unsigned := false
		if bt, ok := x.Type().Underlying().(*types.Basic); ok && bt.Info()&types.IsUnsigned != 0 {
			unsigned = true
		}
		switch x.Op {
		case token.ADD:
			if b.t == 0 && !unsigned {
				s.ival[x] = aint{t: a.t, off: a.off + b.off, known: true}
			} else if a.t == 0 && !unsigned {
				s.ival[x] = aint{t: b.t, off: a.off + b.off, known: true}
			} else {
				r := s.intOf(x)
				// r = a + b exactly when neither operand can make the sum wrap
				lim := konst(s.an.maxLen())
				if s.entails(a, lim, 0) && s.entails(b, lim, 0) && s.entails(konst(0), a, 0) && s.entails(konst(0), b, 0) {
					s.assume(a, r, 0)
					s.assume(b, r, 0)
					s.sumOf[x] = [2]ssa.Value{x.X, x.Y}
				}
			}
		case token.SUB:
			if b.t == 0 && !unsigned {
				s.ival[x] = aint{t: a.t, off: a.off - b.off, known: true}
			} else {
				s.intOf(x)
			}
		case token.QUO, token.REM:
			if !(b.t == 0 && b.off != 0) {
				an.ob("div", x, roleOf(l, x.Y, "", 0), s.entails(konst(1), b, 0) || s.entails(b, konst(-1), 0), "divisor may be zero")
			}
			s.intOf(x)
		case token.AND:
			r := s.intOf(x)
			// x & c with c >= 0: 0 <= r <= c
			if b.t == 0 && b.off >= 0 {
				s.assume(konst(0), r, 0)
				s.assume(r, konst(b.off), 0)
			}
		case token.SHL:
			// a signed shift count that is negative panics at run time
			if yb, ok := x.Y.Type().Underlying().(*types.Basic); ok && yb.Info()&types.IsUnsigned == 0 {
				if !(b.t == 0 && b.off >= 0) {
					an.ob("shift", x, roleOf(l, x.Y, "", 0), s.entails(konst(0), b, 0), "shift count may be negative (run-time panic: negative shift amount)")
				}
			}
			s.intOf(x)
		case token.SHR:
			if yb, ok := x.Y.Type().Underlying().(*types.Basic); ok && yb.Info()&types.IsUnsigned == 0 {
				if !(b.t == 0 && b.off >= 0) {
					an.ob("shift", x, roleOf(l, x.Y, "", 0), s.entails(konst(0), b, 0), "shift count may be negative (run-time panic: negative shift amount)")
				}
			}
			r := s.intOf(x)
			if s.entails(konst(0), a, 0) {
				s.assume(konst(0), r, 0)
				s.assume(r, a, 0)
			}
		default:
			s.intOf(x)
		}
	case *ssa.Convert:
		if isIntType(x.Type()) && isIntType(x.X.Type()) {
			from := x.X.Type().Underlying().(*types.Basic)
			to := x.Type().Underlying().(*types.Basic)
			a := s.intOf(x.X)
			fs, ts := sizeofBasic(from, l), sizeofBasic(to, l)
			fu, tu := from.Info()&types.IsUnsigned != 0, to.Info()&types.IsUnsigned != 0
			switch {
			case fu == tu && ts >= fs, fu && !tu && ts > fs:
				s.ival[x] = a // value preserving
			default:
				r := s.intOf(x)
				// narrowing / sign change: preserved when the source is provably within range
				if !tu && !fu && ts < fs {
					lim := int64(1)<<(uint(ts)*8-1) - 1
					if s.entails(a, konst(lim), 0) && s.entails(konst(-lim-1), a, 0) {
						s.ival[x] = a
					}
				}
				if !fu && tu {
					if s.entails(konst(0), a, 0) && ts >= fs {
						s.ival[x] = a
					}
				}
				if fu && !tu && ts == fs {
					// uint64 → int64: may wrap; result unknown
				}
				_ = r
			}
		} else if !isIntType(x.Type()) {
			s.oid[x] = s.objOf(x.X)
			if isSliceLike(x.Type()) && isSliceLike(x.X.Type()) {
				// []byte(string) etc: same length
				s.lenT[s.objOf(x)] = s.lenOf(s.objOf(x.X)).t
			}
		}
	case *ssa.ChangeType:
		s.setVal(x, s.valOf(x.X))
	case *ssa.ChangeInterface:
		s.oid[x] = s.objOf(x.X)
	case *ssa.MakeInterface:
		s.oid[x] = s.objOf(x.X)
	case *ssa.Extract:
		// values attach lazily; pending facts refer to the Extract itself
	case *ssa.IndexAddr:
		s.checkIndex(x, x.X, x.Index)
	case *ssa.Index:
		s.checkIndex(x, x.X, x.Index)
	case *ssa.Slice:
		s.doSlice(x)
	case *ssa.MakeSlice:
		n := s.intOf(x.Len)
		okLower := s.entails(konst(0), n, 0)
		okUpper, why := false, "allocation size is not bounded by the size of the input or a constant"
		if an.allocBound != nil {
			okUpper, why = an.allocBound(s, an.curFn, x, x.Len)
		}
		if !okLower {
			why = "allocation size may be negative (runtime panic: makeslice: len out of range)"
		}
		an.ob("make", x, roleOf(l, x.Len, "", 0), okLower && okUpper, why)
		id := s.objOf(x)
		s.nonnil[id] = true
		ln := s.lenOf(id)
		s.assume(ln, n, 0)
		s.assume(n, ln, 0)
	case *ssa.TypeAssert:
		if !x.CommaOk {
			ok := an.assertOK != nil && an.assertOK(x)
			an.ob("type-assert", x, l.short(x.AssertedType.String())+" of "+roleOf(l, x.X, "", 0), ok, "unchecked type assertion on a value whose dynamic type is not established")
		}
	case *ssa.Call:
		s.doCall(x)
	case *ssa.Go, *ssa.Defer:
		// the spawned/deferred body is analysed separately if in T
	case *ssa.Send, *ssa.RunDefers, *ssa.DebugRef, *ssa.MapUpdate, *ssa.Lookup, *ssa.MakeClosure, *ssa.MakeChan, *ssa.MakeMap, *ssa.Range, *ssa.Next, *ssa.Select:
	}
}

func sizeofBasic(b *types.Basic, l *Loaded) int {
	switch b.Kind() {
	case types.Int8, types.Uint8:
		return 1
	case types.Int16, types.Uint16:
		return 2
	case types.Int32, types.Uint32:
		return 4
	case types.Int64, types.Uint64:
		return 8
	case types.Int, types.Uint, types.Uintptr:
		if l.GOARCH == "386" || l.GOARCH == "arm" {
			return 4
		}
		return 8
	}
	return 8
}

func (s *tstate) lenOfValue(v ssa.Value) aint {
	if n, ok := arrayLenOf(v.Type()); ok {
		return konst(n)
	}
	return s.lenOf(s.objOf(v))
}

func (s *tstate) checkIndex(at ssa.Instruction, base, idx ssa.Value) {
	an := s.an
	i := s.intOf(idx)
	ln := s.lenOfValue(base)
	lo := s.entails(konst(0), i, 0)
	hi := s.entails(i, ln, -1)
	why := ""
	switch {
	case !lo && !hi:
		why = "neither 0 <= index nor index < len is established on some path"
	case !lo:
		why = "index may be negative on some path (only the upper bound is established)"
	case !hi:
		why = "index < len is not established on some path"
	}
	an.ob("index", at, roleOf(an.l, base, "", 0)+"["+roleOf(an.l, idx, "", 0)+"]", lo && hi, why)
	// continue under the assumption that the access succeeded
	s.assume(konst(0), i, 0)
	s.assume(i, ln, -1)
}

func (s *tstate) doSlice(x *ssa.Slice) {
	an := s.an
	ln := s.lenOfValue(x.X)
	lo := konst(0)
	if x.Low != nil {
		lo = s.intOf(x.Low)
	}
	hi := ln
	if x.High != nil {
		hi = s.intOf(x.High)
	}
	okLo := s.entails(konst(0), lo, 0)
	okMid := s.entails(lo, hi, 0)
	okHi := x.High == nil || s.entails(hi, ln, 0)
	why := ""
	switch {
	case !okLo:
		why = "low bound may be negative"
	case !okMid:
		why = "low <= high is not established on some path"
	case !okHi:
		why = "high <= len is not established on some path (cap is not tracked; len is used)"
	}
	desc := roleOf(an.l, x.X, "", 0) + "["
	if x.Low != nil {
		desc += roleOf(an.l, x.Low, "", 0)
	}
	desc += ":"
	if x.High != nil {
		desc += roleOf(an.l, x.High, "", 0)
	}
	desc += "]"
	if x.Low == nil && x.High == nil {
		// full slice of an array / slice: always fine
	} else {
		an.ob("slice", x, desc, okLo && okMid && okHi, why)
	}
	s.assume(konst(0), lo, 0)
	s.assume(lo, hi, 0)
	s.assume(hi, ln, 0)
	id := s.newObj()
	s.oid[x] = id
	s.nonnil[id] = true
	nl := s.lenOf(id)
	// len(new) = hi - lo
	switch {
	case lo.t == 0 && hi.known:
		s.assume(nl, aint{t: hi.t, off: hi.off - lo.off, known: true}, 0)
		s.assume(aint{t: hi.t, off: hi.off - lo.off, known: true}, nl, 0)
	default:
		s.assume(nl, hi, 0) // len(new) <= hi
	}
}

func (s *tstate) doCall(call *ssa.Call) {
	an := s.an
	l := an.l
	cc := &call.Call
	if b, ok := cc.Value.(*ssa.Builtin); ok {
		switch b.Name() {
		case "len":
			s.ival[call] = s.lenOfValue(cc.Args[0])
		case "cap":
			r := s.intOf(call)
			ln := s.lenOfValue(cc.Args[0])
			s.assume(ln, r, 0)
		case "append":
			id := s.newObj()
			s.oid[call] = id
			s.nonnil[id] = true
			nl := s.lenOf(id)
			s.assume(s.lenOfValue(cc.Args[0]), nl, 0) // len grows
		case "copy":
			r := s.intOf(call)
			s.assume(konst(0), r, 0)
		}
		return
	}
	if v, ok := an.constCallValue(call); ok {
		s.ival[call] = konst(v)
		return
	}
	f := staticCallee(cc)
	// standard-library contracts
	if f != nil {
		if s.stdContract(call, f) {
			return
		}
	}
	if an.resultLen != nil {
		if n, ok := an.resultLen(call); ok {
			ln := s.lenOf(s.objOf(call))
			s.assume(ln, konst(n), 0)
			s.assume(konst(n), ln, 0)
		}
	}
	// address-taken local cells handed to the callee may be written by it
	for _, a := range cc.Args {
		var base ssa.Value = a
		if fa, ok := a.(*ssa.FieldAddr); ok {
			base = fa.X
		}
		if al, ok := base.(*ssa.Alloc); ok {
			id := s.objOf(al)
			for k := range s.mem {
				if k.obj == id {
					delete(s.mem, k)
				}
			}
		}
	}
	if f == nil && cc.IsInvoke() && an.trustedInvoke != nil && an.trustedInvoke(cc) {
		// foreign interface (storage backend, io.Writer, logger): trusted contract
		s.clobberByCall(call, nil)
		an.ob("callee", call, l.calleeName(call), true, "")
		return
	}
	if f == nil && cc.IsInvoke() {
		// interface declared in the module: every implementation must be total
		callees := l.calleesOf(call)
		for _, g := range l.implementers(cc.Value.Type(), cc.Method.Name()) {
			dup := false
			for _, h := range callees {
				if h == g {
					dup = true
				}
			}
			if !dup {
				callees = append(callees, g)
			}
		}
		all := len(callees) > 0
		for _, g := range callees {
			if !l.inModule(g) || strings.Contains(l.pkgPathOf(g), "/mock") {
				continue
			}
			if !an.T[g] && !an.isTrustedCallee(g) {
				all = false
			}
		}
		s.clobberByCall(call, nil)
		an.ob("callee", call, l.calleeName(call), all, "dynamic call: an implementation of the interface is neither in the total set nor trusted")
		for _, g := range callees {
			if an.T[g] {
				an.summaryOf(g)
				an.curFn = call.Parent()
			}
		}
		return
	}
	// precondition of module callee
	if f != nil {
		if pre := an.pre[f]; pre != nil {
			pre(s, cc.Args, call, f)
		}
	}
	// memory clobbering
	s.clobberByCall(call, f)
	// a sibling method of the caller's own receiver type that is neither in the set nor trusted is analysed
	// like a member of the set (extracting statements into a helper method must not leave the analysed set)
	if f != nil && !an.T[f] && !an.isTrustedCallee(f) && f.Blocks != nil && l.inModule(f) && call.Parent() != nil {
		rc, rf := call.Parent().Signature.Recv(), f.Signature.Recv()
		if rc != nil && rf != nil {
			nc, nf := derefNamed(rc.Type()), derefNamed(rf.Type())
			if nc != nil && nf != nil && nc.Obj() == nf.Obj() {
				an.T[f] = true
				// what this call site knows about the lengths of the slices it hands over becomes the helper's
				// declared precondition (the statements were moved out of a context that had established it)
				pre := map[int]int64{}
				for i, a := range cc.Args {
					if !isSliceLike(a.Type()) {
						continue
					}
					ln := s.lenOfValue(a)
					best := int64(0)
					for _, n := range []int64{1, 2, 8, 12, 13, 32, 33} {
						if s.entails(konst(n), ln, 0) {
							best = n
						}
					}
					if best > 0 {
						pre[i] = best
					}
				}
				if an.sibPre == nil {
					an.sibPre = map[*ssa.Function]map[int]int64{}
				}
				an.sibPre[f] = pre
			}
		}
	} else if f != nil && an.sibPre[f] != nil {
		for i, n := range an.sibPre[f] {
			if i < len(cc.Args) {
				ok := s.entails(konst(n), s.lenOfValue(cc.Args[i]), 0)
				an.ob("precondition", call, l.fname(f)+" argument "+fmt.Sprint(i)+" needs len >= "+fmt.Sprint(n), ok, "the helper was analysed under the length its first call site establishes; this call site does not establish it")
			}
		}
	}
	if f != nil && an.T[f] {
		sm := an.summaryOf(f)
		an.curFn = call.Parent()
		if facts := sm.byCond["always"]; len(facts) > 0 {
			s.applyFacts(call, facts)
		}
		for _, cond := range []string{"errnil", "true"} {
			if facts := sm.byCond[cond]; len(facts) > 0 {
				s.pend = append(s.pend, pending{call, cond, facts})
			}
		}
		return
	}
	if f == nil || !an.isTrustedCallee(f) {
		name := l.calleeName(call)
		an.ob("callee", call, name, false, "call to a function that is neither in the total set nor in the trusted-callee table: its totality on these arguments is not established")
	} else {
		an.ob("callee", call, l.calleeName(call), true, "")
	}
}

func (s *tstate) clobberByCall(call *ssa.Call, f *ssa.Function) {
	an := s.an
	if f != nil && an.pureCallee(f) {
		return
	}
	for k := range s.mem {
		if k.fv == nil {
			continue // local cells are not written by callees (no address escapes are tracked: conservative below)
		}
		if an.mayWriteField(call, k) {
			delete(s.mem, k)
		}
	}
}

// stdContract applies the trusted standard-library table; returns true if
// the callee is covered.
func (s *tstate) stdContract(call *ssa.Call, f *ssa.Function) bool {
	an := s.an
	args := call.Call.Args
	need := func(i int, n int64, what string) {
		ln := s.lenOfValue(args[i])
		ok := s.entails(konst(n), ln, 0)
		an.ob("std-precondition", call, f.Name()+"("+roleOf(an.l, args[i], "", 0)+") needs len >= "+fmt.Sprint(n), ok, what+" requires at least "+fmt.Sprint(n)+" bytes; not established on some path")
		s.assume(konst(n), ln, 0)
	}
	switch f.String() {
	case "encoding/binary.Uvarint", "encoding/binary.Varint":
		// n - len(buf) <= 0 ; n <= 10 ; n >= -10
		if n := s.resultValue(call, 1); n != nil {
			a := s.intOf(n)
			s.assume(a, s.lenOfValue(args[0]), 0)
			s.assume(a, konst(10), 0)
			s.assume(konst(-10), a, 0)
		}
		return true
	case "encoding/binary.PutUvarint", "encoding/binary.PutVarint":
		need(0, 10, "PutVarint")
		a := s.intOf(call)
		s.assume(konst(1), a, 0)
		s.assume(a, konst(10), 0)
		return true
	case "(encoding/binary.bigEndian).Uint64", "(encoding/binary.bigEndian).PutUint64":
		need(1, 8, "BigEndian 64-bit access")
		return true
	case "(encoding/binary.bigEndian).Uint32", "(encoding/binary.bigEndian).PutUint32":
		need(1, 4, "BigEndian 32-bit access")
		return true
	case "(*bytes.Buffer).Len":
		a := s.intOf(call)
		s.assume(konst(0), a, 0)
		an.bufLen[call] = true
		return true
	case "(*bytes.Buffer).Bytes":
		return true
	}
	return false
}

// ---------------------------------------------------------------------------

// maxLen: trusted upper bound of any slice length (memory size).
func (an *totalAnalysis) maxLen() int64 {
	if an.l.GOARCH == "386" || an.l.GOARCH == "arm" {
		return 1 << 30
	}
	return 1 << 40
}

func (an *totalAnalysis) constCallValue(call *ssa.Call) (int64, bool) {
	if an.constCall != nil {
		return an.constCall(call)
	}
	return 0, false
}

func (an *totalAnalysis) isTrustedCallee(f *ssa.Function) bool {
	if an.pureCallee(f) {
		return true
	}
	return an.trustedCallee != nil && an.trustedCallee(f)
}

// pureCallee: no panic on any argument and writes no tracked memory.
func (an *totalAnalysis) pureCallee(f *ssa.Function) bool {
	s := f.String()
	switch s {
	case "fmt.Errorf", "errors.New", "errors.Is", "errors.As", "bytes.Equal", "bytes.Compare", "bytes.HasPrefix",
		"crypto/sha256.Sum256", "crypto/sha256.New", "(*bytes.Buffer).Reset", "(*bytes.Buffer).Len", "(*bytes.Buffer).Bytes",
		"(*sync.Pool).Get", "(*sync.Pool).Put", "fmt.Sprintf":
		return true
	}
	return false
}

func (an *totalAnalysis) mayWriteField(call *ssa.Call, k mkey) bool {
	// without a field object we are conservative: any non-pure call clobbers;
	// with the per-field writer summaries the common helpers are precise.
	fv := k.fv
	r := an.fieldWriters[fv]
	if r == nil {
		r = an.l.newFnReach(func(fn *ssa.Function) bool { return writesField(fn, fv) })
		an.fieldWriters[fv] = r
	}
	callees := an.l.calleesOf(call)
	if len(callees) == 0 {
		return true
	}
	for _, g := range callees {
		if r.Fn(g) {
			return true
		}
	}
	return false
}

// report converts the collected obligations into context obligations.
func (an *totalAnalysis) report() {
	keys := append([]string(nil), an.order...)
	sort.Strings(keys)
	for _, k := range keys {
		o := an.obs[k]
		if o.ok {
			an.c.ok(an.rule, o.key, o.pos, fmt.Sprintf("entailed by the zone on all %d feasible path visits", o.seen))
		} else {
			an.c.bad(an.rule, o.key, o.pos, o.why)
		}
	}
	if an.trunc {
		an.c.undecided(an.rule, "path enumeration", "-", "path budget exceeded: some paths were not analysed")
	}
}

func newTotalAnalysis(c *Ctx, l *Loaded, rule string, T []*ssa.Function) *totalAnalysis {
	an := &totalAnalysis{c: c, l: l, rule: rule, T: map[*ssa.Function]bool{}, summ: map[*ssa.Function]*totalSummary{}, obs: map[string]*totalOb{},
		pre: map[*ssa.Function]func(*tstate, []ssa.Value, ssa.Instruction, *ssa.Function){}, maxPaths: 200000,
		fieldWriters: map[*types.Var]*FnReach{}, funcsDone: map[*ssa.Function]bool{}, bufLen: map[ssa.Value]bool{}, trackedNil: map[int]bool{}}
	for _, f := range T {
		if f != nil {
			an.T[f] = true
		}
	}
	return an
}

func (an *totalAnalysis) run() {
	var fs []*ssa.Function
	for f := range an.T {
		fs = append(fs, f)
	}
	sort.Slice(fs, func(i, j int) bool { return fs[i].String() < fs[j].String() })
	for _, f := range fs {
		an.summaryOf(f)
	}
}

func joinStrs(s []string) string { return strings.Join(s, ", ") }

// poolAssertOK: x.(T) on the result of a package-level sync.Pool's Get is safe
// when the pool's New function returns a T and every Put in the module hands a
// T back (so the dynamic type of what Get returns is always T).
func poolAssertOK(l *Loaded, ta *ssa.TypeAssert) bool {
	call, ok := stripTrivial(ta.X).(*ssa.Call)
	if !ok {
		return false
	}
	f := staticCallee(&call.Call)
	if f == nil || f.String() != "(*sync.Pool).Get" || len(call.Call.Args) == 0 {
		return false
	}
	// the pool is a package-level variable: either the struct itself (&pool) or a pointer to it (*poolVar)
	var g *ssa.Global
	switch rv := stripTrivial(call.Call.Args[0]).(type) {
	case *ssa.Global:
		g = rv
	case *ssa.UnOp:
		g, _ = rv.X.(*ssa.Global)
	}
	if g == nil {
		return false
	}
	isPool := func(v ssa.Value) bool {
		v = stripTrivial(v)
		if v == ssa.Value(g) {
			return true
		}
		if u, isU := v.(*ssa.UnOp); isU && u.X == ssa.Value(g) {
			return true
		}
		// the struct allocated by the variable's initialiser
		if al, isAl := v.(*ssa.Alloc); isAl {
			for _, r := range refs(al) {
				if st, isSt := r.(*ssa.Store); isSt && st.Val == ssa.Value(al) && st.Addr == ssa.Value(g) {
					return true
				}
			}
		}
		return false
	}
	want := ta.AssertedType
	sawNew := false
	okAll := true
	fns := append([]*ssa.Function{}, l.SrcFuncs...)
	for _, sp := range l.byPkg {
		if init := sp.Func("init"); init != nil {
			fns = append(fns, init)
			fns = append(fns, init.AnonFuncs...)
		}
	}
	for _, fn := range fns {
		if !l.inModule(fn) {
			continue
		}
		allInstrs(fn, func(in ssa.Instruction) {
			// Put(x)
			if cc := callCommon(in); cc != nil {
				if pf := staticCallee(cc); pf != nil && pf.String() == "(*sync.Pool).Put" && len(cc.Args) == 2 && isPool(cc.Args[0]) {
					mi, isMI := cc.Args[1].(*ssa.MakeInterface)
					if !isMI || !types.Identical(mi.X.Type(), want) {
						okAll = false
					}
				}
			}
			// New: store of a function into the pool's New field
			if st, isSt := in.(*ssa.Store); isSt {
				fa, isFA := st.Addr.(*ssa.FieldAddr)
				if !isFA || !isPool(fa.X) || fieldName(fa.X.Type(), fa.Field) != "New" {
					return
				}
				var nf *ssa.Function
				switch v := stripTrivial(st.Val).(type) {
				case *ssa.Function:
					nf = v
				case *ssa.MakeClosure:
					nf, _ = v.Fn.(*ssa.Function)
				}
				if nf == nil {
					okAll = false
					return
				}
				sawNew = true
				for _, r := range returnsOf(nf) {
					mi, isMI := retVal(r, 0).(*ssa.MakeInterface)
					if !isMI || !types.Identical(mi.X.Type(), want) {
						okAll = false
					}
				}
			}
		})
	}
	return sawNew && okAll
}
