package main

import (
	"fmt"
	"go/token"
	"go/types"
	"os"
	"sort"
	"strings"

	"golang.org/x/tools/go/callgraph"
	"golang.org/x/tools/go/callgraph/cha"
	"golang.org/x/tools/go/callgraph/vta"
	"golang.org/x/tools/go/packages"
	"golang.org/x/tools/go/ssa"
	"golang.org/x/tools/go/ssa/ssautil"
)

// Loaded is one type-checked, SSA-built module of the repository.
type Loaded struct {
	Dir     string
	ModPath string // e.g. github.com/cosmos/iavl
	Pkgs    []*packages.Package
	Prog    *ssa.Program
	Fset    *token.FileSet
	CG      *callgraph.Graph
	// source functions (incl. anonymous) of the module's own non-test packages
	SrcFuncs []*ssa.Function
	byPkg    map[string]*ssa.Package // by import path
	NumEdges int
	GOARCH   string
}

// loadModule loads every package matching patterns in dir, builds SSA for the
// whole dependency closure and a VTA call graph.
func loadModule(dir, modPath, goarch string, patterns ...string) (*Loaded, error) {
	env := append(os.Environ(),
		"GOFLAGS=-mod=mod", "GOPROXY=off", "GOSUMDB=off", "GOTOOLCHAIN=local", "GOWORK=off",
		"CGO_ENABLED=1")
	if goarch != "" {
		env = append(env, "GOARCH="+goarch)
		if goarch != "amd64" {
			// no cross C compiler: type-check the pure-Go view
			env = append(env, "CGO_ENABLED=0")
		}
	}
	cfg := &packages.Config{
		Mode:  packages.LoadAllSyntax,
		Dir:   dir,
		Env:   env,
		Tests: false,
	}
	pkgs, err := packages.Load(cfg, patterns...)
	if err != nil {
		return nil, fmt.Errorf("packages.Load(%s): %w", dir, err)
	}
	if len(pkgs) == 0 {
		return nil, fmt.Errorf("no packages loaded from %s", dir)
	}
	var errs []string
	packages.Visit(pkgs, nil, func(p *packages.Package) {
		if !strings.HasPrefix(p.PkgPath, modPath) {
			return
		}
		for _, e := range p.Errors {
			errs = append(errs, e.Error())
		}
	})
	if len(errs) > 0 {
		return nil, fmt.Errorf("type-check/load errors in %s:\n  %s", dir, strings.Join(errs, "\n  "))
	}
	prog, ssapkgs := ssautil.AllPackages(pkgs, ssa.InstantiateGenerics)
	prog.Build()
	l := &Loaded{Dir: dir, ModPath: modPath, Pkgs: pkgs, Prog: prog, Fset: pkgs[0].Fset,
		byPkg: map[string]*ssa.Package{}, GOARCH: goarch}
	for i, p := range pkgs {
		if ssapkgs[i] != nil {
			l.byPkg[p.PkgPath] = ssapkgs[i]
		}
	}
	all := ssautil.AllFunctions(prog)
	l.CG = vta.CallGraph(all, cha.CallGraph(prog))
	for fn := range all {
		if fn.Pkg == nil && fn.Parent() == nil {
			continue
		}
		if l.inModule(fn) && fn.Blocks != nil && fn.Synthetic == "" {
			l.SrcFuncs = append(l.SrcFuncs, fn)
		}
	}
	sort.Slice(l.SrcFuncs, func(i, j int) bool { return l.SrcFuncs[i].String() < l.SrcFuncs[j].String() })
	for _, n := range l.CG.Nodes {
		l.NumEdges += len(n.Out)
	}
	return l, nil
}

func (l *Loaded) pkgOf(fn *ssa.Function) *ssa.Package {
	for fn.Parent() != nil {
		fn = fn.Parent()
	}
	if fn.Pkg != nil {
		return fn.Pkg
	}
	if o := fn.Origin(); o != nil && o.Pkg != nil {
		return o.Pkg
	}
	return nil
}

func (l *Loaded) inModule(fn *ssa.Function) bool {
	p := l.pkgOf(fn)
	if p == nil {
		return false
	}
	path := p.Pkg.Path()
	if path != l.ModPath && !strings.HasPrefix(path, l.ModPath+"/") {
		return false
	}
	return true
}

// pkgPathOf returns the import path of the package declaring fn.
func (l *Loaded) pkgPathOf(fn *ssa.Function) string {
	p := l.pkgOf(fn)
	if p == nil {
		return ""
	}
	return p.Pkg.Path()
}

// Pkg returns the SSA package with the given path relative to the module
// ("" = the module root package).
func (l *Loaded) Pkg(rel string) *ssa.Package {
	path := l.ModPath
	if rel != "" {
		path += "/" + rel
	}
	return l.byPkg[path]
}

// shortName renders a function name without the module path.
func (l *Loaded) short(s string) string {
	s = strings.ReplaceAll(s, l.ModPath+"/", "")
	s = strings.ReplaceAll(s, l.ModPath+".", "iavl.")
	s = strings.ReplaceAll(s, "cosmossdk.io/core/store.", "store.")
	return s
}

func (l *Loaded) fname(fn *ssa.Function) string {
	if fn == nil {
		return "<nil>"
	}
	return l.short(fn.String())
}

// Func resolves a package-level function or a method: Func("", "MakeNode"),
// Func("", "*MutableTree.SaveVersion"), Func("db", "MemDB.Get").
func (l *Loaded) Func(rel, name string) *ssa.Function {
	p := l.Pkg(rel)
	if p == nil {
		return nil
	}
	if i := strings.Index(name, "."); i >= 0 {
		tn, mn := strings.TrimPrefix(name[:i], "*"), name[i+1:]
		obj := p.Pkg.Scope().Lookup(tn)
		if obj == nil {
			return nil
		}
		named, ok := obj.Type().(*types.Named)
		if !ok {
			return nil
		}
		for _, T := range []types.Type{named, types.NewPointer(named)} {
			ms := l.Prog.MethodSets.MethodSet(T)
			for i := 0; i < ms.Len(); i++ {
				sel := ms.At(i)
				if sel.Obj().Name() == mn && sel.Obj().Pkg() == p.Pkg {
					// only methods declared on this type (not promoted)
					if len(sel.Index()) == 1 {
						return l.Prog.MethodValue(sel)
					}
				}
			}
		}
		return nil
	}
	return p.Func(name)
}

// Anon returns the i-th anonymous function of fn (by source order), or nil.
func anon(fn *ssa.Function, i int) *ssa.Function {
	if fn == nil || i >= len(fn.AnonFuncs) {
		return nil
	}
	return fn.AnonFuncs[i]
}

// NamedType resolves a named type of a module package.
func (l *Loaded) NamedType(rel, name string) *types.Named {
	p := l.Pkg(rel)
	if p == nil {
		return nil
	}
	obj := p.Pkg.Scope().Lookup(name)
	if obj == nil {
		return nil
	}
	n, _ := obj.Type().(*types.Named)
	return n
}

// Field resolves a struct field object.
func (l *Loaded) Field(rel, typ, field string) *types.Var {
	n := l.NamedType(rel, typ)
	if n == nil {
		return nil
	}
	st, ok := n.Underlying().(*types.Struct)
	if !ok {
		return nil
	}
	for i := 0; i < st.NumFields(); i++ {
		if st.Field(i).Name() == field {
			return st.Field(i)
		}
	}
	return nil
}

func (l *Loaded) pos(p token.Pos) string {
	if !p.IsValid() {
		return "-"
	}
	ps := l.Fset.Position(p)
	f := ps.Filename
	if strings.HasPrefix(f, l.Dir+"/") {
		f = strings.TrimPrefix(f, l.Dir+"/")
	}
	return fmt.Sprintf("%s:%d", f, ps.Line)
}

// instrPos returns the best available position for an instruction.
func (l *Loaded) ipos(in ssa.Instruction) string {
	if in == nil {
		return "-"
	}
	if p := in.Pos(); p.IsValid() {
		return l.pos(p)
	}
	// fall back to nearest positioned instruction in the same block
	b := in.Block()
	if b != nil {
		for _, x := range b.Instrs {
			if x.Pos().IsValid() {
				return l.pos(x.Pos()) + "~"
			}
		}
	}
	if in.Parent() != nil {
		return l.pos(in.Parent().Pos()) + "~"
	}
	return "-"
}
