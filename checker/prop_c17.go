package main

import (
	"go/token"
	"strings"

	"golang.org/x/tools/go/ssa"
)

func init() {
	register(&propCheck{id: "C17", needRoot: true, run: checkC17,
		explanation: "Decided statically: at EVERY call site whose callee can reach a storage operation (KVStore.Get/Has/Iterator/ReverseIterator, Iterator.Error, Batch.Set/Delete/Write/WriteSync) and returns an error, the error is not dropped (E1), not swallowed into a nil-error return on its err!=nil edge (E2), every iterator loop in an error-bearing function consults Error() before a success return (E3), no error-bearing function obtains data through a callee that cannot report storage errors (E4), sticky iterator errors are surfaced (E5), no pointer result is dereferenced before its error is examined (E6), and mutex acquire/release is paired on all paths so that a failed write cannot turn into a process abort (LOCK). Each such call site is one fault position the property quantifies over. NOT decided: that the database left behind by a failed write reopens to the state before or after the operation (needs execution), and value-level correctness of what is returned. Rules added in the later seeding rounds (each listed with what it decides in this file's rule table) are described in DESIGN.md §3 \"Third and fourth seeding rounds\" and Appendix C3–C5."})
}

func checkC17(c *Ctx) {
	l := c.L
	checkKeyedImpliesQueued(c, "PASS-keyed-implies-queued")
	checkOverlayMaintenance(c, "PASS-overlay")
	checkMemoAfterIteratorVerdict(c, "ORDER-memo-after-verdict")
	checkInitialVersionConsumed(c, "ORDER-initial-version-consumed")
	ea := newErrAnalysis(c, l)
	c.rule("ERR-E1-dropped", "error of a storage-reaching call has a real use", 150)
	c.rule("ERR-E2-swallowed", "no nil-error return reachable from the err != nil edge without a sentinel match", 120)
	c.rule("ERR-E3-iterator", "Error() consulted between end of iteration and success return", 6)
	c.rule("ERR-E4-lossy-callee", "no call from an error-bearing function to a function that loses storage errors", 0)
	c.rule("ERR-E5-sticky", "sticky error fields are returned by Error(); wrappers consult the wrapped iterator", 5)
	c.rule("ERR-E6-use-before-check", "pointer results are not dereferenced before the error check", 10)
	c.rule("LOCK-pairing", "mutex acquire/release paired on every path", 30)
	ea.runE1E2E4("ERR-E1-dropped", "ERR-E2-swallowed", "ERR-E4-lossy-callee", nil)
	ea.runE3("ERR-E3-iterator", nil)
	ea.runE3Strict("ERR-E3-iterator", l.Func("", "*nodeDB.traverseOrphansWithRootkeyCache"))
	ea.runE5("ERR-E5-sticky")
	ea.runE6("ERR-E6-use-before-check", nil)
	ea.runE6Fields("ERR-E6-use-before-check", nil)
	c.rule("ERR-E7-sentinel-path", "a sentinel error that a caller matches can still arrive with its identity", 3)
	ea.runE7("ERR-E7-sentinel-path", nil)
	ea.runStickyLoop("ERR-E5-sticky", nil)
	ea.runErrorInvalidates("ERR-E5-sticky", nil)
	scope := func(fn *ssa.Function) bool {
		p := strings.TrimPrefix(strings.TrimPrefix(l.pkgPathOf(fn), l.ModPath), "/")
		return p == "" || p == "db" || p == "cache"
	}
	runLockPairing(c, l, "LOCK-pairing", scope, lockHandoffs)
	checkReferenceRootOlder(c)
	checkFailedCommitDiscards(c)
	checkFailedWriteKeepsRoot(c)
	c.rule("ORDER-index-label-last", "a failed write during an index build cannot leave a label that declares the partial index complete", 1)
	checkIndexLabelLast(c, "ORDER-index-label-last")
	checkFailedWriteRetainsBatch(c)
	var lossy []string
	for fn, why := range ea.lossy {
		lossy = append(lossy, l.fname(fn)+": "+why)
	}
	sortStrings(lossy)
	for _, s := range lossy {
		c.infof("lossy (no error result, loses storage errors): %s", s)
	}
	c.trust("errors.Is/As and comparison with a package-level sentinel are specific matches", "Logger methods and fmt printing are not error handling")
}

// lock hand-offs: function returns holding the lock by design; the named
// goroutine closure releases it (checked separately under C18).
var lockHandoffs = map[string]map[string]bool{
	"db.newMemDBIteratorMtxChoice":   {"local:db.mtx:r": true},
	"db.newMemDBIteratorMtxChoice$1": {"db.mtx:r": true},
}

// checkReferenceRootOlder: SaveRoot(version, key) stores, under the root key
// of `version`, a reference to a node of an OLDER version.  A commit whose
// batch write failed leaves the new nodes keyed for `version` in memory and
// queued in the (retained) batch; when the commit is repeated the root already
// has a key of that very version, and a reference written then overwrites the
// pending root node with a pointer to itself — the repeated commit reports
// success over a version that cannot be read.  Decided: every SaveRoot call is
// dominated by a test that the key's version differs from (is older than) the
// version being saved.
func checkReferenceRootOlder(c *Ctx) {
	l := c.L
	const R = "DOM-reference-root-older"
	c.rule(R, "a reference root is written only for a root keyed in an older version (a commit repeated after a failed write must not reference itself)", 1)
	saveRoot := l.Func("", "*nodeDB.SaveRoot")
	fVer := l.Field("", "NodeKey", "version")
	if saveRoot == nil || fVer == nil {
		c.anchorMissing(R, "nodeDB.SaveRoot / NodeKey.version")
		return
	}
	n := 0
	for _, fn := range l.SrcFuncs {
		if l.pkgPathOf(fn) != l.ModPath {
			continue
		}
		for _, in := range callsIn(fn, predStatic(saveRoot)) {
			n++
			cc := callCommon(in)
			ver, nk := stripTrivial(cc.Args[1]), stripTrivial(cc.Args[2])
			nkPath := accessPath(nk)
			isKeyVersion := func(v ssa.Value) bool {
				v = stripTrivial(v)
				ld, ok := v.(*ssa.UnOp)
				if !ok || ld.Op != token.MUL {
					return false
				}
				fa, ok := ld.X.(*ssa.FieldAddr)
				if !ok || fieldVar(fa.X.Type(), fa.Field) != fVer {
					return false
				}
				b := stripTrivial(fa.X)
				return b == nk || (nkPath != "" && accessPath(b) == nkPath)
			}
			isVer := func(v ssa.Value) bool { return stripTrivial(v) == ver }
			gs := findGuards(fn, func(cond ssa.Value) (bool, int) {
				bo, ok := stripTrivial(cond).(*ssa.BinOp)
				if !ok {
					return false, 0
				}
				x, y, op := bo.X, bo.Y, bo.Op
				if isVer(x) && isKeyVersion(y) {
					x, y = y, x
					op = map[token.Token]token.Token{token.LSS: token.GTR, token.GTR: token.LSS, token.LEQ: token.GEQ, token.GEQ: token.LEQ, token.EQL: token.EQL, token.NEQ: token.NEQ}[op]
				}
				if !isKeyVersion(x) || !isVer(y) {
					return false, 0
				}
				switch op {
				case token.NEQ, token.LSS:
					return true, 0
				case token.EQL, token.GEQ:
					return true, 1
				}
				return false, 0
			})
			c.decide(R, l.fname(fn)+" writes a reference root", l.ipos(in), guardsEffect(gs, in), "only for a root whose key version differs from the version being saved",
				"SaveRoot is reachable with a root keyed for the very version being saved (left behind by a commit whose write failed): the reference overwrites the pending root node with a pointer to itself, and the repeated commit reports success over an unreadable version")
		}
	}
	if n < 1 {
		c.anchorMissing(R, "no SaveRoot call found")
	}
}

// checkFailedCommitDiscards: the operations queued by a commit whose physical
// write failed belong to that commit.  If nodeDB.Commit returns the error but
// keeps them in the batch, the next successful commit — possibly of different
// content, after a Rollback — applies them: index entries and nodes of a
// discarded working state become part of a later version.  Decided: on the
// error edge of the physical write, every path to the return discards the
// batch (closes it or replaces it).
func checkFailedCommitDiscards(c *Ctx) {
	l := c.L
	const R = "PASS-failed-commit-discards"
	c.rule(R, "the operations queued by a commit whose physical write failed are not left in the batch for a later commit to apply", 1)
	commit := l.Func("", "*nodeDB.Commit")
	fBatch := l.Field("", "nodeDB", "batch")
	if commit == nil || fBatch == nil {
		c.anchorMissing(R, "nodeDB.Commit / nodeDB.batch")
		return
	}
	var writes []*ssa.Call
	for _, in := range callsIn(commit, isBatchWrite) {
		if cl, ok := in.(*ssa.Call); ok {
			writes = append(writes, cl)
		}
	}
	if len(writes) == 0 {
		c.anchorMissing(R, "no physical write in nodeDB.Commit")
		return
	}
	discards := func(in ssa.Instruction) bool {
		if isStoreToField(in, fBatch) {
			return true
		}
		cc := callCommon(in)
		return cc != nil && cc.IsInvoke() && cc.Method.Name() == "Close" && isLoadOfField(fBatch)(cc.Value)
	}
	// carriers of the write errors (the two writes meet in a phi)
	carriers := map[ssa.Value]bool{}
	for _, w := range writes {
		if e, has := errorValueOfCall(w); has && e != nil {
			carriers[e] = true
		}
	}
	for changed := true; changed; {
		changed = false
		allInstrs(commit, func(in ssa.Instruction) {
			if phi, ok := in.(*ssa.Phi); ok && !carriers[phi] {
				for _, e := range phi.Edges {
					if carriers[stripTrivial(e)] {
						carriers[phi] = true
						changed = true
					}
				}
			}
		})
	}
	ok, found := true, false
	var at ssa.Instruction = writes[0]
	for _, b := range commit.Blocks {
		iff := ifOf(b)
		if iff == nil {
			continue
		}
		v, nn, isNil := nilCond(iff.Cond)
		if !isNil || !carriers[stripTrivial(v)] {
			continue
		}
		found = true
		at = iff
		searchFrom([]point{blockStart(b.Succs[nn])}, func(in ssa.Instruction) bool {
			if discards(in) {
				return true
			}
			if _, isRet := in.(*ssa.Return); isRet {
				ok = false
				return true
			}
			return false
		})
	}
	c.decide(R, "nodeDB.Commit failure edge discards the batch", l.ipos(at), found && ok, "the batch is closed / replaced before the error is returned",
		"nodeDB.Commit returns the write error with the failed commit's operations still queued: the next successful commit applies them, also after Rollback() discarded the working state they belonged to")
}

// checkFailedWriteKeepsRoot (C17, C01): a write-API call that fails (its
// descent could not read a node) leaves the working tree as it was.  The
// recursive insert / remove return (nil, …, err) on failure; the working root
// may therefore be replaced by their result only on the nil-error edge.
func checkFailedWriteKeepsRoot(c *Ctx) {
	l := c.L
	const R = "DOM-failed-write-keeps-root"
	c.rule(R, "the working root is replaced by the result of a fallible descent only after its error was found nil", 2)
	fRoot := l.Field("", "ImmutableTree", "root")
	if fRoot == nil {
		c.anchorMissing(R, "ImmutableTree.root")
		return
	}
	n := 0
	for _, name := range []string{"*MutableTree.set", "*MutableTree.Remove"} {
		fn := l.Func("", name)
		if fn == nil {
			c.anchorMissing(R, name)
			continue
		}
		for _, st := range storesToField(fn, fRoot) {
			e, ok := stripTrivial(st.Val).(*ssa.Extract)
			if !ok {
				continue
			}
			call, ok := e.Tuple.(*ssa.Call)
			if !ok || errResultIndex(call.Call.Signature()) < 0 {
				continue
			}
			n++
			c.decide(R, l.fname(fn)+" installs the result of "+l.calleeName(call), l.ipos(st), okEdgeDominates(call, st), "only on the nil-error edge",
				"the working root is overwritten with the result of "+l.calleeName(call)+" before its error is examined: when the descent fails on a storage read that result is nil, the call reports the error but the working tree is now empty — later reads answer `absent` and the next commit saves an empty tree")
		}
	}
	if n < 2 {
		c.anchorMissing(R, "fewer than 2 root replacements from fallible descents (set, Remove)")
	}
}

// checkFailedWriteRetainsBatch: SaveVersion assigns node keys before the
// commit; when the commit's write fails, a repeated SaveVersion finds the
// nodes keyed and relies on their queued writes still being in the batch
// (see DOM-reference-root-older).  The batch wrapper therefore must not close
// or replace its batch on the error edge of the physical write.  (The hazard
// of that design — the retained operations survive a Rollback — is the known
// finding PASS-failed-commit-discards; dropping the batch here without undoing
// the node keys trades it for a commit that reports success over nothing.)
func checkFailedWriteRetainsBatch(c *Ctx) {
	l := c.L
	const R = "PASS-failed-write-retains-batch"
	c.rule(R, "the batch wrapper keeps the queued operations when the physical write fails (a repeated commit relies on them)", 2)
	fBatch := l.Field("", "BatchWithFlusher", "batch")
	if fBatch == nil {
		c.anchorMissing(R, "BatchWithFlusher.batch")
		return
	}
	drops := l.newFnReach(func(fn *ssa.Function) bool {
		w := false
		allInstrs(fn, func(in ssa.Instruction) {
			if isStoreToField(in, fBatch) {
				w = true
			}
		})
		return w
	})
	for _, name := range []string{"*BatchWithFlusher.Write", "*BatchWithFlusher.WriteSync"} {
		fn := l.Func("", name)
		if fn == nil {
			c.anchorMissing(R, name)
			continue
		}
		for _, in := range callsIn(fn, isBatchWrite) {
			call, ok := in.(*ssa.Call)
			if !ok {
				continue
			}
			e, has := errorValueOfCall(call)
			if !has || e == nil {
				continue
			}
			okKeep, found := true, false
			for _, b := range fn.Blocks {
				iff := ifOf(b)
				if iff == nil {
					continue
				}
				v, nn, isNil := nilCond(iff.Cond)
				if !isNil || stripTrivial(v) != e {
					continue
				}
				found = true
				searchFrom([]point{blockStart(b.Succs[nn])}, func(x ssa.Instruction) bool {
					if isStoreToField(x, fBatch) {
						okKeep = false
						return true
					}
					if cc := callCommon(x); cc != nil {
						if cc.IsInvoke() && cc.Method.Name() == "Close" && isLoadOfField(fBatch)(cc.Value) {
							okKeep = false
							return true
						}
						if g := staticCallee(cc); g != nil && g != fn && drops.Fn(g) {
							okKeep = false
							return true
						}
					}
					return false
				})
			}
			c.decide(R, l.fname(fn)+" keeps the batch when the write fails", l.ipos(in), found && okKeep, "error edge returns without closing / replacing the batch",
				"on the error edge of the physical write the batch is closed or replaced: the operations of the failed commit are gone while the nodes stay keyed in memory, so a repeated SaveVersion writes (almost) nothing and reports the version as saved")
		}
	}
}

// checkMemoAfterIteratorVerdict (shared by C17, C14, C16): the version counters
// that are discovered by positioning an iterator (latest / first / latest
// legacy version) are memoised only with a verdict the iterator really gave:
// on the edge where it is Valid (a key was read), or after its Error() was
// found nil ("there is none").  Memoising the "none" default before the error
// test turns one failed storage read into a permanent wrong answer: the error
// is reported once, every later call answers from the memo.
func checkMemoAfterIteratorVerdict(c *Ctx, rule string) {
	l := c.L
	c.rule(rule, "iterator-discovered version counters are memoised only after Valid() or Error() == nil", 3)
	resets := map[*ssa.Function]bool{}
	for _, nm := range []string{"*nodeDB.resetLatestVersion", "*nodeDB.resetFirstVersion", "*nodeDB.resetLegacyLatestVersion"} {
		if f := l.Func("", nm); f != nil {
			resets[f] = true
		}
	}
	if len(resets) < 3 {
		c.anchorMissing(rule, "reset functions of the version counters")
		return
	}
	n := 0
	for _, fn := range l.SrcFuncs {
		if l.pkgPathOf(fn) != l.ModPath {
			continue
		}
		// iterators created in fn
		var iters []ssa.Value
		allInstrs(fn, func(in ssa.Instruction) {
			cc := callCommon(in)
			if cc == nil {
				return
			}
			name := ""
			if cc.IsInvoke() {
				name = cc.Method.Name()
			} else if g := staticCallee(cc); g != nil {
				name = g.Name()
			}
			if name == "Iterator" || name == "ReverseIterator" || name == "getPrefixIterator" {
				if v, ok := in.(ssa.Value); ok {
					if e := extractOf(v, 0); e != nil {
						iters = append(iters, e)
					}
				}
			}
		})
		if len(iters) == 0 {
			continue
		}
		isIter := func(v ssa.Value) bool {
			v = stripTrivial(v)
			for _, it := range iters {
				if v == it {
					return true
				}
			}
			return false
		}
		// verdict edges
		var verdict []guard
		for _, b := range fn.Blocks {
			iff := ifOf(b)
			if iff == nil {
				continue
			}
			cond := stripTrivial(iff.Cond)
			if call, ok := cond.(*ssa.Call); ok && call.Call.IsInvoke() && call.Call.Method.Name() == "Valid" && isIter(call.Call.Value) {
				verdict = append(verdict, guard{iff, 0})
				continue
			}
			if x, nn, ok := nilCond(cond); ok {
				if call, isCall := stripTrivial(x).(*ssa.Call); isCall && call.Call.IsInvoke() && call.Call.Method.Name() == "Error" && isIter(call.Call.Value) {
					verdict = append(verdict, guard{iff, 1 - nn})
				}
			}
		}
		for _, in := range callsIn(fn, func(cc *ssa.CallCommon) bool { f := staticCallee(cc); return f != nil && resets[f] }) {
			n++
			c.decide(rule, l.fname(fn)+" memoises through "+l.calleeName(in), l.ipos(in), guardsEffect(verdict, in),
				"behind the iterator's Valid() edge or its Error() == nil edge",
				"a version counter is memoised before the iterator gave a verdict (neither on its Valid() edge nor after its Error() was found nil): a storage failure while positioning the iterator is reported once and then answered from the memo for good (latest legacy version 'none': the legacy versions disappear, Load() returns an empty tree)")
		}
	}
	if n < 3 {
		c.anchorMissing(rule, "fewer than 3 memo writes in iterator-positioning functions")
	}
}

// checkKeyedImpliesQueued (C17): SaveVersion takes a root that is already keyed
// for the committing version for "queued by an earlier attempt whose commit
// failed" and queues nothing.  That is only true if a failure INSIDE
// saveNewNodes — keys are assigned to all new nodes first, then the nodes are
// queued one by one, and queueing fails when the batch wrapper's early flush
// fails — does not leave keyed nodes that were never queued: every error
// return after the key assignment must un-key the new nodes (or the retry must
// re-queue them).
func checkKeyedImpliesQueued(c *Ctx, rule string) {
	l := c.L
	c.rule(rule, "a failed queueing of new nodes does not leave keyed, never-queued nodes behind", 1)
	snn := l.Func("", "*MutableTree.saveNewNodes")
	saveNode := l.Func("", "*nodeDB.SaveNode")
	fNK := l.Field("", "Node", "nodeKey")
	if snn == nil || saveNode == nil || fNK == nil {
		c.anchorMissing(rule, "saveNewNodes / SaveNode / Node.nodeKey")
		return
	}
	isUnkey := func(in ssa.Instruction) bool {
		st, ok := in.(*ssa.Store)
		if !ok {
			return false
		}
		fa, ok := st.Addr.(*ssa.FieldAddr)
		return ok && fieldVar(fa.X.Type(), fa.Field) == fNK && isNilConst(stripTrivial(st.Val))
	}
	n := 0
	for _, in := range callsIn(snn, predStatic(saveNode)) {
		call, ok := in.(*ssa.Call)
		if !ok {
			continue
		}
		n++
		// error returns on the failure edge of this call
		bad := false
		var at ssa.Instruction = call
		for _, r := range returnsOf(snn) {
			if errNilness(retVal(r, 0), r.Block(), 0) <= 0 {
				continue
			}
			if !instrDominates(call, r) || okEdgeDominates(call, r) {
				continue
			}
			// some un-keying on the way from the call to this return
			passed := false
			searchFrom([]point{after(call)}, func(x ssa.Instruction) bool {
				if isUnkey(x) {
					passed = true
				}
				if cc := callCommon(x); cc != nil {
					if g := staticCallee(cc); g != nil && l.inModule(g) {
						allInstrs(g, func(y ssa.Instruction) {
							if isUnkey(y) {
								passed = true
							}
						})
					}
				}
				return x == ssa.Instruction(r)
			})
			if !passed {
				bad, at = true, r
			}
		}
		c.decide(rule, "saveNewNodes: failed SaveNode leaves no keyed, never-queued node", l.ipos(at), !bad,
			"the failure edge un-keys the new nodes",
			"when queueing a new node fails (the batch wrapper's early flush failed), saveNewNodes returns with every new node already keyed but only some of them queued; the retried SaveVersion sees a root keyed for this version, takes it for queued and commits: success is reported for a version whose nodes were never written (reopen: version does not exist)")
	}
	if n == 0 {
		c.anchorMissing(rule, "saveNewNodes no longer calls SaveNode")
	}
}
