package main

import (
	"strings"

	"golang.org/x/tools/go/ssa"
)

func init() {
	register(&propCheck{id: "C17", needRoot: true, run: checkC17,
		explanation: "Decided statically: at EVERY call site whose callee can reach a storage operation (KVStore.Get/Has/Iterator/ReverseIterator, Iterator.Error, Batch.Set/Delete/Write/WriteSync) and returns an error, the error is not dropped (E1), not swallowed into a nil-error return on its err!=nil edge (E2), every iterator loop in an error-bearing function consults Error() before a success return (E3), no error-bearing function obtains data through a callee that cannot report storage errors (E4), sticky iterator errors are surfaced (E5), no pointer result is dereferenced before its error is examined (E6), and mutex acquire/release is paired on all paths so that a failed write cannot turn into a process abort (LOCK). Each such call site is one fault position the property quantifies over. NOT decided: that the database left behind by a failed write reopens to the state before or after the operation (needs execution), and value-level correctness of what is returned."})
}

func checkC17(c *Ctx) {
	l := c.L
	ea := newErrAnalysis(c, l)
	c.rule("ERR-E1-dropped", "error of a storage-reaching call has a real use", 150)
	c.rule("ERR-E2-swallowed", "no nil-error return reachable from the err != nil edge without a sentinel match", 120)
	c.rule("ERR-E3-iterator", "Error() consulted between end of iteration and success return", 6)
	c.rule("ERR-E4-lossy-callee", "no call from an error-bearing function to a function that loses storage errors", 0)
	c.rule("ERR-E5-sticky", "sticky error fields are returned by Error(); wrappers consult the wrapped iterator", 5)
	c.rule("ERR-E6-use-before-check", "pointer results are not dereferenced before the error check", 10)
	c.rule("LOCK-pairing", "mutex acquire/release paired on every path", 30)
	ea.runE1E2E4("ERR-E1-dropped", "ERR-E2-swallowed", "ERR-E4-lossy-callee", nil)
	ea.runE3("ERR-E3-iterator", nil)
	ea.runE3Strict("ERR-E3-iterator", l.Func("", "*nodeDB.traverseOrphansWithRootkeyCache"))
	ea.runE5("ERR-E5-sticky")
	ea.runE6("ERR-E6-use-before-check", nil)
	scope := func(fn *ssa.Function) bool {
		p := strings.TrimPrefix(strings.TrimPrefix(l.pkgPathOf(fn), l.ModPath), "/")
		return p == "" || p == "db" || p == "cache"
	}
	runLockPairing(c, l, "LOCK-pairing", scope, lockHandoffs)
	var lossy []string
	for fn, why := range ea.lossy {
		lossy = append(lossy, l.fname(fn)+": "+why)
	}
	sortStrings(lossy)
	for _, s := range lossy {
		c.infof("lossy (no error result, loses storage errors): %s", s)
	}
	c.trust("errors.Is/As and comparison with a package-level sentinel are specific matches", "Logger methods and fmt printing are not error handling")
}

// lock hand-offs: function returns holding the lock by design; the named
// goroutine closure releases it (checked separately under C18).
var lockHandoffs = map[string]map[string]bool{
	"db.newMemDBIteratorMtxChoice":   {"local:db.mtx:r": true},
	"db.newMemDBIteratorMtxChoice$1": {"db.mtx:r": true},
}
