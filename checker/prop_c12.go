package main

import (
	"strings"

	"golang.org/x/tools/go/ssa"
)

func init() {
	register(&propCheck{id: "C12", needRoot: true, run: checkC12,
		explanation: "Decided statically (narrow; necessary conditions only): (1) PASS — every new node that is given a node key at commit is queued for saving, and the save loop visits every queued node (otherwise a retained version misses a node); (2) PASS — the orphan callback of deleteVersion issues a deletion for every orphan it is handed unless it returns an error (otherwise unreachable nodes are left behind); (3) FLOW — the rollback range delete covers exactly [fromVersion, latest+1) of the node key-space; (4) PASS — the fast-index maintenance at commit saves every pending addition and deletes every pending removal, and the collecting callbacks never stop early. Added in the build round: shared subtrees are recognised by hash and a shared root stays stored while it is re-keyed (DOM-shared-by-hash, ORDER-rekey); the orphan callback deletes the orphan's OWN storage key (not only a legacy alias) on every success path; rollback reaches the index rebuild that drops the index entries of erased versions. NOT decided: that the set of stored nodes EQUALS the set reachable from retained versions over histories (needs the orphan diff to be value-correct and a reachability audit of real databases). Rules added in the later seeding rounds (each listed with what it decides in this file's rule table) are described in DESIGN.md §3 \"Third and fourth seeding rounds\" and Appendix C3–C5."})
}

// loopBodyMustPass: in the innermost loop containing an instruction
// satisfying isC, every path from the loop header back to the header passes
// one (error exits leave the loop and are not constrained).
func loopBodyMustPass(fn *ssa.Function, isC func(ssa.Instruction) bool) (found, ok bool, where ssa.Instruction) {
	var c ssa.Instruction
	allInstrs(fn, func(in ssa.Instruction) {
		if c == nil && isC(in) {
			c = in
		}
	})
	if c == nil {
		return false, false, nil
	}
	// innermost header dominating c with a back edge
	var header *ssa.BasicBlock
	for b := c.Block(); b != nil; b = b.Idom() {
		for _, p := range b.Preds {
			if b.Dominates(p) {
				header = b
			}
		}
		if header != nil {
			break
		}
	}
	if header == nil {
		return true, false, c
	}
	q := mustState(fn, false, isC, func(in ssa.Instruction) bool {
		return in.Block() == header && instrIndex(in) == 0
	})
	ok = true
	for _, p := range header.Preds {
		if !header.Dominates(p) {
			continue
		}
		last := p.Instrs[len(p.Instrs)-1]
		if !q(last) && !isC(last) {
			ok = false
			where = last
		}
	}
	return true, ok, where
}

func checkC12(c *Ctx) {
	l := c.L
	c.rule("PASS-root-record", "existence and identity of a version come from its stored root record, not from the node cache or the working tree", 2)
	checkRootRecord(c, "PASS-root-record")
	c.rule("PASS-new-nodes-saved", "every keyed new node is queued and saved", 2)
	c.rule("PASS-orphans-deleted", "every orphan handed to the pruning callback is deleted", 1)
	c.rule("FLOW-rollback-range", "rollback deletes exactly the node keys of versions >= fromVersion", 2)
	c.rule("PASS-index-maintenance", "all pending index additions/removals are written; rollback reaches the rebuild that drops the index of erased versions", 4)
	// which nodes count as orphans: shared subtrees are recognised by hash, and a shared root stays stored while it is re-keyed
	c.rule("DOM-shared-by-hash", "a subtree is skipped as shared only on hash equality", 1)
	if tow := l.Func("", "*nodeDB.traverseOrphansWithRootkeyCache"); tow == nil {
		c.anchorMissing("DOM-shared-by-hash", "traverseOrphansWithRootkeyCache")
	} else {
		checkSharedByHash(c, "DOM-shared-by-hash", tow, func(v ssa.Value) bool {
			return strings.Contains(roleOf(l, v, "", 0), ",arg1)#0")
		})
	}
	checkRekeyOrder(c)
	// discarded writes leave nothing behind that the next commit would persist (index entries included)
	checkRollbackFrame(c)
	c.rule("TABLE-orphan-walk", "orphan diff: skip / descend / report decisions on both trees", 4)
	checkOrphanWalk(c, "TABLE-orphan-walk")
	c.rule("OWN-import-write-once", "an imported node is written once, under its final key", 3)
	checkImportWriteOnce(c, "OWN-import-write-once")
	checkRebuildDecision(c, "PASS-index-maintenance")
	checkRollbackDropsLabel(c, "PASS-rollback-drops-label")

	callTo := func(fs ...*ssa.Function) func(ssa.Instruction) bool {
		p := predStatic(fs...)
		return func(in ssa.Instruction) bool { cc := callCommon(in); return cc != nil && p(cc) }
	}
	// (1)
	snn := l.Func("", "*MutableTree.saveNewNodes")
	saveNode := l.Func("", "*nodeDB.SaveNode")
	fNK := l.Field("", "Node", "nodeKey")
	if snn == nil || saveNode == nil || fNK == nil || len(snn.AnonFuncs) == 0 {
		c.anchorMissing("PASS-new-nodes-saved", "saveNewNodes / SaveNode / Node.nodeKey")
	} else {
		for _, cl := range snn.AnonFuncs {
			keyStores := storesToField(cl, fNK)
			if len(keyStores) == 0 {
				continue
			}
			isAppend := func(in ssa.Instruction) bool {
				st, ok := in.(*ssa.Store)
				if !ok {
					return false
				}
				call, ok := st.Val.(*ssa.Call)
				if !ok {
					return false
				}
				b, ok := call.Call.Value.(*ssa.Builtin)
				if !ok || b.Name() != "append" {
					return false
				}
				_, isFV := st.Addr.(*ssa.FreeVar)
				return isFV
			}
			q := mustState(cl, false, isAppend, nil)
			for _, ks := range keyStores {
				var bad *ssa.Return
				searchFrom([]point{after(ks)}, func(in ssa.Instruction) bool {
					if r, ok := in.(*ssa.Return); ok {
						if errNilness(retVal(r, errResultIndex(cl.Signature)), r.Block(), 0) <= 0 && !q(r) && bad == nil {
							bad = r
						}
						return true
					}
					return false
				})
				c.decide("PASS-new-nodes-saved", l.fname(cl)+" keyed node is queued", l.ipos(ks), bad == nil, "every success return after the key assignment passes the append to the save list", "a node can be given a node key without being queued for saving: its parent will reference a node that is never stored")
			}
		}
		found, ok, _ := loopBodyMustPass(snn, callTo(saveNode))
		c.decide("PASS-new-nodes-saved", "saveNewNodes saves every queued node", l.pos(snn.Pos()), found && ok, "every iteration of the save loop calls SaveNode", "the save loop can skip a queued node")
	}
	// (2)
	checkOrphansDeleted(c, "PASS-orphans-deleted")
	// (3)
	checkRollbackRange(c)
	// (4)
	for _, spec := range []struct{ fn, callee string }{{"*MutableTree.saveFastNodeAdditions", "*nodeDB.SaveFastNode"}, {"*MutableTree.saveFastNodeRemovals", "*nodeDB.DeleteFastNode"}} {
		fn := l.Func("", spec.fn)
		g := l.Func("", spec.callee)
		if fn == nil || g == nil {
			c.anchorMissing("PASS-index-maintenance", spec.fn)
			continue
		}
		found, ok, _ := loopBodyMustPass(fn, callTo(g))
		c.decide("PASS-index-maintenance", l.fname(fn)+" writes every pending entry", l.pos(fn.Pos()), found && ok, "every iteration calls "+g.Name(), "the loop can skip a pending index entry")
		// collecting callback never stops early: returns the constant true
		for _, cb := range fn.AnonFuncs {
			all := true
			for _, r := range returnsOf(cb) {
				k, isC := stripTrivial(retVal(r, 0)).(*ssa.Const)
				if !isC || k.Value == nil || k.Value.String() != "true" {
					all = false
				}
			}
			c.decide("PASS-index-maintenance", l.fname(cb)+" collects every pending key", l.pos(cb.Pos()), all, "the Range callback always continues", "the Range callback can stop early: pending entries are dropped")
		}
	}
}

// checkRollbackRange (shared by C12, C09, C16): the range delete of a rollback
// covers the new-format node keys of exactly [requested version, latest+1).
func checkRollbackRange(c *Ctx) {
	l := c.L
	c.rule("FLOW-rollback-range", "rollback deletes exactly the node keys of versions >= fromVersion", 2)
	dvf := l.Func("", "*nodeDB.DeleteVersionsFrom")
	tr := l.Func("", "*nodeDB.traverseRange")
	if dvf == nil || tr == nil {
		c.anchorMissing("FLOW-rollback-range", "DeleteVersionsFrom / traverseRange")
	} else {
		n := 0
		for _, in := range callsIn(dvf, predStatic(tr)) {
			cc := callCommon(in)
			start := roleOf(l, cc.Args[1], "ndb", 0)
			end := roleOf(l, cc.Args[2], "ndb", 0)
			if !strings.Contains(start, "nodeKeyPrefixFormat") {
				continue
			}
			n++
			// exactly the requested version: a start "just above the legacy boundary" misses the (legacy version, 0)
			// copies of legacy roots that later commits re-saved in the new key-space
			okStart := start == "KeyInt64(global:nodeKeyPrefixFormat,arg0)"
			okEnd := strings.HasPrefix(end, "KeyInt64(global:nodeKeyPrefixFormat,(getLatestVersion(") && strings.HasSuffix(end, "#1+1))")
			c.decide("FLOW-rollback-range", "DeleteVersionsFrom range start", l.ipos(in), okStart, "starts at the node keys of the requested version", "range delete of the new key-space starts at `"+start+"`, not at the requested version: node keys of erased versions below that start (re-saved legacy roots under (legacy version, 0)) survive the rollback, and the reopened database takes the highest of them for its latest version")
			c.decide("FLOW-rollback-range", "DeleteVersionsFrom range end", l.ipos(in), okEnd, "ends at latest+1 (exclusive): "+end, "range delete ends at `"+end+"`, not at latest+1")
		}
		if n == 0 {
			c.anchorMissing("FLOW-rollback-range", "no range delete over the node key-space")
		}
	}
}

// checkOrphansDeleted (shared by C12 and C05): the orphan callback of
// deleteVersion deletes the own storage key of every orphan it is handed —
// the pruned version's root included, which the pre-order walk hands over
// first, so that a prune interrupted between two physical writes has already
// taken the version out of the version search.
func checkOrphansDeleted(c *Ctx, rule string) {
	l := c.L
	callTo := func(fs ...*ssa.Function) func(ssa.Instruction) bool {
		p := predStatic(fs...)
		return func(in ssa.Instruction) bool { cc := callCommon(in); return cc != nil && p(cc) }
	}
	dv := l.Func("", "*nodeDB.deleteVersion")
	dfp := l.Func("", "*nodeDB.deleteFromPruning")
	if dv == nil || dfp == nil || len(dv.AnonFuncs) == 0 {
		c.anchorMissing(rule, "deleteVersion callback / deleteFromPruning")
	} else {
		// a deletion of the orphan's OWN storage key (built from its node key), as opposed to the
		// additional clean-up of a legacy-root alias (built from its hash)
		// ... and the node key it is built from is the orphan's own (the nodeKey field of the callback's
		// parameter on every path), not a key synthesised from it: an orphan keyed (v,1) with v below the
		// pruned version is either a re-keyed reference root or a single-leaf root that later trees reused
		// as a child, and only the deletion of its own key removes the latter
		getKey := l.Func("", "*NodeKey.GetKey")
		nodeGetKey := l.Func("", "*Node.GetKey")
		fNK := l.Field("", "Node", "nodeKey")
		var isOwn func(v ssa.Value, depth int) bool
		isOwn = func(v ssa.Value, depth int) bool {
			v = stripTrivial(v)
			if depth > 4 {
				return false
			}
			switch x := v.(type) {
			case *ssa.Phi:
				for _, e := range x.Edges {
					if !isOwn(e, depth+1) {
						return false
					}
				}
				return true
			case *ssa.UnOp:
				fa, ok := x.X.(*ssa.FieldAddr)
				if !ok || fNK == nil || fieldVar(fa.X.Type(), fa.Field) != fNK {
					return false
				}
				_, isParam := stripTrivial(fa.X).(*ssa.Parameter)
				return isParam
			}
			return false
		}
		var builtFromOwn func(v ssa.Value, depth int) bool
		builtFromOwn = func(v ssa.Value, depth int) bool {
			v = stripTrivial(v)
			call, ok := v.(*ssa.Call)
			if !ok || depth > 4 {
				return false
			}
			if getKey != nil && staticCallee(&call.Call) == getKey && len(call.Call.Args) > 0 {
				return isOwn(call.Call.Args[0], 0)
			}
			// Node.GetKey of the orphan itself: its hash when legacy, its node key otherwise
			if nodeGetKey != nil && staticCallee(&call.Call) == nodeGetKey && len(call.Call.Args) > 0 {
				_, isParam := stripTrivial(call.Call.Args[0]).(*ssa.Parameter)
				return isParam
			}
			for _, a := range call.Call.Args {
				if builtFromOwn(a, depth+1) {
					return true
				}
			}
			return false
		}
		ownKey := func(in ssa.Instruction) bool {
			if !callTo(dfp)(in) {
				return false
			}
			return builtFromOwn(callCommon(in).Args[1], 0)
		}
		for _, cb := range dv.AnonFuncs {
			q := mustState(cb, false, ownKey, nil)
			ok := true
			for _, r := range returnsOf(cb) {
				v := stripTrivial(retVal(r, 0))
				// `return ndb.deleteFromPruning(own key)` passes it by construction
				if call, isCall := v.(*ssa.Call); isCall && ownKey(call) {
					continue
				}
				if errNilness(v, r.Block(), 0) > 0 {
					continue
				}
				if !q(r) {
					ok = false
				}
			}
			c.decide(rule, l.fname(cb)+" deletes every orphan", l.pos(cb.Pos()), ok, "every non-error return passes a deletion of the orphan's own key", "the orphan callback can return success without deleting the orphan's own key (after only a legacy alias or a synthesised (version,0) key was removed): a single-leaf root that later trees reused as a child is stored under (v,1) and stays behind for good, which also keeps the deleted version v visible to the version search")
		}
	}
}
