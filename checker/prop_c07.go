package main

import (
	"fmt"
	"os"
	"go/token"
	"strings"
	"go/types"

	"golang.org/x/tools/go/ssa"
)

func init() {
	register(&propCheck{id: "C07", needRoot: true, run: checkC07,
		explanation: "Decided statically: (1) FLOW — in the index build the version the index is labelled with and the version of the tree it is built from must be the same value (or tied by a dominating equality test); today they are two different variables: KNOWN FINDING (stale indexed reads after opening an older version once); (2) DOM — a value taken from the index is returned only under `last-updated version <= queried version`, and absence only under `queried version == latest`; (3) OWN/ORDER — the in-memory index cache is filled only by the read-through lookup and by Commit after the physical write succeeded, and the index key-space formatter is used only by the index reader/writers; (4) PASS — rollback-by-overwrite, import and every load reach the rebuild decision when the index is enabled; every path that installs a new working root records the overlay entry; a completed commit clears the overlay; (5) ERR — the walk that deletes a stale index and the walk that rebuilds it consult the iterator's Error() (not a Close() that overwrites the sticky error) before success: otherwise a storage fault leaves stale entries under a label that says 'complete'. NOT decided: equality of indexed and tree-walk answers (value-level), correctness of the two-cursor merge. Rules added in the later seeding rounds (each listed with what it decides in this file's rule table) are described in DESIGN.md §3 \"Third and fourth seeding rounds\" and Appendix C3–C5."})
}

// fastDisabledEdge: the CFG edge on which the fast index is switched off.
func fastDisabledEdge(from *ssa.BasicBlock, si int) bool {
	iff := ifOf(from)
	if iff == nil {
		return false
	}
	en, ok := skipGuardEnabledSucc(iff)
	return ok && si == 1-en
}

func checkC07(c *Ctx) {
	l := c.L
	checkIndexPurgeClosesIterator(c, "CONTRACT-purge-closes-iterator")
	checkWorkingIterationMerges(c, "DOM-working-iteration")
	checkSnapshotFlags(c, "FLOW-snapshot-flags")
	checkNoDirectStoreWrites(c, "OWN-store-writes")
	c.rule("FLOW-label-source", "index label version = version of the tree the index is built from", 1)
	c.rule("DOM-version-guard", "indexed answers only under a version guard", 4)
	c.rule("OWN-index-cache", "index cache and key-space touched only by their owners, cache after commit", 5)
	c.rule("PASS-index-maintenance", "rebuild decision reached; overlay recorded and cleared", 7)

	efc := l.Func("", "*MutableTree.enableFastStorageAndCommit")
	setLabel := l.Func("", "*nodeDB.SetFastStorageVersionToBatch")
	newIter := l.Func("", "NewIterator")
	fnNew := l.Func("fastnode", "NewNode")
	getImm := l.Func("", "*MutableTree.GetImmutable")
	fVersion := l.Field("", "ImmutableTree", "version")
	if efc == nil || setLabel == nil || newIter == nil || fnNew == nil || fVersion == nil {
		c.anchorMissing("FLOW-label-source", "enableFastStorageAndCommit / SetFastStorageVersionToBatch / NewIterator / fastnode.NewNode")
	} else {
		var label ssa.Value
		for _, in := range callsIn(efc, predStatic(setLabel)) {
			label = callCommon(in).Args[1]
		}
		var src ssa.Value
		var srcAt ssa.Instruction
		for _, in := range callsIn(efc, predStatic(newIter)) {
			src = callCommon(in).Args[3]
			srcAt = in
		}
		if label == nil || src == nil {
			c.bad("FLOW-label-source", "enableFastStorageAndCommit label vs source tree", l.pos(efc.Pos()), "the index build no longer labels the index or no longer iterates a tree")
		} else {
			tied := treeVersionTied(src, label, srcAt.Block(), fVersion, getImm, 0)
			c.decide("FLOW-label-source", "enableFastStorageAndCommit label vs source tree", l.ipos(srcAt), tied,
				"the iterated tree is the tree of the labelled version", "the index is built from the loaded tree (tree.version) but labelled with the latest version: after opening an older version the index describes the wrong version, permanently")
			for _, in := range callsIn(efc, predStatic(fnNew)) {
				if !tied {
					break // same defect; one obligation
				}
				v := callCommon(in).Args[2]
				ok := sameValue(v, label) || isLoadOfField(fVersion)(v) && tied
				c.decide("FLOW-label-source", "enableFastStorageAndCommit fast node version", l.ipos(in), ok,
					"fast nodes carry the labelled version (or the version of a tree tied to it)", "fast nodes are stamped with a version unrelated to the label")
			}
		}
	}

	// ---- (2)
	checkVersionGuard(c)
	getFast := l.Func("", "*nodeDB.GetFastNode")

	checkIndexReadTable(c)
	// indexed iteration: persisted index merged with the uncommitted overlay
	checkMergeOrder(c)
	checkIndexIterGuard(c)

	// ---- (2b) the walks that drop a stale index and rebuild it cannot end early unnoticed
	c.rule("ERR-E3-index", "index purge / rebuild walks consult the iterator's error before reporting success", 2)
	{
		ea := newErrAnalysis(c, l)
		fns := []*ssa.Function{l.Func("", "*MutableTree.enableFastStorageAndCommitIfNotEnabled"), l.Func("", "*MutableTree.enableFastStorageAndCommit")}
		ea.runE3("ERR-E3-index", func(fn *ssa.Function) bool {
			for f := fn; f != nil; f = f.Parent() {
				for _, g := range fns {
					if g != nil && f == g {
						return true
					}
				}
			}
			return false
		})
	}

	// ---- (3)
	checkIndexCacheOwner(c, "OWN-index-cache")
	fCache := l.Field("", "nodeDB", "fastNodeCache")
	commit := l.Func("", "*nodeDB.Commit")
	if fCache == nil || commit == nil || getFast == nil {
		c.anchorMissing("OWN-index-cache", "nodeDB.fastNodeCache / Commit")
	} else {
		// key-space
		var fkf *ssa.Global
		if p := l.Pkg(""); p != nil {
			fkf, _ = p.Members["fastKeyFormat"].(*ssa.Global)
		}
		if fkf == nil {
			c.anchorMissing("OWN-index-cache", "global fastKeyFormat")
		} else {
			allowed := map[string]bool{"(*iavl.nodeDB).fastNodeKey": true, "(*iavl.nodeDB).getFastIterator": true, "(*iavl.nodeDB).traverseFastNodes": true, "iavl.init": true}
			for _, fn := range l.SrcFuncs {
				uses := false
				var at ssa.Instruction
				allInstrs(fn, func(in ssa.Instruction) {
					for _, op := range in.Operands(nil) {
						if *op == ssa.Value(fkf) {
							uses, at = true, in
						}
					}
				})
				if uses {
					c.decide("OWN-index-cache", "fastKeyFormat used in "+l.fname(fn), l.ipos(at), allowed[l.fname(fn)], "index key-space helper", "the index key-space is formatted outside its helpers")
				}
			}
			fnk := l.Func("", "*nodeDB.fastNodeKey")
			okUsers := map[string]bool{"(*iavl.nodeDB).saveFastNodeUnlocked": true, "(*iavl.nodeDB).DeleteFastNode": true, "(*iavl.nodeDB).GetFastNode": true}
			for _, e := range l.callersOf(fnk) {
				if e.Site == nil {
					continue
				}
				c.decide("OWN-index-cache", "fastNodeKey called from "+l.fname(e.Caller.Func), l.ipos(e.Site), okUsers[l.fname(e.Caller.Func)], "index reader/writer", "an index key is built outside saveFastNodeUnlocked/DeleteFastNode/GetFastNode")
			}
		}
	}

	// ---- (4)
	checkRebuildDecision(c, "PASS-index-maintenance")
	checkRollbackDropsLabel(c, "PASS-rollback-drops-label")
	checkIndexLabelLast(c, "PASS-index-maintenance")
	checkOverlayMaintenance(c, "PASS-index-maintenance")
	// a discard of the working state discards its overlay too (on every path of Rollback)
	checkRollbackFrame(c)
	checkFailedRebuildDisablesIndex(c, "PASS-index-maintenance")
	checkCloneCopiesDecisionFields(c)
	checkIndexReaders(c)
}

// treeVersionTied: is the *ImmutableTree value src the tree of version L at block b?
func treeVersionTied(src, L ssa.Value, b *ssa.BasicBlock, fVersion *types.Var, getImm *ssa.Function, depth int) bool {
	src = stripTrivial(src)
	if depth > 4 {
		return false
	}
	if e, ok := src.(*ssa.Extract); ok && e.Index == 0 {
		if call, ok := e.Tuple.(*ssa.Call); ok && getImm != nil && predStatic(getImm)(&call.Call) {
			return sameValue(call.Call.Args[1], L)
		}
	}
	if p, ok := src.(*ssa.Phi); ok {
		for i, ed := range p.Edges {
			if !treeVersionTiedEdge(ed, L, p.Block().Preds[i], p.Block(), fVersion, getImm, depth+1) {
				return false
			}
		}
		return true
	}
	// equality guard `src.version == L` dominating b
	return eqGuardDominates(src, L, b, nil, fVersion)
}

func treeVersionTiedEdge(src, L ssa.Value, pred, succ *ssa.BasicBlock, fVersion *types.Var, getImm *ssa.Function, depth int) bool {
	if treeVersionTied(src, L, pred, fVersion, getImm, depth) {
		return true
	}
	return eqGuardDominates(stripTrivial(src), L, pred, succ, fVersion)
}

// eqGuardDominates: an If comparing load(src.version) with L whose equal edge
// dominates block b (or is exactly the edge b→succ).
func eqGuardDominates(src, L ssa.Value, b, succ *ssa.BasicBlock, fVersion *types.Var) bool {
	fn := b.Parent()
	for _, blk := range fn.Blocks {
		iff := ifOf(blk)
		if iff == nil {
			continue
		}
		bo, ok := iff.Cond.(*ssa.BinOp)
		if !ok || (bo.Op != token.EQL && bo.Op != token.NEQ) {
			continue
		}
		isVerOfSrc := func(v ssa.Value) bool {
			v = stripTrivial(v)
			ld, ok := v.(*ssa.UnOp)
			if !ok || ld.Op != token.MUL {
				return false
			}
			fa, ok := ld.X.(*ssa.FieldAddr)
			return ok && fieldVar(fa.X.Type(), fa.Field) == fVersion && sameValue(fa.X, src)
		}
		var match bool
		if isVerOfSrc(bo.X) && sameValue(bo.Y, L) || isVerOfSrc(bo.Y) && sameValue(bo.X, L) {
			match = true
		}
		if !match {
			continue
		}
		eq := 0
		if bo.Op == token.NEQ {
			eq = 1
		}
		if succ != nil && blk == b && blk.Succs[eq] == succ {
			return true
		}
		if edgeDominates(blk, eq, b) {
			return true
		}
	}
	return false
}

// okEdgeDominatesPhi: like okEdgeDominates, but the tested value may be a phi
// that merges the call's error with others (if/else assigning one variable).
func okEdgeDominatesPhi(call *ssa.Call, x ssa.Instruction) bool {
	if okEdgeDominates(call, x) {
		return true
	}
	e, has := errorValueOfCall(call)
	if !has || e == nil {
		return false
	}
	for _, r := range refs(e) {
		if p, ok := r.(*ssa.Phi); ok && nilFactAt(p, x.Block()) < 0 {
			return true
		}
	}
	return false
}

// checkIndexReadTable: when is an answer taken from the index, when is absence
// concluded from it, and when does the read fall back to the tree walk.
func checkIndexReadTable(c *Ctx) {
	l := c.L
	c.rule("TABLE-index-read", "indexed read: use / absence / fallback decided for every combination of guard inputs", 10)
	for _, spec := range []struct {
		name    string
		verRole func(role string) bool
	}{
		{"*ImmutableTree.Get", func(r string) bool { return r == "version" }},
		{"*MutableTree.GetVersioned", func(r string) bool { return r == "arg1" }},
	} {
		fn := l.Func("", spec.name)
		if fn == nil {
			c.anchorMissing("TABLE-index-read", spec.name)
			continue
		}
		for _, skip := range []bool{true, false} {
			for _, errNil := range []bool{true, false} {
				for _, nodeNil := range []bool{true, false} {
					for _, isLatest := range []bool{true, false} {
						for _, fresh := range []bool{true, false} { // lastUpdatedAt <= version
							if skip && (!errNil || nodeNil || isLatest || fresh) {
								continue
							}
							if !errNil && (nodeNil || isLatest || fresh) {
								continue
							}
							if nodeNil && fresh {
								continue
							}
							if !nodeNil && isLatest {
								continue
							}
							skip, errNil, nodeNil, isLatest, fresh := skip, errNil, nodeNil, isLatest, fresh
							b2i := func(b bool) int {
								if b {
									return 1
								}
								return -1
							}
							env := &tableEnv{l: l, flag: map[string]int{"skipFastStorageUpgrade": b2i(skip), "versionExists()#0": 1, "IsFastCacheEnabled()#0": 1}, cmp: func(a, b string) (int, bool) { return 0, false }}
							env.recv = fn.Params[0].Name()
							env.isNil = func(role string) int {
								switch {
								case strings.HasPrefix(role, "GetFastNode(") && strings.HasSuffix(role, "#0"):
									return b2i(nodeNil)
								case strings.HasSuffix(role, "root"):
									return -1
								}
								return 0
							}
							env.ints = func(v ssa.Value, role string) (int64, bool) {
								switch {
								case spec.verRole(role):
									return 10, true
								case strings.HasPrefix(role, "getCachedLatestVersion("):
									if isLatest {
										return 10, true
									}
									return 12, true
								case strings.HasPrefix(role, "GetVersionLastUpdatedAt("):
									if fresh {
										return 9, true
									}
									return 11, true
								}
								return 0, false
							}
							w := &walker{vals: map[ssa.Value]int{}}
							w.env = &walkEnv{evalAtom: func(w *walker, v ssa.Value) int {
								// the error of GetFastNode is the only error that may be non-nil here
								if bo, ok := v.(*ssa.BinOp); ok {
									if vv, nn, isN := nilCond(bo); isN && isErrorType(vv.Type()) {
										isNil := 1
										if ex, ok := stripTrivial(w.resolve(vv)).(*ssa.Extract); ok {
											if call, ok := ex.Tuple.(*ssa.Call); ok {
												if f := staticCallee(&call.Call); f != nil && f.Name() == "GetFastNode" && !errNil {
													isNil = -1
												}
											}
										}
										if nn == 0 {
											return -isNil
										}
										return isNil
									}
								}
								return env.atom(w, v)
							}}
							walked := false
							w.onCall = func(w *walker, call *ssa.Call) {
								if f := staticCallee(&call.Call); f != nil && (f.Name() == "get" || f.Name() == "GetImmutable") {
									walked = true
								}
							}
							ret, stuck := w.run(fn)
							got := "stuck"
							if ret != nil {
								v := stripTrivial(w.resolve(retVal(ret, 0)))
								switch {
								case walked:
									got = "tree-walk"
								case isNilConst(v):
									got = "absent"
								default:
									if call, ok := v.(*ssa.Call); ok {
										if f := staticCallee(&call.Call); f != nil && f.Name() == "GetValue" {
											got = "index-value"
										}
									}
								}
							} else if stuck != nil {
								got = "stuck at " + l.ipos(stuck)
							}
							var want string
							switch {
							case skip, !errNil:
								want = "tree-walk"
							case nodeNil && isLatest:
								want = "absent"
							case nodeNil:
								want = "tree-walk"
							case fresh:
								want = "index-value"
							default:
								want = "tree-walk"
							}
							c.decide("TABLE-index-read", fmt.Sprintf("%s: index off=%v, index read ok=%v, entry absent=%v, version is latest=%v, entry not newer than version=%v", strings.TrimPrefix(spec.name, "*"), skip, errNil, nodeNil, isLatest, fresh), l.pos(fn.Pos()), got == want, got, "answers from `"+got+"`, the staleness guard requires `"+want+"`")
						}
					}
				}
			}
		}
	}
}

// checkVersionGuard (shared by C07 and C05): every answer taken from the fast
// index is dominated by a version guard.  For C05 this is what keeps index
// entries written by an interrupted commit invisible after the reopen at the
// previous version.
func checkVersionGuard(c *Ctx) {
	l := c.L
	c.rule("DOM-version-guard", "indexed answers only under a version guard", 4)
	fVersion := l.Field("", "ImmutableTree", "version")
	if fVersion == nil {
		c.anchorMissing("DOM-version-guard", "ImmutableTree.version")
		return
	}
	getFast := l.Func("", "*nodeDB.GetFastNode")
	getVal := l.Func("fastnode", "*Node.GetValue")
	getVer := l.Func("fastnode", "*Node.GetVersionLastUpdatedAt")
	cachedLatest := l.Func("", "*nodeDB.getCachedLatestVersion")
	if getFast == nil || getVal == nil || getVer == nil || cachedLatest == nil {
		c.anchorMissing("DOM-version-guard", "GetFastNode / fastnode getters / getCachedLatestVersion")
	} else {
		for _, name := range []string{"*ImmutableTree.Get", "*MutableTree.GetVersioned"} {
			fn := l.Func("", name)
			if fn == nil {
				c.anchorMissing("DOM-version-guard", name)
				continue
			}
			isFast := isResultOf(predStatic(getFast), 0)
			isVersion := func(v ssa.Value) bool {
				return isLoadOfField(fVersion)(v) || isParam(fn, "version")(v)
			}
			isVerOfFast := func(v ssa.Value) bool {
				call, ok := v.(*ssa.Call)
				return ok && predStatic(getVer)(&call.Call) && isFast(stripTrivial(call.Call.Args[0]))
			}
			leG := findGuards(fn, cmpMatcher(token.LEQ, isVerOfFast, isVersion, false))
			eqG := findGuards(fn, cmpMatcher(token.EQL, isVersion, isResultOf(predStatic(cachedLatest), -1), false))
			nHit, nAbs := 0, 0
			for _, r := range returnsOf(fn) {
				val := stripTrivial(retVal(r, 0))
				if call, ok := val.(*ssa.Call); ok && predStatic(getVal)(&call.Call) && isFast(stripTrivial(call.Call.Args[0])) {
					nHit++
					c.decide("DOM-version-guard", l.fname(fn)+" returns indexed value", l.ipos(r), guardsEffect(leG, r),
						"dominated by `lastUpdatedAt <= version`", "a value from the index is returned without the `last updated <= queried version` test: a newer value is served for an older version")
					continue
				}
				if !isNilConst(val) || errNilness(retVal(r, 1), r.Block(), 0) >= 0 {
					continue
				}
				// absence: fast node known nil here?
				var fastV ssa.Value
				allInstrs(fn, func(in ssa.Instruction) {
					if e, ok := in.(*ssa.Extract); ok && isFast(e) {
						fastV = e
					}
				})
				if fastV == nil || nilFactAt(fastV, r.Block()) >= 0 {
					continue
				}
				nAbs++
				c.decide("DOM-version-guard", l.fname(fn)+" reports absence from the index", l.ipos(r), guardsEffect(eqG, r),
					"dominated by `version == latest`", "absence is concluded from a missing index entry without the `version == latest` test")
			}
			if nHit == 0 || nAbs == 0 {
				c.anchorMissing("DOM-version-guard", l.fname(fn)+": indexed-hit or indexed-absence return not found")
			}
		}
	}

}

// checkRebuildDecision (shared by C07, C12, C09): rollback-by-overwrite,
// every load and the import reach the index rebuild decision.
func checkRebuildDecision(c *Ctx, rule string) {
	l := c.L
	checkForceUpgradeTable(c, "TABLE-force-rebuild")
	enable := l.Func("", "*MutableTree.enableFastStorageAndCommitIfNotEnabled")
	lvo := l.Func("", "*MutableTree.LoadVersionForOverwriting")
	lv := l.Func("", "*MutableTree.LoadVersion")
	impCommit := l.Func("", "*Importer.Commit")
	if enable == nil || lvo == nil || lv == nil || impCommit == nil {
		c.anchorMissing(rule, "enableFastStorageAndCommitIfNotEnabled / LoadVersionForOverwriting / LoadVersion / Importer.Commit")
	} else {
		isEnable := func(in ssa.Instruction) bool { cc := callCommon(in); return cc != nil && predStatic(enable)(cc) }
		for _, fn := range []*ssa.Function{lvo, lv} {
			q := mustStateE(fn, false, isEnable, nil, fastDisabledEdge)
			ok := true
			var bad *ssa.Return
			for _, r := range successReturns(fn) {
				if !q(r) {
					ok, bad = false, r
				}
			}
			pos := l.pos(fn.Pos())
			if bad != nil {
				pos = l.ipos(bad)
			}
			c.decide(rule, l.fname(fn)+" reaches the rebuild decision", pos, ok, "every success return passes enableFastStorageAndCommitIfNotEnabled or the index-disabled edge", "a success return is reachable with the index enabled and without the rebuild decision: a stale index stays in use")
		}
		q := mustState(impCommit, false, func(in ssa.Instruction) bool { cc := callCommon(in); return cc != nil && predStatic(lv)(cc) }, nil)
		ok := true
		for _, r := range successReturns(impCommit) {
			ok = ok && q(r)
		}
		c.decide(rule, "Importer.Commit loads the imported version (rebuild decision)", l.pos(impCommit.Pos()), ok, "passes LoadVersion", "import can succeed without LoadVersion: the index is never built for the imported tree")
	}
}

// checkIndexCacheOwner (shared by C07 and C06): the in-memory index cache is
// filled only by the read-through lookup and by Commit after the physical
// write returned nil; inside Commit no entry is added after a removal was
// applied (a key queued in both lists — a failed commit followed by a Remove
// and a successful commit — must end up absent: a miss is harmless, a stale
// entry is served as the latest version's value).
func checkIndexCacheOwner(c *Ctx, rule string) {
	l := c.L
	getFast := l.Func("", "*nodeDB.GetFastNode")
	fCache := l.Field("", "nodeDB", "fastNodeCache")
	commit := l.Func("", "*nodeDB.Commit")
	if fCache == nil || commit == nil || getFast == nil {
		c.anchorMissing(rule, "nodeDB.fastNodeCache / Commit")
	} else {
		n := 0
		for _, fn := range l.SrcFuncs {
			allInstrs(fn, func(in ssa.Instruction) {
				cc := callCommon(in)
				if cc == nil || !cc.IsInvoke() || !isLoadOfField(fCache)(cc.Value) {
					return
				}
				m := cc.Method.Name()
				if m != "Add" && m != "Remove" {
					return
				}
				n++
				key := l.fname(fn) + " fastNodeCache." + m
				switch {
				case fn == getFast && m == "Add":
					c.ok(rule, key, l.ipos(in), "read-through fill by the lookup")
				case fn == commit:
					ok := false
					for _, w := range callsIn(commit, isBatchWrite) {
						if cl, isCall := w.(*ssa.Call); isCall && okEdgeDominatesPhi(cl, in) {
							ok = true
						}
					}
					c.decide(rule, key, l.ipos(in), ok, "after the physical write returned nil", "the index cache is updated although the write may have failed")
				default:
					c.bad(rule, key, l.ipos(in), "the index cache is modified outside the lookup and Commit: cache and storage can disagree before the commit")
				}
			})
		}
		if n < 3 {
			c.anchorMissing(rule, "fewer than 3 cache update sites")
		}
		// order inside Commit: additions first, removals last
		isOp := func(name string) func(ssa.Instruction) bool {
			return func(in ssa.Instruction) bool {
				cc := callCommon(in)
				return cc != nil && cc.IsInvoke() && cc.Method.Name() == name && isLoadOfField(fCache)(cc.Value)
			}
		}
		for _, rm := range callsInFn(commit, isOp("Remove")) {
			later := reachableAfter(rm, isOp("Add"), nil)
			msg := ""
			if len(later) > 0 {
				msg = "an index cache entry is added at " + l.ipos(later[0]) + " after the pending removals were applied: a key queued in both lists (failed commit, then Remove) stays cached with the latest version's label"
			}
			c.decide(rule, "nodeDB.Commit applies pending cache removals after the additions", l.ipos(rm), len(later) == 0, "no Add follows a Remove", msg)
		}
	}
}

// callsInFn lists the instructions of fn satisfying pred.
func callsInFn(fn *ssa.Function, pred func(ssa.Instruction) bool) []ssa.Instruction {
	var out []ssa.Instruction
	allInstrs(fn, func(in ssa.Instruction) {
		if pred(in) {
			out = append(out, in)
		}
	})
	return out
}

// checkOverlayMaintenance (shared by C07 and C08): every path that installs a
// new working root records the overlay entry the index-plus-overlay iterator
// and the indexed reads depend on; a completed commit clears the overlay, and
// only after the commit.
func checkOverlayMaintenance(c *Ctx, rule string) {
	l := c.L
	// overlay recording
	set := l.Func("", "*MutableTree.set")
	rsl := l.Func("", "*MutableTree.recursiveSetLeaf")
	rs := l.Func("", "*MutableTree.recursiveSet")
	rem := l.Func("", "*MutableTree.Remove")
	addA := l.Func("", "*MutableTree.addUnsavedAddition")
	addR := l.Func("", "*MutableTree.addUnsavedRemoval")
	fRoot := l.Field("", "ImmutableTree", "root")
	if set == nil || rsl == nil || rs == nil || rem == nil || addA == nil || addR == nil || fRoot == nil {
		c.anchorMissing(rule, "set / recursiveSet / recursiveSetLeaf / Remove / overlay helpers")
	} else {
		isCallTo := func(fs ...*ssa.Function) func(ssa.Instruction) bool {
			p := predStatic(fs...)
			return func(in ssa.Instruction) bool { cc := callCommon(in); return cc != nil && p(cc) }
		}
		// recursiveSetLeaf: every return records the addition
		q := mustStateE(rsl, false, isCallTo(addA), nil, fastDisabledEdge)
		ok := true
		for _, r := range returnsOf(rsl) {
			ok = ok && q(r)
		}
		c.decide(rule, "recursiveSetLeaf records the overlay addition", l.pos(rsl.Pos()), ok, "every return passes addUnsavedAddition or the index-disabled edge", "a leaf can be inserted/replaced without an overlay entry: indexed reads of the working state miss the write")
		// recursiveSet: success returns pass a descent
		q = mustState(rs, false, isCallTo(rs, rsl), nil)
		ok = true
		for _, r := range successReturns(rs) {
			ok = ok && q(r)
		}
		c.decide(rule, "recursiveSet always descends to a leaf insert", l.pos(rs.Pos()), ok, "every success return passes recursiveSet/recursiveSetLeaf", "recursiveSet can return success without reaching the leaf insert that records the overlay")
		// set / Remove: every store of the working root passes a recorder
		for _, fn := range []*ssa.Function{set, rem} {
			rec := isCallTo(addA, addR, rs, rsl)
			q := mustStateE(fn, false, rec, nil, fastDisabledEdge)
			sts := storesToField(fn, fRoot)
			if len(sts) == 0 {
				c.anchorMissing(rule, l.fname(fn)+" stores no root")
			}
			for _, st := range sts {
				// recorder may also follow the store within the same straight-line region: accept if every return reachable from the store passes it
				okk := q(st)
				if !okk {
					q2 := mustStateE(fn, false, rec, nil, fastDisabledEdge)
					okk = true
					searchFrom([]point{after(st)}, func(in ssa.Instruction) bool {
						if r, isRet := in.(*ssa.Return); isRet {
							if !q2(r) {
								okk = false
							}
							return true
						}
						return false
					})
				}
				c.decide(rule, l.fname(fn)+" new root ⇒ overlay entry", l.ipos(st), okk, "the working root changes only together with an overlay entry (or with the index disabled)", "the working root is replaced on a path that records no overlay entry")
			}
		}
	}
	// commit clears overlay
	sv := l.Func("", "*MutableTree.SaveVersion")
	fAdd := l.Field("", "MutableTree", "unsavedFastNodeAdditions")
	fRem := l.Field("", "MutableTree", "unsavedFastNodeRemovals")
	commitFn := l.Func("", "*nodeDB.Commit")
	if sv != nil && fAdd != nil && fRem != nil && commitFn != nil {
		for _, f := range []*types.Var{fAdd, fRem} {
			f := f
			q := mustStateE(sv, false, l.storeOrReset(f, true), nil, fastDisabledEdge)
			passedCommit := mustState(sv, false, func(in ssa.Instruction) bool { cc := callCommon(in); return cc != nil && predStatic(commitFn)(cc) }, nil)
			ok := true
			for _, r := range successReturns(sv) {
				if passedCommit(r) && !q(r) {
					ok = false
				}
			}
			c.decide(rule, "SaveVersion clears "+f.Name()+" after commit", l.pos(sv.Pos()), ok, "cleared on every committed success path", "a committed success path keeps overlay entries: they are written again with the next version")
		}
	}
	// the overlay survives a failed commit: it is not cleared before Commit() returned nil
	if sv != nil && fAdd != nil && fRem != nil && commitFn != nil {
		var commitCall *ssa.Call
		for _, in := range callsIn(sv, predStatic(commitFn)) {
			if cl, ok := in.(*ssa.Call); ok {
				commitCall = cl
			}
		}
		clears := l.newFnReach(func(fn *ssa.Function) bool {
			w := false
			allInstrs(fn, func(in ssa.Instruction) {
				if isStoreToField(in, fAdd, fRem) {
					w = true
				}
			})
			return w && fn != sv
		})
		okEarly := commitCall != nil
		var at ssa.Instruction
		allInstrs(sv, func(in ssa.Instruction) {
			if commitCall == nil {
				return
			}
			isClear := isStoreToField(in, fAdd, fRem) || (callCommon(in) != nil && clears.Instr(in))
			if !isClear {
				return
			}
			// on the idempotent re-save edge nothing was queued; otherwise the clear must follow a successful commit
			if okEdgeDominates(commitCall, in) {
				return
			}
			if reachesInstr(in, commitCall) {
				okEarly, at = false, in
			}
		})
		pos := l.pos(sv.Pos())
		if at != nil {
			pos = l.ipos(at)
		}
		c.decide(rule, "SaveVersion keeps the overlay until the commit succeeded", pos, okEarly, "no overlay reset can precede Commit()", "the overlay of uncommitted index changes is cleared before Commit(): if the commit fails the working tree keeps its changes but indexed iteration / reads of the working state show the last committed state")
	}
}

// reachesInstr: can control flow from instruction a reach instruction b?
func reachesInstr(a, b ssa.Instruction) bool {
	found := false
	searchFrom([]point{after(a)}, func(in ssa.Instruction) bool {
		if in == b {
			found = true
			return true
		}
		return false
	})
	return found
}

// checkFailedRebuildDisablesIndex: when the rebuild of a stale index fails,
// the in-memory storage version is put back to the constant "not indexed"
// value before the error is returned.  Load() has already installed the tree
// at that point; if the in-memory label still says "indexed" (e.g. the label
// of an older version read from disk), indexed reads and iteration serve the
// stale entries until a later Load succeeds.
func checkFailedRebuildDisablesIndex(c *Ctx, rule string) {
	l := c.L
	enable := l.Func("", "*MutableTree.enableFastStorageAndCommitIfNotEnabled")
	efc := l.Func("", "*MutableTree.enableFastStorageAndCommit")
	fSV := l.Field("", "nodeDB", "storageVersion")
	if enable == nil || efc == nil || fSV == nil {
		c.anchorMissing(rule, "enableFastStorageAndCommitIfNotEnabled / enableFastStorageAndCommit / nodeDB.storageVersion")
		return
	}
	for _, in := range callsIn(enable, predStatic(efc)) {
		call, ok := in.(*ssa.Call)
		if !ok {
			continue
		}
		e, has := errorValueOfCall(call)
		if !has || e == nil {
			c.bad(rule, "failed index rebuild disables the index in memory", l.ipos(in), "the rebuild's error is not examined")
			continue
		}
		okAll, found := true, false
		for _, b := range enable.Blocks {
			iff := ifOf(b)
			if iff == nil {
				continue
			}
			v, nn, isNil := nilCond(iff.Cond)
			if !isNil || stripTrivial(v) != e {
				continue
			}
			found = true
			// every return on the error edge is preceded by a store of a CONSTANT into ndb.storageVersion
			searchFrom([]point{blockStart(b.Succs[nn])}, func(x ssa.Instruction) bool {
				if st, isSt := x.(*ssa.Store); isSt && isStoreToField(st, fSV) {
					if _, isK := stripTrivial(st.Val).(*ssa.Const); isK {
						return true
					}
					okAll = false
					return true
				}
				if _, isRet := x.(*ssa.Return); isRet {
					okAll = false
					return true
				}
				return false
			})
		}
		c.decide(rule, "failed index rebuild disables the index in memory", l.ipos(in), found && okAll, "storageVersion reset to the constant default on the error edge",
			"after a failed rebuild the in-memory storage version is not reset to the constant 'not indexed' value (it keeps / restores a label read from disk): the loaded tree goes on serving the stale index")
	}
}

// checkRollbackDropsLabel (shared by C07, C09, C12): erasing versions leaves
// the persisted index describing a version that no longer exists; the label
// that says which version it describes must be dropped or rewritten in the
// same operation, unconditionally: "it will be rebuilt because of the version
// mismatch" fails when the erased version numbers are committed again by a
// session that does not maintain the index (skipFastStorageUpgrade), after
// which label and latest version agree and the stale index is trusted.
func checkRollbackDropsLabel(c *Ctx, rule string) {
	l := c.L
	checkStorageVersionWriters(c, "OWN-storage-version")
	c.rule(rule, "a rollback drops or rewrites the label of the persisted index", 1)
	dvf := l.Func("", "*nodeDB.DeleteVersionsFrom")
	tr := l.Func("", "*nodeDB.traverseRange")
	setLabel := l.Func("", "*nodeDB.SetFastStorageVersionToBatch")
	if dvf == nil || tr == nil || setLabel == nil {
		c.anchorMissing(rule, "nodeDB.DeleteVersionsFrom / traverseRange / SetFastStorageVersionToBatch")
		return
	}
	// the key of the label is whatever SetFastStorageVersionToBatch writes
	labelKey := ""
	allInstrs(setLabel, func(in ssa.Instruction) {
		cc := callCommon(in)
		if cc != nil && cc.IsInvoke() && cc.Method.Name() == "Set" && len(cc.Args) >= 1 {
			labelKey = roleOf(l, cc.Args[0], "", 0)
		}
	})
	if labelKey == "" {
		c.anchorMissing(rule, "SetFastStorageVersionToBatch no longer writes a key")
		return
	}
	guardUpgraded := func(b *ssa.BasicBlock, succ int) bool {
		// the edge on which no index was ever built (hasUpgradedToFastStorage() false) needs no label write
		iff := ifOf(b)
		if iff == nil {
			return false
		}
		call, ok := stripTrivial(iff.Cond).(*ssa.Call)
		if !ok {
			return false
		}
		f := staticCallee(&call.Call)
		return f != nil && f.Name() == "hasUpgradedToFastStorage" && succ == 1
	}
	// a helper all of whose success returns pass a label write counts as one (one level)
	helperWrites := map[*ssa.Function]bool{}
	var isLabelWrite func(in ssa.Instruction) bool
	writesLabel := func(f *ssa.Function) bool {
		if v, ok := helperWrites[f]; ok {
			return v
		}
		helperWrites[f] = false
		if !l.inModule(f) || len(f.Blocks) == 0 {
			return false
		}
		q := mustStateE(f, false, func(in ssa.Instruction) bool {
			cc := callCommon(in)
			if cc == nil {
				return false
			}
			if g := staticCallee(cc); g != nil {
				return g == setLabel
			}
			return cc.IsInvoke() && (cc.Method.Name() == "Delete" || cc.Method.Name() == "Set") && len(cc.Args) >= 1 && roleOf(l, cc.Args[0], "", 0) == labelKey
		}, nil, guardUpgraded)
		ok := len(returnsOf(f)) > 0
		for _, r := range returnsOf(f) {
			if ei := errResultIndex(f.Signature); ei >= 0 && errNilness(retVal(r, ei), r.Block(), 0) > 0 {
				continue
			}
			ok = ok && q(r)
		}
		helperWrites[f] = ok
		return ok
	}
	isLabelWrite = func(in ssa.Instruction) bool {
		cc := callCommon(in)
		if cc == nil {
			return false
		}
		if f := staticCallee(cc); f != nil {
			return f == setLabel || writesLabel(f)
		}
		if cc.IsInvoke() && (cc.Method.Name() == "Delete" || cc.Method.Name() == "Set") && len(cc.Args) >= 1 {
			return roleOf(l, cc.Args[0], "", 0) == labelKey
		}
		return false
	}
	// (a) inside the erase itself
	var erase ssa.Instruction
	for _, in := range callsIn(dvf, predStatic(tr)) {
		if strings.Contains(roleOf(l, callCommon(in).Args[1], "ndb", 0), "nodeKeyPrefixFormat") {
			erase = in
		}
	}
	if erase == nil {
		c.anchorMissing(rule, "no range delete over the node key-space in DeleteVersionsFrom")
		return
	}
	inside := true
	{
		q := mustStateE(dvf, false, isLabelWrite, nil, guardUpgraded)
		for _, r := range reachableAfter(erase, func(in ssa.Instruction) bool { _, ok := in.(*ssa.Return); return ok }, nil) {
			ret := r.(*ssa.Return)
			if errNilness(retVal(ret, errResultIndex(dvf.Signature)), ret.Block(), 0) > 0 {
				continue
			}
			if !q(ret) {
				inside = false
			}
		}
	}
	if inside {
		c.ok(rule, "the erase of versions drops the index label", l.ipos(erase), "every success return of DeleteVersionsFrom after the range delete passes a write of the storage-version label (or the edge on which no index exists)")
		return
	}
	// (b) every caller does it, unconditionally, after the call
	callers := 0
	var bad ssa.Instruction
	for _, e := range l.callersOf(dvf) {
		fn := e.Caller.Func
		if fn == nil || !l.inModule(fn) || e.Site == nil {
			continue
		}
		for _, cs := range []ssa.Instruction{e.Site} {
			callers++
			// (the rebuild decision is not accepted here: it relies on the very mismatch this rule is about,
			// and a stop between the rollback commit and the rebuild leaves the old label in place)
			cs := cs
			q := mustState(fn, false, isLabelWrite, func(in ssa.Instruction) bool { return in == cs })
			for _, r := range reachableAfter(cs, func(in ssa.Instruction) bool { _, ok := in.(*ssa.Return); return ok }, nil) {
				ret := r.(*ssa.Return)
				if ei := errResultIndex(fn.Signature); ei >= 0 && errNilness(retVal(ret, ei), ret.Block(), 0) > 0 {
					continue
				}
				if !q(ret) && bad == nil {
					bad = cs
				}
			}
		}
	}
	if callers > 0 && bad == nil {
		c.ok(rule, "the erase of versions drops the index label", l.ipos(erase), "every caller of DeleteVersionsFrom writes the storage-version label on every success path after it")
		return
	}
	pos := l.ipos(erase)
	if bad != nil {
		pos = l.ipos(bad)
	}
	c.bad(rule, "the erase of versions drops the index label", pos, "versions are erased without the label of the persisted index being dropped or rewritten (neither in DeleteVersionsFrom nor, unconditionally, by its callers): the index keeps describing the erased latest version, and when a session that does not maintain the index (skipFastStorageUpgrade) commits the erased version numbers again, label and latest version agree and a later session serves the stale index (Get != tree walk)")
}

// checkForceUpgradeTable (shared by C07, C09, C10, C12): with a labelled index
// (two-part storage version) the answer "no rebuild needed" is given only on
// the edge where the label's version equals the latest version.  Import,
// rollback and re-enabling all rely on the mismatch to trigger the rebuild.
func checkForceUpgradeTable(c *Ctx, rule string) {
	l := c.L
	c.rule(rule, "a labelled index is kept only when its label equals the latest version", 1)
	fn := l.Func("", "*nodeDB.shouldForceFastStorageUpgrade")
	if fn == nil {
		c.anchorMissing(rule, "nodeDB.shouldForceFastStorageUpgrade")
		return
	}
	var eq []guard   // pass = label == latest
	var two []guard  // pass = two-part label
	for _, b := range fn.Blocks {
		iff := ifOf(b)
		if iff == nil {
			continue
		}
		bo, ok := stripTrivial(iff.Cond).(*ssa.BinOp)
		if !ok || (bo.Op != token.EQL && bo.Op != token.NEQ) {
			continue
		}
		rx, ry := roleOf(l, bo.X, "ndb", 0), roleOf(l, bo.Y, "ndb", 0)
		if os.Getenv("VERIF_DEBUG") != "" {
			fmt.Fprintln(os.Stderr, "DEBUG force-table", bo.Op, rx, "|", ry)
		}
		pass := 0
		if bo.Op == token.NEQ {
			pass = 1
		}
		switch {
		case (strings.Contains(rx, "Itoa(") && strings.Contains(rx, "getLatestVersion")) || (strings.Contains(ry, "Itoa(") && strings.Contains(ry, "getLatestVersion")):
			eq = append(eq, guard{iff, pass})
		case strings.HasPrefix(rx, "len(") && ry == "2", strings.HasPrefix(ry, "len(") && rx == "2":
			two = append(two, guard{iff, pass})
		}
	}
	if len(eq) == 0 || len(two) == 0 {
		c.anchorMissing(rule, "label/latest comparison or two-part test in shouldForceFastStorageUpgrade")
		return
	}
	ok := true
	var bad ssa.Instruction
	for _, r := range returnsOf(fn) {
		k, isC := stripTrivial(retVal(r, 0)).(*ssa.Const)
		if !isC || k.Value == nil || k.Value.String() != "false" {
			continue
		}
		if errNilness(retVal(r, 1), r.Block(), 0) > 0 {
			continue
		}
		if guardsEffect(two, r) && !guardsEffect(eq, r) {
			ok, bad = false, r
		}
	}
	pos := l.pos(fn.Pos())
	if bad != nil {
		pos = l.ipos(bad)
	}
	c.decide(rule, "shouldForceFastStorageUpgrade: no rebuild ⇒ label == latest", pos, ok, "every `false, nil` for a labelled index is on the equality edge",
		"a labelled index is declared up to date without its label having been found equal to the latest version: import into a loaded empty store, rollback and re-enabling rely on the mismatch to rebuild the index, and serve an empty or stale index otherwise")
}

// checkStorageVersionWriters (shared by C07, C09): the in-memory copy of the
// index label (nodeDB.storageVersion) follows the persisted one: it is written
// only where the persisted label is written in the same function, at
// construction (read from storage), or by the documented reset after a failed
// rebuild.  Anything else makes "is there an index, and which version does it
// describe" a different answer in memory than on disk — and the rollback's
// label drop, the rebuild decision and the version guards all read the
// in-memory copy.
func checkStorageVersionWriters(c *Ctx, rule string) {
	l := c.L
	c.rule(rule, "the in-memory index label is written only together with the persisted one", 2)
	fSV := l.Field("", "nodeDB", "storageVersion")
	setLabel := l.Func("", "*nodeDB.SetFastStorageVersionToBatch")
	rebuild := l.Func("", "*MutableTree.enableFastStorageAndCommit")
	if fSV == nil || setLabel == nil || rebuild == nil {
		c.anchorMissing(rule, "nodeDB.storageVersion / SetFastStorageVersionToBatch / enableFastStorageAndCommit")
		return
	}
	labelKey := ""
	allInstrs(setLabel, func(in ssa.Instruction) {
		cc := callCommon(in)
		if cc != nil && cc.IsInvoke() && cc.Method.Name() == "Set" && len(cc.Args) >= 1 {
			labelKey = roleOf(l, cc.Args[0], "", 0)
		}
	})
	n := 0
	for _, fn := range l.SrcFuncs {
		if l.pkgPathOf(fn) != l.ModPath {
			continue
		}
		for _, st := range storesToField(fn, fSV) {
			if _, isAl := stripTrivial(st.Addr.(*ssa.FieldAddr).X).(*ssa.Alloc); isAl {
				continue // constructor literal: read from storage
			}
			n++
			ok, why := false, ""
			allInstrs(fn, func(in ssa.Instruction) {
				cc := callCommon(in)
				if cc == nil {
					return
				}
				if cc.IsInvoke() && (cc.Method.Name() == "Set" || cc.Method.Name() == "Delete") && len(cc.Args) >= 1 && roleOf(l, cc.Args[0], "", 0) == labelKey {
					ok, why = true, "the persisted label is written in the same function"
				}
			})
			if !ok {
				// a setter helper: every caller writes the persisted label
				if edges := l.callersOf(fn); len(edges) > 0 {
					all := true
					for _, e := range edges {
						has := false
						if e.Caller.Func != nil {
							allInstrs(e.Caller.Func, func(in ssa.Instruction) {
								cc := callCommon(in)
								if cc != nil && cc.IsInvoke() && (cc.Method.Name() == "Set" || cc.Method.Name() == "Delete") && len(cc.Args) >= 1 && roleOf(l, cc.Args[0], "", 0) == labelKey {
									has = true
								}
							})
						}
						all = all && has
					}
					if all {
						ok, why = true, "setter helper: every caller writes the persisted label"
					}
				}
			}
			if !ok {
				// the reset after a failed rebuild: on the error edge of enableFastStorageAndCommit
				for _, in := range callsIn(fn, predStatic(rebuild)) {
					if cl, isCall := in.(*ssa.Call); isCall && instrDominates(cl, st) && !okEdgeDominates(cl, st) {
						ok, why = true, "reset after the rebuild failed"
					}
				}
			}
			c.decide(rule, l.fname(fn)+" writes nodeDB.storageVersion", l.ipos(st), ok, why,
				"the in-memory index label is changed without the persisted label being written in the same function: memory and storage now disagree on whether an index exists and which version it describes (the rollback's label drop, the rebuild decision and IsFastCacheEnabled read the in-memory copy)")
		}
	}
	if n < 2 {
		c.anchorMissing(rule, "fewer than 2 writers of nodeDB.storageVersion")
	}
}

// checkIndexPurgeClosesIterator (C07, C09): the purge of a stale index deletes
// through the flushing batch wrapper; the store contract forbids writes while
// an iterator is open (MemDB blocks them for good), so no deletion may be
// reachable from the creation of the purge's iterator without passing its
// explicit Close.
func checkIndexPurgeClosesIterator(c *Ctx, rule string) {
	l := c.L
	c.rule(rule, "the index purge deletes only after closing its iterator", 1)
	fn := l.Func("", "*MutableTree.enableFastStorageAndCommitIfNotEnabled")
	nfi := l.Func("", "NewFastIterator")
	del := l.Func("", "*nodeDB.DeleteFastNode")
	if fn == nil || nfi == nil || del == nil {
		c.anchorMissing(rule, "enableFastStorageAndCommitIfNotEnabled / NewFastIterator / DeleteFastNode")
		return
	}
	n := 0
	for _, in := range callsIn(fn, predStatic(nfi)) {
		itv, ok := in.(ssa.Value)
		if !ok {
			continue
		}
		n++
		var bad ssa.Instruction
		searchFrom([]point{after(in)}, func(x ssa.Instruction) bool {
			cc := callCommon(x)
			if cc == nil {
				return false
			}
			if _, isDefer := x.(*ssa.Defer); !isDefer {
				if g := staticCallee(cc); g != nil && g.Name() == "Close" && len(cc.Args) > 0 && stripTrivial(cc.Args[0]) == itv {
					return true
				}
			}
			if g := staticCallee(cc); g == del && bad == nil {
				bad = x
			}
			return false
		})
		pos := l.ipos(in)
		if bad != nil {
			pos = l.ipos(bad)
		}
		c.decide(rule, "enableFastStorageAndCommitIfNotEnabled deletes stale fast nodes after closing the iterator", pos, bad == nil, "every deletion is behind the iterator's Close",
			"the purge of the stale index deletes (through the batch wrapper, which writes the batch when it exceeds the flush threshold) while its iterator over the index is open: the store contract forbids that and MemDB blocks the write for good — with the default options LoadVersionForOverwriting / Load of a store with more than ~100 kB of index keys never returns")
	}
	if n == 0 {
		c.anchorMissing(rule, "no NewFastIterator in enableFastStorageAndCommitIfNotEnabled")
	}
}
