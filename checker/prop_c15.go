package main

import (
	"fmt"
	"go/token"
	"strings"

	"golang.org/x/tools/go/ssa"
)

func init() {
	register(&propCheck{id: "C15", needRoot: true, run: checkC15,
		explanation: "Decided statically, for SaveChangeSet only (narrow): the uncommitted-changes test is evaluated before any Set/Remove/SaveVersion and its failing edge leaves with an error; on the `key was not removed` edge an error is returned without reaching SaveVersion or another write; every success return passes exactly one SaveVersion call, which is outside the loop and followed by no Set/Remove; the change-set extraction consults both node iterators' errors. Added in the build round: every version of the requested range is diffed against its predecessor, and the previous root handed to the diff is the root looked up for start-1 on entry and the carried root afterwards (never nil / unrelated); decision table of the orphaned-leaf / new-leaf merge (TABLE-diff-merge). NOT decided: that an extracted change set equals the net writes of a version, its order and de-duplication, or replay equality — all value-level. Rules added in the later seeding rounds (each listed with what it decides in this file's rule table) are described in DESIGN.md §3 \"Third and fourth seeding rounds\" and Appendix C3–C5."})
}

func checkC15(c *Ctx) {
	l := c.L
	c.rule("DOM-dirty-guard", "uncommitted-changes test precedes every write", 3)
	c.rule("DOM-remove-missing", "removal of a missing key is an error before SaveVersion", 1)
	c.rule("PASS-one-saveversion", "exactly one SaveVersion on every success path, after the loop", 3)
	c.rule("ERR-E3-iterator", "change-set extraction consults the node iterators' errors", 2)

	scs := l.Func("", "*MutableTree.SaveChangeSet")
	Set := l.Func("", "*MutableTree.Set")
	Rem := l.Func("", "*MutableTree.Remove")
	SV := l.Func("", "*MutableTree.SaveVersion")
	fRoot := l.Field("", "ImmutableTree", "root")
	fNK := l.Field("", "Node", "nodeKey")
	if scs == nil || Set == nil || Rem == nil || SV == nil || fRoot == nil || fNK == nil {
		c.anchorMissing("DOM-dirty-guard", "SaveChangeSet / Set / Remove / SaveVersion / root / nodeKey")
		return
	}
	writes := predStatic(Set, Rem, SV)
	isWrite := func(in ssa.Instruction) bool {
		cc := callCommon(in)
		return cc != nil && writes(cc)
	}
	// dirty guard: If(root != nil) dominating all writes, then If(nodeKey == nil) → error
	g1 := findGuards(scs, nilTestMatcher(isLoadOfField(fRoot), true))
	g2 := findGuards(scs, nilTestMatcher(isLoadOfField(fNK), true)) // pass when nodeKey != nil
	wcalls := callsIn(scs, writes)
	if len(g1) == 0 || len(g2) == 0 {
		c.bad("DOM-dirty-guard", "SaveChangeSet dirty-tree test", l.pos(scs.Pos()), "the `root != nil && root.nodeKey == nil` test is gone")
	} else {
		for _, w := range wcalls {
			dom := false
			for _, g := range g1 {
				if g.iff.Block().Dominates(w.Block()) {
					dom = true
				}
			}
			// and the nodeKey test is not bypassed: w not reachable from g2's fail edge
			c.decide("DOM-dirty-guard", "SaveChangeSet write "+l.calleeName(w), l.ipos(w), dom, "the dirty-tree test is evaluated before this call on every path", "a write is reachable without evaluating the dirty-tree test")
		}
		for _, g := range g2 {
			ok, why := failEdgeLeavesWithError(scs, g, isWrite)
			c.decide("DOM-dirty-guard", "SaveChangeSet dirty exit", l.ipos(g.iff), ok, "uncommitted changes ⇒ error, nothing written", why)
		}
	}
	// !removed
	remPred := predStatic(Rem)
	isRemoved := isResultOf(remPred, 1)
	g3 := findGuards(scs, func(cond ssa.Value) (bool, int) {
		v := stripTrivial(cond)
		if isRemoved(v) {
			return true, 0
		}
		if u, ok := v.(*ssa.UnOp); ok && u.Op == token.NOT && isRemoved(stripTrivial(u.X)) {
			return true, 1
		}
		return false, 0
	})
	if len(g3) == 0 {
		c.bad("DOM-remove-missing", "SaveChangeSet !removed exit", l.pos(scs.Pos()), "the result `removed` of Remove is no longer tested")
	}
	for _, g := range g3 {
		ok, why := failEdgeLeavesWithError(scs, g, isWrite)
		c.decide("DOM-remove-missing", "SaveChangeSet !removed exit", l.ipos(g.iff), ok, "removing a missing key ⇒ error, no further write, no SaveVersion", why)
	}
	// exactly one SaveVersion
	svCalls := callsIn(scs, predStatic(SV))
	c.decide("PASS-one-saveversion", "SaveChangeSet SaveVersion call sites", l.pos(scs.Pos()), len(svCalls) == 1, "one call site", "SaveVersion call sites != 1")
	if len(svCalls) == 1 {
		sv := svCalls[0]
		inLoop := false
		searchFrom([]point{after(sv)}, func(in ssa.Instruction) bool {
			if in == sv {
				inLoop = true
			}
			return false
		})
		c.decide("PASS-one-saveversion", "SaveChangeSet SaveVersion outside loop", l.ipos(sv), !inLoop, "not on a cycle", "SaveVersion is inside the loop: one version per pair")
		after := reachableAfter(sv, func(in ssa.Instruction) bool { cc := callCommon(in); return cc != nil && predStatic(Set, Rem)(cc) }, nil)
		c.decide("PASS-one-saveversion", "SaveChangeSet no write after SaveVersion", l.ipos(sv), len(after) == 0, "no Set/Remove after SaveVersion", "Set/Remove reachable after SaveVersion")
		passed := mustState(scs, false, func(in ssa.Instruction) bool { return in == sv }, nil)
		for _, r := range successReturns(scs) {
			c.decide("PASS-one-saveversion", "SaveChangeSet success return passes SaveVersion", l.ipos(r), passed(r), "passes SaveVersion", "a success return does not pass SaveVersion")
		}
	}
	c.rule("PASS-extract-every-version", "each version of the requested range is diffed against its predecessor", 1)
	tsc := l.Func("", "*nodeDB.traverseStateChanges")
	esc0 := l.Func("", "*nodeDB.extractStateChanges")
	if tsc == nil || esc0 == nil {
		c.anchorMissing("PASS-extract-every-version", "traverseStateChanges / extractStateChanges")
	} else {
		found, ok, _ := loopBodyMustPass(tsc, func(in ssa.Instruction) bool { cc := callCommon(in); return cc != nil && predStatic(esc0)(cc) })
		c.decide("PASS-extract-every-version", "traverseStateChanges diffs every version", l.pos(tsc.Pos()), found && ok, "every iteration of the version loop calls extractStateChanges", "the version loop can deliver a change set without diffing the two roots (e.g. a shortcut for reference roots): removals that collapse the root are lost")
	}
	if tsc != nil && esc0 != nil {
		// the (previous version, previous root) pair handed to the diff is always a version together with ITS root:
		// the root looked up for startVersion-1, or the root of the iteration before
		for _, in := range callsIn(tsc, predStatic(esc0)) {
			cc := callCommon(in)
			getRoot := l.Func("", "*nodeDB.GetRoot")
			isGetRoot := func(v ssa.Value) bool { return getRoot != nil && isResultOf(predStatic(getRoot), 0)(v) }
			cur := stripTrivial(cc.Args[3])
			okRoot := false
			root := "not a phi"
			if phi, isPhi := stripTrivial(cc.Args[2]).(*ssa.Phi); isPhi {
				nEntry, nLoop, nOther := 0, 0, 0
				for _, e := range phi.Edges {
					e = stripTrivial(e)
					switch {
					case e == ssa.Value(phi):
					case e == cur:
						nLoop++
					case isGetRoot(e):
						nEntry++
					default:
						nOther++
					}
				}
				okRoot = nEntry == 1 && nLoop >= 1 && nOther == 0 && isGetRoot(cur)
				root = fmt.Sprintf("phi with %d entry lookups, %d carried roots, %d other values (nil / unrelated)", nEntry, nLoop, nOther)
			}
			ver := "-"
			c.decide("PASS-extract-every-version", "traverseStateChanges diffs against the root of the predecessor", l.ipos(in), okRoot,
				"previous root = GetRoot(start-1) on entry, the current root afterwards", "the previous root handed to the diff is `"+root+"` (previous version `"+ver+"`): for some start of the range the predecessor's root is not loaded, and the first change set is computed against an empty tree")
		}
	}
	checkDiffMergeTable(c)
	checkDecodedValueNonNil(c)
	c.rule("PASS-root-record", "the roots that are diffed come from the stored root records", 2)
	checkRootRecord(c, "PASS-root-record")
	// a rejected change set is discarded with Rollback: everything it applied must go, also the pending index removals
	checkRollbackFrame(c)
	// shared subtrees of two versions are recognised by hash (node keys are not an identity across the legacy boundary or after re-keying)
	c.rule("DOM-shared-by-hash", "the diff skips a subtree as shared only on pointer or hash equality", 1)
	if escF := l.Func("", "*nodeDB.extractStateChanges"); escF != nil {
		checkSharedByHash(c, "DOM-shared-by-hash", escF, func(v ssa.Value) bool {
			// the iterator over the previous version's tree (first NewNodeIterator: prevRoot = arg1)
			return strings.Contains(roleOf(l, v, "", 0), "NewNodeIterator(arg1")
		})
	}
	ea := newErrAnalysis(c, l)
	c.rule("ERR-extraction", "storage errors inside the node walk and the change-set extraction are not dropped", 10)
	ea.runE1E2E4("ERR-extraction", "ERR-extraction", "ERR-extraction", func(fn *ssa.Function) bool {
		top := fn
		for top.Parent() != nil {
			top = top.Parent()
		}
		if r := top.Signature.Recv(); r != nil {
			if n := derefNamed(r.Type()); n != nil && n.Obj().Name() == "NodeIterator" {
				return true
			}
		}
		switch top.Name() {
		case "extractStateChanges", "traverseStateChanges", "NewNodeIterator":
			return true
		}
		return false
	})
	esc := l.Func("", "*nodeDB.extractStateChanges")
	ea.runE3("ERR-E3-iterator", func(fn *ssa.Function) bool {
		for f := fn; f != nil; f = f.Parent() {
			if f == esc {
				return true
			}
		}
		return false
	})
}

// checkDiffMergeTable: the merge of "leaf orphaned in v-1" against "new leaves
// of v" (keys are touched only through one comparison) is walked for every
// ordering and for an empty / non-empty list of pending new leaves.
//   orphaned > new  : emit the new leaf as a write, consume it, look at the next new leaf
//   orphaned < new  : emit a deletion of the orphaned key, keep the new leaf
//   orphaned == new : emit the new leaf as a write (update), consume it
//   no new leaves   : emit a deletion
func checkDiffMergeTable(c *Ctx) {
	l := c.L
	c.rule("TABLE-diff-merge", "change-set merge of orphaned leaves against new leaves, over all orderings", 6)
	esc := l.Func("", "*nodeDB.extractStateChanges")
	if esc == nil {
		c.anchorMissing("TABLE-diff-merge", "extractStateChanges")
		return
	}
	var merge *ssa.Function
	for _, af := range esc.AnonFuncs {
		if len(af.Params) == 1 && len(callsIn(af, predFuncString("bytes.Compare"))) > 0 {
			merge = af
		}
	}
	if merge == nil {
		c.anchorMissing("TABLE-diff-merge", "orphaned-leaf merge closure")
		return
	}
	write := "receiver({Key=free0[i].key Value=free0[i].value})"
	del := "receiver({Delete=true Key=arg0.key})"
	for _, nonEmpty := range []bool{true, false} {
		for _, ord := range []int{-1, 0, 1} {
			ord, nonEmpty := ord, nonEmpty
			env := &tableEnv{l: l, flag: map[string]int{}, cmp: func(a, b string) (int, bool) {
				if a == "arg0.key" {
					return ord, true
				}
				if b == "arg0.key" {
					return -ord, true
				}
				return 0, false
			}}
			env.ints = func(v ssa.Value, role string) (int64, bool) {
				if strings.HasPrefix(role, "len(") {
					if nonEmpty {
						return 1, true
					}
					return 0, true
				}
				return 0, false
			}
			run := runTableS(merge, env, func(call *ssa.Call) string {
				if staticCallee(&call.Call) == nil {
					if _, isB := call.Call.Value.(*ssa.Builtin); isB {
						return ""
					}
					return "receiver(" + literalRoles(l, call.Call.Args[0], "") + ")"
				}
				return ""
			}, func(st *ssa.Store) string {
				if _, ok := st.Addr.(*ssa.FreeVar); ok {
					if _, isSl := stripTrivial(st.Val).(*ssa.Slice); isSl {
						return "consume"
					}
				}
				return ""
			})
			got := strings.Join(run.events, " ; ")
			if run.ret != nil {
				got += " ; return"
			}
			var ws string
			switch {
			case !nonEmpty, ord < 0:
				ws = del + " ; return"
			case ord == 0:
				ws = "consume ; " + write + " ; return"
			default:
				ws = "consume ; " + write + " ; <loop>"
			}
			name := map[int]string{-1: "orphaned < new", 0: "orphaned == new", 1: "orphaned > new"}[ord]
			c.decide("TABLE-diff-merge", fmt.Sprintf("merge: %s, pending new leaves=%v", name, nonEmpty), l.pos(merge.Pos()), got == ws, got, "does `"+got+"`, the rule is `"+ws+"`")
		}
	}
}

// checkDecodedValueNonNil (shared by C15, C13, C10, C01): MakeNode keeps a
// decoded zero-length value an empty, non-nil slice.
func checkDecodedValueNonNil(c *Ctx) {
	l := c.L
	c.rule("NONNIL-decoded-value", "a leaf value decoded from storage is never turned into nil (an empty value must replay as an empty value)", 1)
	if mk := l.Func("", "MakeNode"); mk == nil {
		c.anchorMissing("NONNIL-decoded-value", "MakeNode")
	} else if fVal := l.Field("", "Node", "value"); fVal != nil {
		var mayNil func(v ssa.Value, d int) bool
		mayNil = func(v ssa.Value, d int) bool {
			if d > 8 {
				return true
			}
			switch x := stripTrivial(v).(type) {
			case *ssa.Const:
				return x.IsNil()
			case *ssa.MakeSlice:
				return false
			case *ssa.Extract:
				if call, ok := x.Tuple.(*ssa.Call); ok {
					if f := staticCallee(&call.Call); f != nil && f.Name() == "DecodeBytes" {
						return false // contract of the primitive (decided under C13): a fresh, non-nil slice on success
					}
				}
				return true
			case *ssa.Call:
				if b, ok := x.Call.Value.(*ssa.Builtin); ok && b.Name() == "append" {
					return mayNil(x.Call.Args[0], d+1)
				}
				return true
			case *ssa.Slice:
				return mayNil(x.X, d+1)
			case *ssa.Convert:
				return mayNil(x.X, d+1)
			case *ssa.Phi:
				for _, e := range x.Edges {
					if mayNil(e, d+1) {
						return true
					}
				}
				return false
			}
			return true
		}
		for _, st := range storesToField(mk, fVal) {
			c.decide("NONNIL-decoded-value", "MakeNode keeps a decoded (possibly empty) value non-nil", l.ipos(st), !mayNil(st.Val, 0), "the decoded slice, or a copy that cannot be nil", "the value stored into the decoded leaf is `"+roleOf(l, st.Val, "", 0)+"`, which is nil for a zero-length value: the extracted change set carries a nil value and its replay is rejected (\"attempt to store nil value\")")
		}
	}
}
