package main

import (
	"fmt"
	"go/constant"
	"go/token"
	"go/types"
	"sort"
	"strings"

	"golang.org/x/tools/go/ssa"
)

const corestorePkg = "cosmossdk.io/core/store"

// storageOps are the calls the property quantifies faults over: reads,
// iterator creation/step (step failures surface through Error()), batch
// mutation and batch write.
func storageOpsPred() CallPred {
	return predInvoke(corestorePkg, "Get", "Has", "Iterator", "ReverseIterator", "Set", "Delete", "Write", "WriteSync", "Error")
}

type errUse struct {
	checked  []*ssa.If // nil-tests of the error
	returned bool
	stored   bool
	sent     bool
	passed   bool // handed to a non-logging, non-matching call
	wrapped  bool // flowed into fmt.Errorf (followed)
	logged   bool
	matched  bool // errors.Is/As or comparison with a sentinel
	matchAt  []ssa.Instruction
	panicked bool
}

func (u *errUse) real() bool {
	return len(u.checked) > 0 || u.returned || u.stored || u.sent || u.passed || u.panicked
}

type errAnalysis struct {
	c        *Ctx
	l        *Loaded
	storage  *Reach
	lossy    map[*ssa.Function]string // functions without error result that lose a storage error: reason
	inScope  func(fn *ssa.Function) bool
	isLogger func(c *ssa.CallCommon) bool
}

func newErrAnalysis(c *Ctx, l *Loaded) *errAnalysis {
	return newErrAnalysisWith(c, l, storageOpsPred())
}

// newErrAnalysisWith: ERR rules with a caller-supplied notion of "storage operation".
func newErrAnalysisWith(c *Ctx, l *Loaded, ops CallPred) *errAnalysis {
	ea := &errAnalysis{c: c, l: l, lossy: map[*ssa.Function]string{}}
	ea.storage = l.newReach(ops)
	ea.isLogger = func(cc *ssa.CallCommon) bool {
		if cc.IsInvoke() {
			if n := derefNamed(cc.Value.Type()); n != nil && n.Obj().Name() == "Logger" {
				return true
			}
		}
		if f := staticCallee(cc); f != nil {
			s := f.String()
			if strings.HasPrefix(s, "fmt.Print") || strings.HasPrefix(s, "fmt.Fprint") || strings.HasPrefix(s, "log.") || strings.HasPrefix(s, "fmt.Sprint") {
				return true
			}
			if r := f.Signature.Recv(); r != nil {
				if n := derefNamed(r.Type()); n != nil && strings.Contains(n.Obj().Name(), "ogger") {
					return true
				}
			}
		}
		return false
	}
	return ea
}

// errorValueOfCall returns the SSA value carrying the error result of call
// (nil if the result is never extracted) and whether the callee has one.
func errorValueOfCall(call *ssa.Call) (v ssa.Value, has bool) {
	sig := call.Call.Signature()
	idx := errResultIndex(sig)
	if idx < 0 {
		return nil, false
	}
	if sig.Results().Len() == 1 {
		return call, true
	}
	if e := extractOf(call, idx); e != nil {
		return e, true
	}
	return nil, true
}

// usesOf classifies every use of error value e (following phis, interface
// conversions, wrapping with fmt.Errorf and variadic packing).
func (ea *errAnalysis) usesOf(e ssa.Value) *errUse {
	u := &errUse{}
	seen := map[ssa.Value]bool{}
	var walk func(v ssa.Value)
	callUse := func(in ssa.Instruction, cc *ssa.CallCommon) {
		if f := staticCallee(cc); f != nil {
			switch f.String() {
			case "errors.Is", "errors.As":
				u.matched = true
				u.matchAt = append(u.matchAt, in)
				return
			case "fmt.Errorf", "errors.Join":
				u.wrapped = true
				if v, ok := in.(ssa.Value); ok {
					walk(v)
				}
				return
			}
		}
		if ea.isLogger(cc) {
			u.logged = true
			return
		}
		u.passed = true
	}
	walk = func(v ssa.Value) {
		if v == nil || seen[v] {
			return
		}
		seen[v] = true
		for _, r := range refs(v) {
			switch x := r.(type) {
			case *ssa.DebugRef:
			case *ssa.Phi:
				walk(x)
			case *ssa.ChangeInterface:
				walk(x)
			case *ssa.MakeInterface:
				walk(x)
			case *ssa.TypeAssert:
				u.matched = true
				u.matchAt = append(u.matchAt, x)
			case *ssa.Return:
				u.returned = true
			case *ssa.Send:
				u.sent = true
			case *ssa.Panic:
				u.panicked = true
			case *ssa.Store:
				if x.Val != v {
					continue
				}
				// variadic packing: store into element of a local array
				if ia, ok := x.Addr.(*ssa.IndexAddr); ok {
					if al, ok := ia.X.(*ssa.Alloc); ok {
						for _, ar := range refs(al) {
							if sl, ok := ar.(*ssa.Slice); ok {
								for _, sr := range refs(sl) {
									if cc := callCommon(sr); cc != nil {
										callUse(sr, cc)
									}
								}
							}
						}
						continue
					}
				}
				// store into a local slot (named result / captured variable): follow loads
				if al, ok := x.Addr.(*ssa.Alloc); ok {
					followed := false
					for _, ar := range refs(al) {
						if ld, ok := ar.(*ssa.UnOp); ok && ld.Op == token.MUL {
							walk(ld)
							followed = true
						}
					}
					if al.Heap || !followed {
						u.stored = true // escapes (closure / result slot)
					}
					continue
				}
				u.stored = true
			case *ssa.BinOp:
				if x.Op == token.EQL || x.Op == token.NEQ {
					other := x.X
					if other == v {
						other = x.Y
					}
					if isNilConst(other) {
						for _, br := range refs(x) {
							if iff, ok := br.(*ssa.If); ok {
								u.checked = append(u.checked, iff)
							}
						}
						// `err == nil && has` style value use
						for _, br := range refs(x) {
							switch br.(type) {
							case *ssa.If, *ssa.DebugRef:
							default:
								u.checked = append(u.checked, nil)
							}
						}
					} else {
						u.matched = true
						u.matchAt = append(u.matchAt, x)
					}
				}
			case *ssa.Call, *ssa.Defer, *ssa.Go:
				cc := callCommon(r)
				callUse(r, cc)
			case *ssa.MakeClosure:
				u.stored = true
			case *ssa.Extract:
				walk(x)
			default:
				u.passed = true
			}
		}
	}
	walk(e)
	return u
}

// derivedFrom: does value v derive from error e (through phi / wrap)?
func derivedFrom(v, e ssa.Value) bool {
	seen := map[ssa.Value]bool{}
	var walk func(x ssa.Value) bool
	walk = func(x ssa.Value) bool {
		if x == nil || seen[x] {
			return false
		}
		seen[x] = true
		if x == e {
			return true
		}
		switch t := x.(type) {
		case *ssa.Phi:
			for _, ed := range t.Edges {
				if walk(ed) {
					return true
				}
			}
		case *ssa.ChangeInterface:
			return walk(t.X)
		case *ssa.MakeInterface:
			return walk(t.X)
		case *ssa.Call:
			if f := staticCallee(&t.Call); f != nil && (f.String() == "fmt.Errorf" || f.String() == "errors.Join") {
				for _, a := range t.Call.Args {
					if walk(a) {
						return true
					}
				}
			}
		case *ssa.Slice:
			return walk(t.X)
		case *ssa.Alloc:
			// variadic array: any element store of e
			for _, r := range refs(t) {
				if ia, ok := r.(*ssa.IndexAddr); ok {
					for _, rr := range refs(ia) {
						if st, ok := rr.(*ssa.Store); ok && walk(st.Val) {
							return true
						}
					}
				}
			}
		}
		return false
	}
	return walk(v)
}

// swallowPaths: from the non-nil edge of a nil test on e, find Returns whose
// error operand is the nil constant (success) reachable without passing a
// specific match of e.  Returns the offending Return instructions.
func (ea *errAnalysis) swallowPaths(fn *ssa.Function, e ssa.Value, iff *ssa.If, u *errUse) []*ssa.Return {
	_, nn, ok := nilCond(iff.Cond)
	if !ok {
		return nil
	}
	errIdx := errResultIndex(fn.Signature)
	matchSet := map[ssa.Instruction]bool{}
	for _, m := range u.matchAt {
		matchSet[m] = true
	}
	var bad []*ssa.Return
	start := iff.Block().Succs[nn]
	// reachable blocks from the error edge
	reach := map[*ssa.BasicBlock]bool{}
	searchFrom([]point{blockStart(start)}, func(in ssa.Instruction) bool {
		reach[in.Block()] = true
		if matchSet[in] {
			return true
		}
		// a reassignment check: a new nil-test of the same e that dominates… ignore
		if r, ok := in.(*ssa.Return); ok {
			if errIdx < 0 {
				return true
			}
			if isRecoverReturn(r) {
				return true
			}
			op := retVal(r, errIdx)
			if derivedFrom(op, e) {
				return true
			}
			if ea.mayBeNilConstVia(op, reach, 0) && !ea.fallbackRecomputes(r, errIdx, reach) {
				bad = append(bad, r)
			}
			return true
		}
		return false
	})
	return bad
}

// mayBeNilConstVia: operand is the nil constant, or a phi with a nil edge
// whose predecessor lies in the explored (error-edge) region.
func (ea *errAnalysis) mayBeNilConstVia(op ssa.Value, region map[*ssa.BasicBlock]bool, d int) bool {
	op = stripTrivial(op)
	if isNilConst(op) {
		return true
	}
	if p, ok := op.(*ssa.Phi); ok && d < 4 {
		for i, ed := range p.Edges {
			pred := p.Block().Preds[i]
			if region[pred] && ea.mayBeNilConstVia(ed, region, d+1) {
				return true
			}
		}
	}
	return false
}

// scopeFuncs returns the functions ERR rules apply to.
func (ea *errAnalysis) scopeFuncs() []*ssa.Function {
	var out []*ssa.Function
	for _, fn := range ea.l.SrcFuncs {
		p := ea.l.pkgPathOf(fn)
		rel := strings.TrimPrefix(strings.TrimPrefix(p, ea.l.ModPath), "/")
		switch {
		case rel == "mock", strings.HasPrefix(rel, "cmd"), strings.HasPrefix(rel, "benchmarks"), rel == "proto":
			continue
		}
		out = append(out, fn)
	}
	return out
}

func hasErrResult(fn *ssa.Function) bool { return errResultIndex(fn.Signature) >= 0 }

// isPrintingUtility: exempt by signature+role: functions that only render text.
func isPrintingUtility(fn *ssa.Function) bool {
	n := fn.Name()
	for fn.Parent() != nil {
		fn = fn.Parent()
		n = fn.Name()
	}
	switch n {
	case "String", "PrintTree", "printNode", "Print", "WriteDOTGraph", "WriteDOTGraphToFile", "writeDOTGraph", "RenderShape", "renderNode":
		return true
	}
	return false
}

// runE1E2E4 decides dropped / swallowed / lossy-callee obligations.
// only(fn) restricts reporting (not the lossy-set computation) to a subset.
func (ea *errAnalysis) runE1E2E4(ruleDrop, ruleSwallow, ruleLossy string, only func(fn *ssa.Function) bool) {
	c, l := ea.c, ea.l
	funcs := ea.scopeFuncs()

	type site struct {
		fn   *ssa.Function
		call *ssa.Call
		e    ssa.Value
	}
	var sites []site
	// errors received from a channel (result of a background storage write)
	type rsite struct {
		fn *ssa.Function
		in *ssa.UnOp
	}
	var rsites []rsite
	// deferred / go calls that produce an error: result is unobservable
	type dsite struct {
		fn *ssa.Function
		in ssa.Instruction
	}
	var dsites []dsite
	for _, fn := range funcs {
		allInstrs(fn, func(in ssa.Instruction) {
			switch x := in.(type) {
			case *ssa.Call:
				if !ea.storage.Instr(x) {
					return
				}
				e, has := errorValueOfCall(x)
				if !has {
					return
				}
				sites = append(sites, site{fn, x, e})
			case *ssa.Defer, *ssa.Go:
				cc := callCommon(in)
				if errResultIndex(cc.Signature()) < 0 || !ea.storage.Instr(in) {
					return
				}
				dsites = append(dsites, dsite{fn, in})
			case *ssa.UnOp:
				if x.Op == token.ARROW && !x.CommaOk && isErrorType(x.Type()) {
					rsites = append(rsites, rsite{fn, x})
				}
			}
		})
	}
	// pass 1: lossy set (functions without error result)
	for _, s := range sites {
		if hasErrResult(s.fn) {
			continue
		}
		if s.e == nil {
			ea.lossy[s.fn] = "drops the error of " + l.calleeName(s.call)
			continue
		}
		u := ea.usesOf(s.e)
		if u.stored || u.sent || u.panicked || u.passed && !u.logged {
			continue
		}
		// "log and terminate": the err != nil edge ends in os.Exit / log.Fatal
		exits := false
		for _, iff := range u.checked {
			if iff == nil {
				continue
			}
			if _, nn, ok := nilCond(iff.Cond); ok {
				searchFrom([]point{blockStart(iff.Block().Succs[nn])}, func(in ssa.Instruction) bool {
					if cc := callCommon(in); cc != nil {
						if f := staticCallee(cc); f != nil && (f.String() == "os.Exit" || strings.HasPrefix(f.String(), "log.Fatal")) {
							exits = true
							return true
						}
					}
					return false
				})
			}
		}
		if exits {
			continue
		}
		ea.lossy[s.fn] = "error of " + l.calleeName(s.call) + " is only tested, not surfaced"
	}
	// a function without an error result that receives an error from a channel
	// (result of a background write) and drops it loses a storage error; Close()
	// is the enumerated exception (release operation, callers must not rely on it)
	for _, r := range rsites {
		if hasErrResult(r.fn) || r.fn.Name() == "Close" {
			continue
		}
		if u := ea.usesOf(r.in); !u.real() {
			ea.lossy[r.fn] = "drops the error received from " + roleOf(l, r.in.X, "", 0)
		}
	}
	// close upward through functions without an error result
	changed := true
	for changed {
		changed = false
		for _, fn := range funcs {
			if hasErrResult(fn) || ea.lossy[fn] != "" {
				continue
			}
			allInstrs(fn, func(in ssa.Instruction) {
				if ea.lossy[fn] != "" {
					return
				}
				// a closure built here and handed to someone else to call (sort.Search, Range, …)
				if mc, ok := in.(*ssa.MakeClosure); ok {
					if g, ok := mc.Fn.(*ssa.Function); ok && ea.lossy[g] != "" {
						ea.lossy[fn] = "builds lossy closure " + l.fname(g)
						changed = true
					}
					return
				}
				if callCommon(in) == nil {
					return
				}
				for _, g := range l.calleesOf(in) {
					if why, ok := ea.lossy[g]; ok && why != "" && l.inModule(g) {
						ea.lossy[fn] = "calls lossy " + l.fname(g)
						changed = true
						return
					}
				}
			})
		}
	}

	// pass 2: obligations in error-bearing functions
	for _, s := range sites {
		if !hasErrResult(s.fn) || (only != nil && !only(s.fn)) || isPrintingUtility(s.fn) {
			continue
		}
		key := l.fname(s.fn) + " ← " + l.calleeName(s.call)
		pos := l.ipos(s.call)
		if s.e == nil {
			c.bad(ruleDrop, key, pos, "error result of a storage-reaching call is discarded (blank or never extracted)")
			continue
		}
		u := ea.usesOf(s.e)
		if !u.real() {
			if u.logged {
				c.bad(ruleDrop, key, pos, "error is only logged, then dropped")
			} else if u.matched {
				c.ok(ruleDrop, key, pos, "matched against a sentinel")
			} else {
				c.bad(ruleDrop, key, pos, "error value has no use")
			}
			continue
		}
		c.ok(ruleDrop, key, pos, "error is tested, returned, stored or passed on")
		// E2 per nil-test
		for _, iff := range u.checked {
			if iff == nil {
				continue
			}
			bad := ea.swallowPaths(s.fn, s.e, iff, u)
			if len(bad) == 0 {
				c.ok(ruleSwallow, key, pos, "no success return reachable from the err != nil edge")
			} else {
				o := c.bad(ruleSwallow, key, pos, fmt.Sprintf("on the err != nil edge the function reaches a return with a nil error at %s", l.ipos(bad[0])))
				o.Path = fmt.Sprintf("%s: if at %s → return at %s", l.fname(s.fn), l.ipos(iff), l.ipos(bad[0]))
			}
		}
	}
	for _, r := range rsites {
		if !hasErrResult(r.fn) || (only != nil && !only(r.fn)) {
			continue
		}
		key := l.fname(r.fn) + " ← <-" + roleOf(l, r.in.X, "", 0)
		u := ea.usesOf(r.in)
		if !u.real() {
			c.bad(ruleDrop, key, l.ipos(r.in), "an error received from a background write is never examined (overwritten or dropped): a failed batch is reported as success")
			continue
		}
		c.ok(ruleDrop, key, l.ipos(r.in), "received error is tested, returned or passed on")
		for _, iff := range u.checked {
			if iff == nil {
				continue
			}
			bad := ea.swallowPaths(r.fn, r.in, iff, u)
			c.decide(ruleSwallow, key, l.ipos(r.in), len(bad) == 0, "no success return reachable from the err != nil edge", "on the err != nil edge of a received background-write error the function reaches a return with a nil error")
		}
	}
	for _, d := range dsites {
		if !hasErrResult(d.fn) && d.fn.Parent() == nil {
			continue
		}
		if only != nil && !only(d.fn) {
			continue
		}
		cc := callCommon(d.in)
		name := ""
		if cc.IsInvoke() {
			name = cc.Method.Name()
		} else if f := staticCallee(cc); f != nil {
			name = f.Name()
		}
		key := l.fname(d.fn) + " ← defer/go " + l.calleeName(d.in)
		if name == "Close" || name == "Reset" && strings.Contains(l.calleeName(d.in), "sqlite3") {
			// enumerated idiom: deferred Close of an iterator/batch; step and
			// write failures are surfaced by Error()/Write(), Close is a release
			c.ok(ruleDrop, key, l.ipos(d.in), "deferred Close(): release operation, not a storage read/write in the property's fault model")
			continue
		}
		if _, isGo := d.in.(*ssa.Go); isGo {
			// goroutine result is unobservable by construction; E4 covers lossy bodies
			continue
		}
		c.bad(ruleDrop, key, l.ipos(d.in), "deferred call's error result is unobservable")
	}

	// E4: call to a lossy function from an error-bearing function
	for _, fn := range funcs {
		if (only != nil && !only(fn)) || isPrintingUtility(fn) {
			continue
		}
		bearing := hasErrResult(fn)
		if !bearing {
			continue
		}
		allInstrs(fn, func(in ssa.Instruction) {
			if mc, ok := in.(*ssa.MakeClosure); ok {
				if g, ok := mc.Fn.(*ssa.Function); ok && ea.lossy[g] != "" {
					key := l.fname(fn) + " ← lossy closure " + l.fname(g)
					c.bad(ruleLossy, key, l.ipos(in), "builds "+l.fname(g)+", a closure without an error result that loses storage errors ("+ea.lossy[g]+")")
				}
				return
			}
			if callCommon(in) == nil {
				return
			}
			for _, g := range l.calleesOf(in) {
				if why := ea.lossy[g]; why != "" && l.inModule(g) {
					key := l.fname(fn) + " ← lossy " + l.fname(g)
					c.bad(ruleLossy, key, l.ipos(in), "calls "+l.fname(g)+", which has no error result and loses storage errors ("+why+")")
				}
			}
		})
	}
}

// ---------------------------------------------------------------------------
// E3: iterator protocol

// iteratorTypeInfo: is T (pointer receiver type) an iterator whose errors
// must be consulted with Error()?
func (ea *errAnalysis) iterRecvOfValid(in ssa.Instruction) (recv ssa.Value, ok bool) {
	call, isCall := in.(*ssa.Call)
	if !isCall {
		return nil, false
	}
	cc := &call.Call
	if cc.IsInvoke() {
		if cc.Method.Name() == "Valid" && cc.Method.Pkg() != nil && cc.Method.Pkg().Path() == corestorePkg {
			return cc.Value, true
		}
		return nil, false
	}
	f := staticCallee(cc)
	if f == nil || f.Name() != "Valid" || f.Signature.Recv() == nil || len(cc.Args) == 0 {
		return nil, false
	}
	if !ea.l.inModule(f) {
		return nil, false
	}
	n := derefNamed(f.Signature.Recv().Type())
	if n == nil {
		return nil, false
	}
	// has an Error() error method
	ms := ea.l.Prog.MethodSets.MethodSet(types.NewPointer(n))
	for i := 0; i < ms.Len(); i++ {
		if ms.At(i).Obj().Name() == "Error" {
			return cc.Args[0], true
		}
	}
	return nil, false
}

func isMethodCallOn(in ssa.Instruction, recv ssa.Value, names ...string) bool {
	cc := callCommon(in)
	if cc == nil {
		return false
	}
	var name string
	var r ssa.Value
	if cc.IsInvoke() {
		name, r = cc.Method.Name(), cc.Value
	} else if f := staticCallee(cc); f != nil && f.Signature.Recv() != nil && len(cc.Args) > 0 {
		name, r = f.Name(), cc.Args[0]
	} else {
		return false
	}
	ok := false
	for _, n := range names {
		if n == name {
			ok = true
		}
	}
	return ok && sameValue(r, recv)
}

func (ea *errAnalysis) runE3(rule string, only func(fn *ssa.Function) bool) {
	c, l := ea.c, ea.l
	for _, fn := range ea.scopeFuncs() {
		if !hasErrResult(fn) || (only != nil && !only(fn)) || isPrintingUtility(fn) {
			continue
		}
		errIdx := errResultIndex(fn.Signature)
		type key struct{ recv ssa.Value }
		done := map[ssa.Value]bool{}
		allInstrs(fn, func(in ssa.Instruction) {
			recv, ok := ea.iterRecvOfValid(in)
			if !ok {
				return
			}
			recv = stripTrivial(recv)
			if done[recv] {
				return
			}
			done[recv] = true
			// iterator captured from the enclosing function: the enclosing
			// function owns the obligation (Error() on the same variable
			// after the closure exists), decided there.
			if ld, ok := recv.(*ssa.UnOp); ok && ld.Op == token.MUL {
				if fv, ok := ld.X.(*ssa.FreeVar); ok && fn.Parent() != nil {
					ea.e3Captured(rule, fn, fv, in)
					return
				}
			}
			// all Valid() calls on this receiver; explore from their false edges
			var starts []point
			allInstrs(fn, func(in2 ssa.Instruction) {
				if !isMethodCallOn(in2, recv, "Valid") {
					return
				}
				v := in2.(ssa.Value)
				for _, r := range refs(v) {
					switch x := r.(type) {
					case *ssa.If:
						starts = append(starts, blockStart(x.Block().Succs[1]))
					case *ssa.UnOp: // !itr.Valid()
						if x.Op == token.NOT {
							for _, rr := range refs(x) {
								if iff, ok := rr.(*ssa.If); ok {
									starts = append(starts, blockStart(iff.Block().Succs[0]))
								}
							}
						}
					case *ssa.DebugRef:
					default:
						// result used as a value: explore from right after the call
						starts = append(starts, after(in2))
					}
				}
			})
			var bad *ssa.Return
			var closedFirst ssa.Instruction
			closeBeforeError := false
			searchFrom(starts, func(x ssa.Instruction) bool {
				if isMethodCallOn(x, recv, "Error") {
					if closedFirst != nil && bad == nil {
						closeBeforeError = true
					}
					return true
				}
				// `return itr.Close()` of repo iterators returns the sticky error too
				if isMethodCallOn(x, recv, "Close") {
					if _, isDefer := x.(*ssa.Defer); !isDefer {
						if v, ok := x.(ssa.Value); ok && len(refs(v)) > 0 && closeReturnsSticky(callCommon(x)) {
							return true
						}
						// a Close() that is not known to preserve the sticky error, executed before Error() is read
						closedFirst = x
					}
				}
				if r, ok := x.(*ssa.Return); ok {
					if isRecoverReturn(r) {
						return true
					}
					if errNilness(retVal(r, errIdx), r.Block(), 0) <= 0 && isNilOrUnknownSuccess(retVal(r, errIdx)) {
						if bad == nil {
							bad = r
						}
					}
					return true
				}
				return false
			})
			k := l.fname(fn) + " iterator " + describeRecv(l, recv)
			if bad == nil && closeBeforeError {
				c.bad(rule, k, l.ipos(closedFirst), "the iterator is closed before its Error() is read: a Close() may reset the sticky error (the index iterator's does), so a failed step is reported as the end of the data")
			} else if bad == nil {
				c.ok(rule, k, l.ipos(in), "every path from the end of iteration to a success return consults Error()")
			} else {
				o := c.bad(rule, k, l.ipos(in), fmt.Sprintf("loop over the iterator can end and reach the success return at %s without Error() being consulted: a failed step looks like end of data", l.ipos(bad)))
				o.Path = fmt.Sprintf("%s: Valid()==false → return at %s", l.fname(fn), l.ipos(bad))
			}
		})
	}
}

// closeReturnsSticky: the Close method called here hands back the iterator's
// sticky error: it resolves statically, every return yields a load of an
// error field of the receiver, and Close itself never overwrites that field
// (a Close that assigns the inner Close() result to the field loses the error
// that ended the iteration).
func closeReturnsSticky(cc *ssa.CallCommon) bool {
	f := staticCallee(cc)
	if f == nil || f.Blocks == nil || f.Signature.Results().Len() != 1 {
		return false
	}
	var field *types.Var
	for _, r := range returnsOf(f) {
		if isRecoverReturn(r) {
			continue
		}
		ld, ok := stripTrivial(retVal(r, 0)).(*ssa.UnOp)
		if !ok || ld.Op != token.MUL {
			return false
		}
		fa, ok := ld.X.(*ssa.FieldAddr)
		if !ok {
			return false
		}
		fv := fieldVar(fa.X.Type(), fa.Field)
		if fv == nil || !isErrorType(fv.Type()) || (field != nil && field != fv) {
			return false
		}
		field = fv
	}
	return field != nil && len(storesToField(f, field)) == 0
}

// isNilOrUnknownSuccess: the returned error operand may be nil (constant nil,
// or a value not known to be non-nil).
func isNilOrUnknownSuccess(v ssa.Value) bool {
	// anything not known to be non-nil may be a success: in particular the
	// result of another call (`return prevIter.Error()` says nothing about
	// curIter).
	return true
}

func describeRecv(l *Loaded, v ssa.Value) string {
	switch x := v.(type) {
	case *ssa.Extract:
		if call, ok := x.Tuple.(*ssa.Call); ok {
			return "from " + l.calleeName(call)
		}
	case *ssa.Call:
		return "from " + l.calleeName(x)
	case *ssa.MakeInterface:
		return describeRecv(l, x.X)
	}
	if p := accessPath(v); p != "" {
		return p
	}
	return l.short(v.Type().String())
}

// ---------------------------------------------------------------------------
// E5: sticky error fields are surfaced; wrappers consult the wrapped iterator

func (ea *errAnalysis) runE5(rule string) {
	c, l := ea.c, ea.l
	for path, sp := range l.byPkg {
		if path != l.ModPath && !strings.HasPrefix(path, l.ModPath+"/") {
			continue
		}
		rel := strings.TrimPrefix(strings.TrimPrefix(path, l.ModPath), "/")
		if rel == "mock" || strings.HasPrefix(rel, "cmd") || strings.HasPrefix(rel, "benchmarks") {
			continue
		}
		for _, name := range sp.Pkg.Scope().Names() {
			tn, ok := sp.Pkg.Scope().Lookup(name).(*types.TypeName)
			if !ok {
				continue
			}
			named, ok := tn.Type().(*types.Named)
			if !ok {
				continue
			}
			st, ok := named.Underlying().(*types.Struct)
			if !ok {
				continue
			}
			var errField *types.Var
			var innerIters []*types.Var
			for i := 0; i < st.NumFields(); i++ {
				f := st.Field(i)
				if isErrorType(f.Type()) {
					errField = f
				}
				if isIteratorType(f.Type()) {
					innerIters = append(innerIters, f)
				}
			}
			errM := l.Func(rel, "*"+name+".Error")
			if errM == nil {
				errM = l.Func(rel, name+".Error")
			}
			if errM == nil || errResultIndex(errM.Signature) < 0 {
				continue
			}
			if errField != nil {
				// (a) Error() can return the sticky field
				found := false
				for _, r := range returnsOf(errM) {
					for _, root := range roots(retVal(r, 0)) {
						if ld, ok := root.(*ssa.UnOp); ok && ld.Op == token.MUL {
							if fa, ok := ld.X.(*ssa.FieldAddr); ok && fieldVar(fa.X.Type(), fa.Field) == errField {
								found = true
							}
						}
					}
				}
				c.decide(rule, l.short(path)+"."+name+".Error returns "+errField.Name(), l.pos(errM.Pos()), found,
					"Error() returns the sticky error field", "Error() never returns the sticky error field "+errField.Name()+": stored failures are invisible")
			}
			// (b) wrapper surfaces the wrapped iterator's error
			for _, inner := range innerIters {
				surfaced := false
				for _, m := range methodsOf(l, named) {
					allInstrs(m, func(in ssa.Instruction) {
						cc := callCommon(in)
						if cc == nil {
							return
						}
						var nm string
						var recv ssa.Value
						if cc.IsInvoke() {
							nm, recv = cc.Method.Name(), cc.Value
						} else if f := staticCallee(cc); f != nil && f.Signature.Recv() != nil && len(cc.Args) > 0 {
							nm, recv = f.Name(), cc.Args[0]
						}
						if nm != "Error" {
							return
						}
						if ld, ok := stripTrivial(recv).(*ssa.UnOp); ok {
							if fa, ok := ld.X.(*ssa.FieldAddr); ok && fieldVar(fa.X.Type(), fa.Field) == inner {
								if v, ok := in.(ssa.Value); ok && len(refs(v)) > 0 {
									surfaced = true
								}
							}
						}
					})
				}
				c.decide(rule, l.short(path)+"."+name+" surfaces "+inner.Name()+".Error()", l.pos(tn.Pos()), surfaced,
					"a method consults the wrapped iterator's Error()", "no method of "+name+" consults "+inner.Name()+".Error(): a failure of the wrapped iterator ends the iteration silently")
			}
		}
	}
}

// isIteratorType: the corestore.Iterator interface (an alias of an unnamed
// interface, so it is recognised structurally by its method set).
func isIteratorType(t types.Type) bool {
	it, ok := t.Underlying().(*types.Interface)
	if !ok {
		return false
	}
	need := map[string]bool{"Valid": false, "Next": false, "Key": false, "Value": false, "Error": false, "Close": false, "Domain": false}
	for i := 0; i < it.NumMethods(); i++ {
		if _, ok := need[it.Method(i).Name()]; ok {
			need[it.Method(i).Name()] = true
		}
	}
	for _, v := range need {
		if !v {
			return false
		}
	}
	return true
}

func methodsOf(l *Loaded, named *types.Named) []*ssa.Function {
	var out []*ssa.Function
	seen := map[*ssa.Function]bool{}
	for _, T := range []types.Type{named, types.NewPointer(named)} {
		ms := l.Prog.MethodSets.MethodSet(T)
		for i := 0; i < ms.Len(); i++ {
			sel := ms.At(i)
			if len(sel.Index()) != 1 {
				continue
			}
			f := l.Prog.MethodValue(sel)
			if f != nil && f.Blocks != nil && !seen[f] && f.Synthetic == "" {
				seen[f] = true
				out = append(out, f)
			}
		}
	}
	return out
}

// ---------------------------------------------------------------------------
// E6: pointer result used before its error is examined

func (ea *errAnalysis) runE6(rule string, only func(fn *ssa.Function) bool) {
	c, l := ea.c, ea.l
	for _, fn := range ea.scopeFuncs() {
		if only != nil && !only(fn) {
			continue
		}
		allInstrs(fn, func(in ssa.Instruction) {
			call, ok := in.(*ssa.Call)
			if !ok {
				return
			}
			sig := call.Call.Signature()
			ei := errResultIndex(sig)
			if ei < 0 || sig.Results().Len() < 2 {
				return
			}
			callee := staticCallee(&call.Call)
			if callee == nil || !l.inModule(callee) || callee.Blocks == nil {
				return
			}
			for pi := 0; pi < sig.Results().Len(); pi++ {
				if pi == ei {
					continue
				}
				if _, isPtr := sig.Results().At(pi).Type().Underlying().(*types.Pointer); !isPtr {
					continue
				}
				// does the callee have a return (nil, non-nil)?
				canNil := ea.canReturnNilWithErr(callee, pi, 0)
				if !canNil {
					continue
				}
				pv := extractOf(call, pi)
				if pv == nil {
					continue
				}
				ev := extractOf(call, ei)
				key := l.fname(fn) + " uses " + l.fname(callee) + fmt.Sprintf(" result#%d", pi)
				var badUse ssa.Instruction
				for _, r := range refs(pv) {
					if !isDeref(r, pv) {
						continue
					}
					if nilFactAt(pv, r.Block()) > 0 {
						continue
					}
					if ev != nil && nilFactAt(ev, r.Block()) < 0 {
						continue
					}
					badUse = r
					break
				}
				if badUse == nil {
					c.ok(rule, key, l.ipos(call), "every dereference is dominated by err == nil or a nil test of the pointer")
				} else {
					c.bad(rule, key, l.ipos(badUse), "pointer result is dereferenced before the error is examined; the callee returns (nil, err) on failure → nil dereference instead of an error")
				}
			}
		})
	}
}

func isDeref(in ssa.Instruction, p ssa.Value) bool {
	switch x := in.(type) {
	case *ssa.FieldAddr:
		return x.X == p
	case *ssa.UnOp:
		return x.Op == token.MUL && x.X == p
	case *ssa.IndexAddr:
		return x.X == p
	case *ssa.Store:
		return x.Addr == p
	}
	return false
}

// e3Captured: closure fn iterates over an iterator variable captured from its
// parent; require that in the parent every success return reachable after the
// closure was created consults Error() on that variable.
func (ea *errAnalysis) e3Captured(rule string, fn *ssa.Function, fv *ssa.FreeVar, at ssa.Instruction) {
	c, l := ea.c, ea.l
	parent := fn.Parent()
	k := l.fname(parent) + " iterator " + fv.Name() + " (iterated in closure " + l.fname(fn) + ")"
	// find the binding
	var mc *ssa.MakeClosure
	var slot ssa.Value
	allInstrs(parent, func(in ssa.Instruction) {
		if m, ok := in.(*ssa.MakeClosure); ok && m.Fn == fn {
			mc = m
			for i, v := range fn.FreeVars {
				if v == fv {
					slot = m.Bindings[i]
				}
			}
		}
	})
	if mc == nil || slot == nil || !hasErrResult(parent) {
		c.undecided(rule, k, l.ipos(at), "captured iterator: cannot locate the closure binding in an error-bearing parent")
		return
	}
	errIdx := errResultIndex(parent.Signature)
	isErrOnSlot := func(x ssa.Instruction) bool {
		cc := callCommon(x)
		if cc == nil {
			return false
		}
		var nm string
		var r ssa.Value
		if cc.IsInvoke() {
			nm, r = cc.Method.Name(), cc.Value
		} else if f := staticCallee(cc); f != nil && f.Signature.Recv() != nil && len(cc.Args) > 0 {
			nm, r = f.Name(), cc.Args[0]
		}
		if nm != "Error" {
			return false
		}
		ld, ok := stripTrivial(r).(*ssa.UnOp)
		return ok && ld.Op == token.MUL && ld.X == slot
	}
	var bad *ssa.Return
	searchFrom([]point{after(mc)}, func(x ssa.Instruction) bool {
		if isErrOnSlot(x) {
			return true
		}
		if r, ok := x.(*ssa.Return); ok {
			if !isRecoverReturn(r) && errNilness(retVal(r, errIdx), r.Block(), 0) <= 0 && bad == nil {
				bad = r
			}
			return true
		}
		return false
	})
	if bad == nil {
		c.ok(rule, k, l.ipos(at), "the enclosing function consults Error() on the captured iterator before every success return")
	} else {
		c.bad(rule, k, l.ipos(at), fmt.Sprintf("captured iterator: enclosing function reaches the success return at %s without consulting Error()", l.ipos(bad)))
	}
}

// fallbackRecomputes: the success return hands back a value obtained from a
// storage-reaching, error-producing call made after the failure was seen
// (the fallback idiom: the failed fast path is replaced by the slow path,
// whose own error is checked).  Functions that only return an error cannot
// use this idiom.
func (ea *errAnalysis) fallbackRecomputes(r *ssa.Return, errIdx int, region map[*ssa.BasicBlock]bool) bool {
	for i := range r.Results {
		if i == errIdx {
			continue
		}
		for _, root := range roots(retVal(r, i)) {
			var call *ssa.Call
			switch x := root.(type) {
			case *ssa.Extract:
				call, _ = x.Tuple.(*ssa.Call)
			case *ssa.Call:
				call = x
			}
			if call == nil || !region[call.Block()] {
				continue
			}
			if _, has := errorValueOfCall(call); has && ea.storage.Instr(call) {
				return true
			}
		}
	}
	return false
}

// canReturnNilWithErr: callee has a return whose result #pi is nil (directly,
// or forwarded from a module callee that can) together with a possibly
// non-nil error.
func (ea *errAnalysis) canReturnNilWithErr(callee *ssa.Function, pi, depth int) bool {
	if callee == nil || callee.Blocks == nil || depth > 3 {
		return false
	}
	ei := errResultIndex(callee.Signature)
	if ei < 0 {
		return false
	}
	for _, r := range returnsOf(callee) {
		ev := stripTrivial(retVal(r, ei))
		if isNilConst(ev) {
			continue
		}
		for _, root := range roots(retVal(r, pi)) {
			if isNilConst(root) {
				return true
			}
			if ex, ok := root.(*ssa.Extract); ok {
				if call, ok := ex.Tuple.(*ssa.Call); ok {
					g := staticCallee(&call.Call)
					if g != nil && ea.l.inModule(g) && nilFactAt(ex, r.Block()) <= 0 {
						// forwarded together with that call's error?
						if ge := extractOf(call, errResultIndex(g.Signature)); ge != nil && nilFactAt(ge, r.Block()) >= 0 {
							if ea.canReturnNilWithErr(g, ex.Index, depth+1) {
								return true
							}
						}
					}
				}
			}
		}
	}
	return false
}

// runE3Strict: for iterators whose Valid() turns false on an error AND whose
// loop feeds an effectful callback, the error must be consulted before the
// callback can run again: from the Valid()==false edge no call through a
// function-typed parameter is reachable until Error() was examined.
// (Otherwise "the other tree is exhausted" is concluded from a failed read and
// acted upon — e.g. live nodes are queued for deletion — before the error is
// reported.)
func (ea *errAnalysis) runE3Strict(rule string, fns ...*ssa.Function) {
	c, l := ea.c, ea.l
	for _, fn := range fns {
		if fn == nil {
			c.anchorMissing(rule, "function for strict iterator check")
			continue
		}
		isCallback := func(in ssa.Instruction) bool {
			cc := callCommon(in)
			if cc == nil || cc.IsInvoke() {
				return false
			}
			_, isParam := stripTrivial(cc.Value).(*ssa.Parameter)
			return isParam
		}
		done := map[ssa.Value]bool{}
		n := 0
		allInstrs(fn, func(in ssa.Instruction) {
			recv, ok := ea.iterRecvOfValid(in)
			if !ok {
				return
			}
			recv = stripTrivial(recv)
			if done[recv] {
				return
			}
			done[recv] = true
			var starts []point
			allInstrs(fn, func(in2 ssa.Instruction) {
				if !isMethodCallOn(in2, recv, "Valid") {
					return
				}
				for _, r := range refs(in2.(ssa.Value)) {
					if iff, ok := r.(*ssa.If); ok {
						starts = append(starts, blockStart(iff.Block().Succs[1]))
					}
				}
			})
			var bad ssa.Instruction
			searchFrom(starts, func(x ssa.Instruction) bool {
				if isMethodCallOn(x, recv, "Error") {
					return true
				}
				if isMethodCallOn(x, recv, "Valid") {
					return true // re-tested: a fresh decision
				}
				if isCallback(x) && bad == nil {
					bad = x
					return true
				}
				return false
			})
			n++
			k := l.fname(fn) + " iterator " + describeRecv(l, recv) + " error before acting"
			msg := ""
			if bad != nil {
				msg = "after this iterator stopped (possibly on a failed read) the callback at " + l.ipos(bad) + " can run before Error() is consulted: the traversal acts on a wrong 'exhausted' conclusion and only then reports the error"
			}
			c.decide(rule, k, l.ipos(in), bad == nil, "Error() is consulted before the callback can run again", msg)
		})
		if n == 0 {
			c.anchorMissing(rule, "no iterator loop in "+l.fname(fn))
		}
	}
}

// ---------------------------------------------------------------------------
// E7: a sentinel that is matched must be able to arrive
//
// strict[F]  = sentinels (package-level error variables) F can return with
//              their identity preserved: returned directly, returned from a
//              callee unchanged (not on the negative edge of a match of that
//              very sentinel), or wrapped with %w;
// loose[F]   = the same, but every wrapping propagates and filters are ignored.
// A consumer `errors.Is(e, S)` / `e == S` whose e comes from calls to G1..Gn
// is refuted when S ∈ loose[Gi] for some i but S ∉ strict[Gi] for all i: the
// decision the consumer takes on S (skip a missing version, stop a retry) can
// no longer be taken, because S is filtered out or flattened with %v on the way.

type sentinelSets map[*ssa.Function]map[*ssa.Global]bool

func (ea *errAnalysis) sentinelOf(v ssa.Value) *ssa.Global {
	ld, ok := stripTrivial(v).(*ssa.UnOp)
	if !ok || ld.Op != token.MUL {
		return nil
	}
	g, ok := ld.X.(*ssa.Global)
	if !ok || !isErrorType(ld.Type()) || g.Pkg == nil || !strings.HasPrefix(g.Pkg.Pkg.Path(), ea.l.ModPath) {
		return nil
	}
	return g
}

// matchOf: instruction tests error value x against sentinel S; returns (x, S, edge on which it matches).
func (ea *errAnalysis) matchOf(cond ssa.Value) (x ssa.Value, s *ssa.Global, matchSucc int, ok bool) {
	cond = stripTrivial(cond)
	neg := false
	if u, isU := cond.(*ssa.UnOp); isU && u.Op == token.NOT {
		cond, neg = stripTrivial(u.X), true
	}
	switch c := cond.(type) {
	case *ssa.Call:
		if f := staticCallee(&c.Call); f != nil && f.String() == "errors.Is" && len(c.Call.Args) == 2 {
			if g := ea.sentinelOf(c.Call.Args[1]); g != nil {
				succ := 0
				if neg {
					succ = 1
				}
				return c.Call.Args[0], g, succ, true
			}
		}
	case *ssa.BinOp:
		if c.Op == token.EQL || c.Op == token.NEQ {
			for _, p := range [][2]ssa.Value{{c.X, c.Y}, {c.Y, c.X}} {
				if g := ea.sentinelOf(p[1]); g != nil {
					succ := 0
					if c.Op == token.NEQ {
						succ = 1
					}
					if neg {
						succ = 1 - succ
					}
					return p[0], g, succ, true
				}
			}
		}
	}
	return nil, nil, 0, false
}

func (ea *errAnalysis) runE7(rule string, only func(fn *ssa.Function) bool) {
	c, l := ea.c, ea.l
	funcs := ea.scopeFuncs()
	strict, loose := sentinelSets{}, sentinelSets{}
	add := func(m sentinelSets, f *ssa.Function, g *ssa.Global) bool {
		if m[f] == nil {
			m[f] = map[*ssa.Global]bool{}
		}
		if m[f][g] {
			return false
		}
		m[f][g] = true
		return true
	}
	// sources of a returned error value: sentinel loads, callee results, wrappers
	type src struct {
		g       *ssa.Global   // direct sentinel
		callee  []*ssa.Function
		wrapped bool // through fmt.Errorf without %w
		filt    map[*ssa.Global]bool // sentinels excluded on the φ edge this source arrives through
	}
	var sourcesOf func(v ssa.Value, seen map[ssa.Value]bool, flat bool) []src
	sourcesOf = func(v ssa.Value, seen map[ssa.Value]bool, flat bool) []src {
		v = stripTrivial(v)
		if v == nil || seen[v] {
			return nil
		}
		seen[v] = true
		if g := ea.sentinelOf(v); g != nil {
			return []src{{g: g, wrapped: flat}}
		}
		switch x := v.(type) {
		case *ssa.Phi:
			var out []src
			for i, e := range x.Edges {
				sub := sourcesOf(e, seen, flat)
				// the value arrives here only past the non-matching edge of a sentinel test of it
				// (`if errors.Is(err, S) { err = nil }`): S cannot arrive through this edge
				if i < len(x.Block().Preds) {
					pred := x.Block().Preds[i]
					for _, b := range x.Block().Parent().Blocks {
						iff := ifOf(b)
						if iff == nil {
							continue
						}
						tx, g, ms, ok := ea.matchOf(iff.Cond)
						if !ok || stripTrivial(tx) != stripTrivial(e) {
							continue
						}
						if edgeDominates(b, 1-ms, pred) || (b == pred && b.Succs[1-ms] == x.Block()) {
							for k := range sub {
								f2 := map[*ssa.Global]bool{g: true}
								for gg := range sub[k].filt {
									f2[gg] = true
								}
								sub[k].filt = f2
							}
						}
					}
				}
				out = append(out, sub...)
			}
			return out
		case *ssa.MakeInterface:
			return sourcesOf(x.X, seen, flat)
		case *ssa.Extract:
			if call, ok := x.Tuple.(*ssa.Call); ok {
				return []src{{callee: l.calleesOf(call), wrapped: flat}}
			}
		case *ssa.Call:
			if f := staticCallee(&x.Call); f != nil && (f.String() == "fmt.Errorf" || f.String() == "errors.Join") {
				keeps := f.String() == "errors.Join"
				if ts, ok := textsOfRaw(x.Call.Args[0]); ok && f.String() == "fmt.Errorf" {
					keeps = true
					for _, t := range ts {
						if !strings.Contains(t, "%w") {
							keeps = false
						}
					}
				}
				var out []src
				args := x.Call.Args
				if f.String() == "fmt.Errorf" {
					args = args[1:]
				}
				for _, a := range args {
					vals, ok := variadicValues(a)
					if !ok {
						vals = []ssa.Value{a}
					}
					for _, e := range vals {
						if mi, isMI := e.(*ssa.MakeInterface); isMI {
							e = mi.X
						}
						if ci, isCI := e.(*ssa.ChangeInterface); isCI {
							e = ci.X
						}
						if isErrorType(e.Type()) {
							out = append(out, sourcesOf(e, seen, flat || !keeps)...)
						}
					}
				}
				return out
			}
			return []src{{callee: l.calleesOf(x), wrapped: flat}}
		case *ssa.UnOp:
			if x.Op == token.MUL {
				if al, ok := x.X.(*ssa.Alloc); ok {
					var out []src
					for _, r := range refs(al) {
						if st, ok := r.(*ssa.Store); ok && st.Addr == al {
							out = append(out, sourcesOf(st.Val, seen, flat)...)
						}
					}
					return out
				}
			}
		}
		return nil
	}
	// per function: the sources of every returned error, with the sentinels filtered on the way
	type retSrc struct {
		s        src
		filtered map[*ssa.Global]bool
	}
	perFn := map[*ssa.Function][]retSrc{}
	for _, fn := range funcs {
		ei := errResultIndex(fn.Signature)
		if ei < 0 {
			continue
		}
		for _, r := range returnsOf(fn) {
			if isRecoverReturn(r) {
				continue
			}
			rv := retVal(r, ei)
			// sentinels that cannot be in rv here: the return is dominated by the non-matching edge of a test of rv
			filtered := map[*ssa.Global]bool{}
			for _, b := range fn.Blocks {
				iff := ifOf(b)
				if iff == nil {
					continue
				}
				// conjunctions: look through `a && b` phis is not needed: SSA splits them into nested Ifs
				x, g, ms, ok := ea.matchOf(iff.Cond)
				if !ok {
					continue
				}
				if stripTrivial(x) == stripTrivial(rv) && edgeDominates(b, 1-ms, r.Block()) {
					filtered[g] = true
				}
			}
			for _, s := range sourcesOf(rv, map[ssa.Value]bool{}, false) {
				f2 := filtered
				if len(s.filt) > 0 {
					f2 = map[*ssa.Global]bool{}
					for g := range filtered {
						f2[g] = true
					}
					for g := range s.filt {
						f2[g] = true
					}
				}
				perFn[fn] = append(perFn[fn], retSrc{s, f2})
			}
		}
	}
	for changed := true; changed; {
		changed = false
		for fn, rs := range perFn {
			for _, r := range rs {
				if r.s.g != nil {
					if add(loose, fn, r.s.g) {
						changed = true
					}
					if !r.s.wrapped && !r.filtered[r.s.g] && add(strict, fn, r.s.g) {
						changed = true
					}
					continue
				}
				for _, cal := range r.s.callee {
					for g := range loose[cal] {
						if add(loose, fn, g) {
							changed = true
						}
					}
					if !r.s.wrapped {
						for g := range strict[cal] {
							if !r.filtered[g] && add(strict, fn, g) {
								changed = true
							}
						}
					}
				}
			}
		}
	}
	// consumers
	for _, fn := range funcs {
		if only != nil && !only(fn) {
			continue
		}
		for _, b := range fn.Blocks {
			iff := ifOf(b)
			if iff == nil {
				continue
			}
			x, g, _, ok := ea.matchOf(iff.Cond)
			if !ok {
				continue
			}
			var callees []*ssa.Function
			for _, s := range sourcesOf(x, map[ssa.Value]bool{}, false) {
				callees = append(callees, s.callee...)
			}
			if len(callees) == 0 {
				continue
			}
			anyLoose, anyStrict := false, false
			var names []string
			for _, cal := range callees {
				if loose[cal][g] {
					anyLoose = true
					names = append(names, l.fname(cal))
				}
				if strict[cal][g] {
					anyStrict = true
				}
			}
			if !anyLoose {
				continue
			}
			sort.Strings(names)
			key := l.fname(fn) + " matches " + g.Name() + " on the error of " + strings.Join(dedupe(names), ", ")
			c.decide(rule, key, l.ipos(iff), anyStrict, "the sentinel can arrive with its identity",
				g.Name()+" can no longer arrive here with its identity (it is filtered out or flattened with a non-%w format on the way): the branch taken on it — skipping a missing version, ending a retry — is dead")
		}
	}
}

// textsOfRaw: compile-time text(s) of a string value without touching verbs.
func textsOfRaw(v ssa.Value) ([]string, bool) {
	v = stripTrivial(v)
	switch x := v.(type) {
	case *ssa.Const:
		if x.Value != nil && x.Value.Kind() == constant.String {
			return []string{constant.StringVal(x.Value)}, true
		}
	case *ssa.Phi:
		var out []string
		for _, e := range x.Edges {
			t, ok := textsOfRaw(e)
			if !ok {
				return nil, false
			}
			out = append(out, t...)
		}
		return out, true
	}
	return nil, false
}

// ---------------------------------------------------------------------------
// sticky error fields: not overwritten in a loop, and an error invalidates

// stickyTypes lists struct types of the scope that have an `error` field and
// an Error() method (iterators).
func (ea *errAnalysis) stickyFields() map[*types.Var]*types.Named {
	out := map[*types.Var]*types.Named{}
	l := ea.l
	for path, sp := range l.byPkg {
		if path != l.ModPath && !strings.HasPrefix(path, l.ModPath+"/") {
			continue
		}
		for _, name := range sp.Pkg.Scope().Names() {
			tn, ok := sp.Pkg.Scope().Lookup(name).(*types.TypeName)
			if !ok {
				continue
			}
			named, ok := tn.Type().(*types.Named)
			if !ok {
				continue
			}
			st, ok := named.Underlying().(*types.Struct)
			if !ok {
				continue
			}
			hasErrorM := false
			ms := l.Prog.MethodSets.MethodSet(types.NewPointer(named))
			for i := 0; i < ms.Len(); i++ {
				if ms.At(i).Obj().Name() == "Error" {
					hasErrorM = true
				}
			}
			if !hasErrorM {
				continue
			}
			for i := 0; i < st.NumFields(); i++ {
				if isErrorType(st.Field(i).Type()) {
					out[st.Field(i)] = named
				}
			}
		}
	}
	return out
}

// runStickyLoop: a store of a possibly non-nil error into a sticky error field
// must not be able to reach itself again (loop) along a path on which that
// error was not found nil: the later store overwrites the error that ended —
// or should have ended — the walk (`for … { x, it.err = load(); if it.err == nil {…} }`).
func (ea *errAnalysis) runStickyLoop(rule string, only func(fn *ssa.Function) bool) {
	c, l := ea.c, ea.l
	sticky := ea.stickyFields()
	for _, fn := range ea.scopeFuncs() {
		if only != nil && !only(fn) {
			continue
		}
		allInstrs(fn, func(in ssa.Instruction) {
			st, ok := in.(*ssa.Store)
			if !ok {
				return
			}
			fa, ok := st.Addr.(*ssa.FieldAddr)
			if !ok {
				return
			}
			f := fieldVar(fa.X.Type(), fa.Field)
			if _, isSticky := sticky[f]; !isSticky || isNilConst(stripTrivial(st.Val)) {
				return
			}
			if _, isK := stripTrivial(st.Val).(*ssa.UnOp); isK && ea.sentinelOf(st.Val) != nil {
				return // constant sentinel, stored once
			}
			v := stripTrivial(st.Val)
			// forward walk; at a nil test of v / of the field, follow only the non-nil edge
			seen := map[*ssa.BasicBlock]bool{}
			again := false
			var walk func(b *ssa.BasicBlock, from int)
			walk = func(b *ssa.BasicBlock, from int) {
				for i := from; i < len(b.Instrs); i++ {
					x := b.Instrs[i]
					if x == ssa.Instruction(st) {
						again = true
						return
					}
					if iff, isIf := x.(*ssa.If); isIf {
						if t, nn, isNil := nilCond(iff.Cond); isNil {
							t = stripTrivial(t)
							if t == v || isLoadOfField(f)(t) {
								s := b.Succs[nn]
								if !seen[s] {
									seen[s] = true
									walk(s, 0)
								}
								return
							}
						}
					}
				}
				for _, s := range b.Succs {
					if !seen[s] {
						seen[s] = true
						walk(s, 0)
					}
				}
			}
			walk(st.Block(), instrIndex(st)+1)
			key := l.fname(fn) + " stores into " + fieldName(fa.X.Type(), fa.Field) + " in a loop"
			if again {
				c.bad(rule, key, l.ipos(st), "the sticky error field is assigned again on a path on which the previous error was not found nil: a failed step is overwritten by the next successful one and the walk silently skips what the failed step should have delivered")
			} else {
				c.ok(rule, key, l.ipos(st), "cannot be overwritten by itself while non-nil")
			}
		})
	}
}

// runErrorInvalidates: in a method of an iterator type that has both a sticky
// error field and a validity flag, every store of a possibly non-nil error is
// followed on every path to a return by a store to the validity flag — an
// iterator that failed must not stay valid (its accessors dereference state
// the failed step did not produce).
func (ea *errAnalysis) runErrorInvalidates(rule string, only func(fn *ssa.Function) bool) {
	c, l := ea.c, ea.l
	sticky := ea.stickyFields()
	for _, fn := range ea.scopeFuncs() {
		if only != nil && !only(fn) {
			continue
		}
		recv := fn.Signature.Recv()
		if recv == nil {
			continue
		}
		rn := derefNamed(recv.Type())
		if rn == nil {
			continue
		}
		var validF *types.Var
		if stt, ok := rn.Underlying().(*types.Struct); ok {
			for i := 0; i < stt.NumFields(); i++ {
				if stt.Field(i).Name() == "valid" {
					validF = stt.Field(i)
				}
			}
		}
		if validF == nil {
			continue
		}
		// a Valid() that itself consults the error field makes "error ⇒ invalid" hold by construction
		validReadsErr := map[*types.Var]bool{}
		if pkg := rn.Obj().Pkg(); pkg != nil {
			if vm := l.Prog.LookupMethod(types.NewPointer(rn), pkg, "Valid"); vm != nil && vm.Blocks != nil {
				allInstrs(vm, func(x ssa.Instruction) {
					if ld, ok := x.(*ssa.UnOp); ok && ld.Op == token.MUL {
						if fa, ok := ld.X.(*ssa.FieldAddr); ok {
							validReadsErr[fieldVar(fa.X.Type(), fa.Field)] = true
						}
					}
				})
			}
		}
		allInstrs(fn, func(in ssa.Instruction) {
			st, ok := in.(*ssa.Store)
			if !ok {
				return
			}
			fa, ok := st.Addr.(*ssa.FieldAddr)
			if !ok {
				return
			}
			f := fieldVar(fa.X.Type(), fa.Field)
			if owner, isSticky := sticky[f]; !isSticky || owner.Obj() != rn.Obj() || isNilConst(stripTrivial(st.Val)) {
				return
			}
			if validReadsErr[f] {
				c.ok(rule, l.fname(fn)+" error stored ⇒ validity re-decided", l.ipos(st), "Valid() consults the error field")
				return
			}
			escapes := reachableAfter(st, func(x ssa.Instruction) bool {
				r, isRet := x.(*ssa.Return)
				return isRet && !isRecoverReturn(r)
			}, func(x ssa.Instruction) bool { return isStoreToField(x, validF) })
			key := l.fname(fn) + " error stored ⇒ validity re-decided"
			msg := ""
			if len(escapes) > 0 {
				msg = "a return at " + l.ipos(escapes[0]) + " is reachable after the error was stored without the validity flag being re-decided: the iterator stays valid after a failed step and its accessors use state the step did not produce"
			}
			c.decide(rule, key, l.ipos(st), len(escapes) == 0, "every path to a return passes a store to valid", msg)
		})
	}
}

// runE6Fields: a value and an error that come out of one call and are both
// stored into fields of the same object (`it.inner, it.err = open(…)`): every
// later use of the value field in that function (method call on it, field
// access through it) must be on a path on which the error — the value or the
// field it was stored in — was found nil.  A failed open leaves the value nil,
// and the use panics instead of surfacing the error.
func (ea *errAnalysis) runE6Fields(rule string, only func(fn *ssa.Function) bool) {
	c, l := ea.c, ea.l
	for _, fn := range ea.scopeFuncs() {
		if only != nil && !only(fn) {
			continue
		}
		allInstrs(fn, func(in ssa.Instruction) {
			call, ok := in.(*ssa.Call)
			if !ok || call.Call.Signature().Results().Len() < 2 {
				return
			}
			ei := errResultIndex(call.Call.Signature())
			if ei < 0 {
				return
			}
			e := extractOf(call, ei)
			if e == nil {
				return
			}
			// field the error is stored into
			var fe *types.Var
			for _, r := range refs(e) {
				if st, isSt := r.(*ssa.Store); isSt && st.Val == ssa.Value(e) {
					if fa, isFA := st.Addr.(*ssa.FieldAddr); isFA {
						fe = fieldVar(fa.X.Type(), fa.Field)
					}
				}
			}
			if fe == nil {
				return
			}
			for i := 0; i < call.Call.Signature().Results().Len(); i++ {
				if i == ei {
					continue
				}
				v := extractOf(call, i)
				if v == nil {
					continue
				}
				switch v.Type().Underlying().(type) {
				case *types.Pointer, *types.Interface:
				default:
					continue
				}
				var fv *types.Var
				var stV *ssa.Store
				for _, r := range refs(v) {
					if st, isSt := r.(*ssa.Store); isSt && st.Val == ssa.Value(v) {
						if fa, isFA := st.Addr.(*ssa.FieldAddr); isFA {
							fv, stV = fieldVar(fa.X.Type(), fa.Field), st
						}
					}
				}
				if fv == nil {
					continue
				}
				// uses of the value field after the store
				var bad ssa.Instruction
				// only paths on which the value can still be the nil of a failed call are followed: past a test
				// that found the error nil, or the value field non-nil, there is nothing left to show
				follow := func(b *ssa.BasicBlock, succ int) bool {
					iff := ifOf(b)
					if iff == nil {
						return true
					}
					t, nn, isNil := nilCond(iff.Cond)
					if !isNil {
						return true
					}
					t = stripTrivial(t)
					switch {
					case t == ssa.Value(e) || isLoadOfField(fe)(t):
						return succ == nn
					case isLoadOfField(fv)(t):
						return succ != nn
					}
					return true
				}
				searchFromEdges([]point{after(stV)}, func(x ssa.Instruction) bool {
					if bad != nil {
						return true
					}
					// a new store into the value field ends the obligation on this path
					if isStoreToField(x, fv) {
						return true
					}
					var recv ssa.Value
					if cc := callCommon(x); cc != nil {
						if cc.IsInvoke() {
							recv = cc.Value
						} else if f := staticCallee(cc); f != nil && f.Signature.Recv() != nil && len(cc.Args) > 0 {
							recv = cc.Args[0]
						}
					} else if fa, isFA := x.(*ssa.FieldAddr); isFA {
						recv = fa.X
					}
					if recv != nil && isLoadOfField(fv)(stripTrivial(recv)) {
						bad = x
					}
					return false
				}, follow)
				key := l.fname(fn) + " uses " + fv.Name() + " obtained together with " + fe.Name() + " from " + l.calleeName(call)
				if bad == nil {
					c.ok(rule, key, l.ipos(call), "every use is behind a nil test of the error")
				} else {
					c.bad(rule, key, l.ipos(bad), "the value stored into "+fv.Name()+" is used without the error stored into "+fe.Name()+" having been found nil: when "+l.calleeName(call)+" fails the value is nil and this use panics instead of the error being reported")
				}
			}
		})
	}
}
