package main

import (
	"sort"
	"go/types"
	"fmt"
	"go/token"
	"strings"

	"golang.org/x/tools/go/ssa"
)

func init() {
	register(&propCheck{id: "C05", needRoot: true, run: checkC05,
		explanation: "Model assumed by the property: each physical batch write is atomic and ordered; the flusher may write between any two batch operations. Decided statically (necessary conditions under that model): (1) PASS — every success return of SaveVersion, DeleteVersionsTo, DeleteVersionsFrom, LoadVersionForOverwriting, the index build and Importer.Commit is reached with no batch mutation issued after the last commit call (otherwise the tail of one operation is flushed with the next one); callee summaries are verified, not assumed; (2) ORDER — visibility marker last: the root is appended to the list of new nodes after both subtrees, root writers are the last batch mutations before Commit in SaveVersion, the importer's root marker follows every node write and the latest version is published only after WriteSync succeeded; (3) ORDER — re-keying a shared root writes the new key before deleting the old one; (4) OWN — the only functions that issue a physical write are the commit points; the early flush inside the batch wrapper and the importer's 10 000-node flush are listed KNOWN FINDINGS (a cut there leaves a database that Load() rejects); (5) DOM — every answer taken from the fast index is dominated by the `last updated <= queried version` / `version == latest` guard, which is what keeps index entries flushed by an interrupted commit invisible after the reopen at the previous version. NOT decided: whether the state at a given cut actually reopens to old or new — that needs executing recovery. Rules added in the later seeding rounds (each listed with what it decides in this file's rule table) are described in DESIGN.md §3 \"Third and fourth seeding rounds\" and Appendix C3–C5."})
}

type cleanAnalysis struct {
	l        *Loaded
	mut      *Reach
	isCommit func(in ssa.Instruction) bool
	weak     map[*ssa.Function]int // 0 unknown, 1 yes, 2 no, 3 in progress
	strong   map[*ssa.Function]int
}

func (ca *cleanAnalysis) compute(fn *ssa.Function, entryClean bool) (ok bool, badRet *ssa.Return) {
	gen := func(in ssa.Instruction) bool {
		if ca.isCommit(in) {
			return true
		}
		if cc := callCommon(in); cc != nil {
			if g := staticCallee(cc); g != nil && ca.l.inModule(g) && g != fn {
				if _, isGo := in.(*ssa.Go); !isGo && ca.strongClean(g) {
					return true
				}
			}
		}
		return false
	}
	kill := func(in ssa.Instruction) bool {
		cc := callCommon(in)
		if cc == nil || ca.isCommit(in) {
			return false
		}
		if g := staticCallee(cc); g != nil && ca.l.inModule(g) && g != fn {
			if ca.strongClean(g) || ca.weakClean(g) {
				return false
			}
		}
		return ca.mut.Instr(in)
	}
	q := mustState(fn, entryClean, gen, kill)
	ok = true
	for _, r := range successReturns(fn) {
		if !q(r) {
			ok = false
			if badRet == nil {
				badRet = r
			}
		}
	}
	return
}

func (ca *cleanAnalysis) weakClean(fn *ssa.Function) bool {
	switch ca.weak[fn] {
	case 1:
		return true
	case 2, 3:
		return false
	}
	if fn.Blocks == nil || !ca.mut.Fn(fn) {
		ca.weak[fn] = 1 // cannot mutate
		return true
	}
	ca.weak[fn] = 3
	ok, _ := ca.compute(fn, true)
	if ok {
		ca.weak[fn] = 1
	} else {
		ca.weak[fn] = 2
	}
	return ok
}

func (ca *cleanAnalysis) strongClean(fn *ssa.Function) bool {
	switch ca.strong[fn] {
	case 1:
		return true
	case 2, 3:
		return false
	}
	if fn.Blocks == nil {
		ca.strong[fn] = 2
		return false
	}
	ca.strong[fn] = 3
	ok, _ := ca.compute(fn, false)
	if ok && len(successReturns(fn)) > 0 {
		ca.strong[fn] = 1
	} else {
		ca.strong[fn] = 2
		ok = false
	}
	return ok
}

func checkC05(c *Ctx) {
	l := c.L
	checkBatchSiblings(c, "SIB-batch-wrapper")
	checkPooledBytes(c, "FRESH-pooled-bytes")
	checkNoDirectStoreWrites(c, "OWN-store-writes")
	c.rule("PASS-commit-last", "no batch mutation after the last commit on any success path of a mutating operation", 6)
	c.rule("ORDER-root-last", "visibility marker is the last thing written", 5)
	c.rule("ORDER-rekey", "re-keying writes the new key before deleting the old", 1)
	c.rule("OWN-physical-write", "physical writes are issued only by the commit points", 5)

	ndbCommit := l.Func("", "*nodeDB.Commit")
	bwfSet := l.Func("", "*BatchWithFlusher.Set")
	bwfDel := l.Func("", "*BatchWithFlusher.Delete")
	bwfWrite := l.Func("", "*BatchWithFlusher.Write")
	bwfWriteSync := l.Func("", "*BatchWithFlusher.WriteSync")
	impCommit := l.Func("", "*Importer.Commit")
	if ndbCommit == nil || bwfSet == nil || bwfDel == nil || bwfWrite == nil || bwfWriteSync == nil || impCommit == nil {
		c.anchorMissing("PASS-commit-last", "nodeDB.Commit / BatchWithFlusher.* / Importer.Commit")
		return
	}
	mut := batchMutationReach(l)
	ca := &cleanAnalysis{l: l, mut: mut, weak: map[*ssa.Function]int{}, strong: map[*ssa.Function]int{}}
	ca.isCommit = func(in ssa.Instruction) bool {
		cc := callCommon(in)
		if cc == nil {
			return false
		}
		if _, isGo := in.(*ssa.Go); isGo {
			return false
		}
		if predStatic(ndbCommit)(cc) {
			return true
		}
		// a direct physical write of the function's own batch (Importer.Commit)
		return isBatchWrite(cc) && in.Parent() == impCommit
	}
	entries := []struct{ rel, name string }{
		{"", "*MutableTree.SaveVersion"}, {"", "*MutableTree.DeleteVersionsTo"}, {"", "*MutableTree.DeleteVersionsFrom"},
		{"", "*MutableTree.LoadVersionForOverwriting"}, {"", "*MutableTree.enableFastStorageAndCommit"},
		{"", "*MutableTree.enableFastStorageAndCommitIfNotEnabled"}, {"", "*MutableTree.LoadVersion"}, {"", "*Importer.Commit"},
	}
	for _, e := range entries {
		fn := l.Func(e.rel, e.name)
		if fn == nil {
			c.anchorMissing("PASS-commit-last", e.name)
			continue
		}
		ok, bad := ca.compute(fn, true)
		key := l.fname(fn) + " ends committed"
		if ok {
			c.ok("PASS-commit-last", key, l.pos(fn.Pos()), fmt.Sprintf("all %d success returns are reached with every batch mutation followed by a commit", len(successReturns(fn))))
		} else {
			o := c.bad("PASS-commit-last", key, l.ipos(bad), "a success return is reachable with a batch mutation that no commit follows: those writes are flushed with a later operation, or lost")
			o.Path = l.fname(fn) + ": … → return at " + l.ipos(bad)
		}
	}

	// ---- (2a) root appended after both subtrees
	snn := l.Func("", "*MutableTree.saveNewNodes")
	sv := l.Func("", "*MutableTree.SaveVersion")
	if snn == nil || sv == nil || len(snn.AnonFuncs) == 0 {
		c.anchorMissing("ORDER-root-last", "saveNewNodes closure / SaveVersion")
	} else {
		for _, cl := range snn.AnonFuncs {
			// recursive closure that appends its node parameter to a captured slice
			var appendStore *ssa.Store
			allInstrs(cl, func(in ssa.Instruction) {
				st, ok := in.(*ssa.Store)
				if !ok {
					return
				}
				if call, ok := st.Val.(*ssa.Call); ok {
					if b, ok := call.Call.Value.(*ssa.Builtin); ok && b.Name() == "append" {
						if _, isFV := st.Addr.(*ssa.FreeVar); isFV {
							appendStore = st
						}
					}
				}
			})
			if appendStore == nil {
				continue
			}
			rec := reachableAfter(appendStore, func(in ssa.Instruction) bool {
				if callCommon(in) == nil {
					return false
				}
				for _, g := range l.calleesOf(in) {
					if g == cl {
						return true
					}
				}
				return false
			}, nil)
			c.decide("ORDER-root-last", l.fname(cl)+" node appended after its subtrees", l.ipos(appendStore), len(rec) == 0,
				"no recursive descent after the node is appended: children precede parents, the root is last", "a recursive descent is reachable after the node was appended: a parent (ultimately the root) is saved before its children")
		}
		// (2b) SaveVersion: after a root writer, nothing but Commit
		rootWriters := predStatic(l.Func("", "*nodeDB.SaveRoot"), l.Func("", "*nodeDB.SaveEmptyRoot"), snn)
		fLegacy := l.Field("", "Node", "isLegacy")
		legacyOnly := func(in ssa.Instruction) bool {
			for _, b := range in.Parent().Blocks {
				iff := ifOf(b)
				if iff != nil && isLoadOfField(fLegacy)(stripTrivial(iff.Cond)) && edgeDominates(b, 0, in.Block()) {
					return true
				}
			}
			return false
		}
		// helper methods of the tree that SaveVersion delegates a root write to (one level): the call of the helper is
		// a root writer of SaveVersion, and the helper's own body is held to the same rule
		helperRW := map[*ssa.Function]bool{}
		for _, in := range callsIn(sv, func(cc *ssa.CallCommon) bool {
			g := staticCallee(cc)
			return g != nil && g != snn && l.inModule(g) && g.Signature.Recv() != nil && len(g.Blocks) > 0 && len(callsIn(g, rootWriters)) > 0 && derefNamed(g.Signature.Recv().Type()) == derefNamed(sv.Signature.Recv().Type())
		}) {
			helperRW[staticCallee(callCommon(in))] = true
		}
		isRW := func(cc *ssa.CallCommon) bool {
			if rootWriters(cc) {
				return true
			}
			g := staticCallee(cc)
			return g != nil && helperRW[g]
		}
		n := 0
		scope := []*ssa.Function{sv}
		for g := range helperRW {
			scope = append(scope, g)
		}
		for _, fn := range scope {
			pred := rootWriters
			if fn == sv {
				pred = isRW
			}
			for _, w := range callsIn(fn, pred) {
				n++
				later := reachableAfter(w, func(in ssa.Instruction) bool {
					return callCommon(in) != nil && mut.Instr(in) && !ca.isCommit(in) && !legacyOnly(in)
				}, ca.isCommit)
				msg := ""
				if len(later) > 0 {
					msg = "after the root marker was queued, " + l.calleeName(later[0]) + " at " + l.ipos(later[0]) + " queues more writes before Commit: a flush in between publishes a version whose data is incomplete"
				}
				c.decide("ORDER-root-last", fn.Name()+" nothing queued after "+l.calleeName(w), l.ipos(w), len(later) == 0, "root writer is the last batch mutation before Commit (legacy-format re-save excepted: legacy-only path, outside this property's histories)", msg)
			}
		}
		if n < 3 {
			c.anchorMissing("ORDER-root-last", "fewer than 3 root writers in SaveVersion")
		}
	}
	checkIndexLabelLast(c, "ORDER-root-last")

	// (2c) importer
	wn := l.Func("", "*Importer.writeNode")
	rlv := l.Func("", "*nodeDB.resetLatestVersion")
	lv := l.Func("", "*MutableTree.LoadVersion")
	if wn == nil || rlv == nil || lv == nil {
		c.anchorMissing("ORDER-root-last", "Importer.writeNode / resetLatestVersion / LoadVersion")
	} else {
		for _, set := range callsIn(impCommit, isBatchMutation) {
			later := reachableAfter(set, func(in ssa.Instruction) bool { cc := callCommon(in); return cc != nil && predStatic(wn)(cc) }, nil)
			c.decide("ORDER-root-last", "Importer.Commit root marker after node writes", l.ipos(set), len(later) == 0, "no node write follows the root marker", "a node is written after the root marker")
		}
		var ws *ssa.Call
		for _, in := range callsIn(impCommit, isBatchWrite) {
			if cl, ok := in.(*ssa.Call); ok {
				ws = cl
			}
		}
		if ws == nil {
			c.bad("ORDER-root-last", "Importer.Commit writes", l.pos(impCommit.Pos()), "no physical write in Importer.Commit")
		} else {
			for _, in := range callsIn(impCommit, predStatic(rlv, lv)) {
				c.decide("ORDER-root-last", "Importer.Commit "+l.calleeName(in)+" after WriteSync", l.ipos(in), okEdgeDominates(ws, in),
					"published only after the physical write returned nil", "the imported version is published although the physical write did not (yet) succeed")
			}
		}
	}

	// ---- (3) re-key order
	checkRekeyOrder(c)

	// ---- (4) who issues physical writes
	allowed := map[*ssa.Function]string{ndbCommit: "commit point", impCommit: "import commit point", bwfWrite: "batch wrapper", bwfWriteSync: "batch wrapper"}
	for _, fn := range l.SrcFuncs {
		if l.pkgPathOf(fn) != l.ModPath {
			continue
		}
		for _, in := range callsIn(fn, predOr(isBatchWrite, predStatic(bwfWrite, bwfWriteSync))) {
			key := l.fname(fn) + " issues " + l.calleeName(in)
			if why, ok := allowed[fn]; ok {
				c.ok("OWN-physical-write", key, l.ipos(in), why)
				continue
			}
			c.bad("OWN-physical-write", key, l.ipos(in), "a physical write is issued inside a logical operation: a stop right after it leaves part of the operation durable")
		}
	}
	// ---- (3'') a prune interrupted between two physical writes: the version's own root goes with the first orphans
	c.rule("PASS-orphans-deleted", "every orphan handed to the pruning callback, the version's own root included, is deleted", 1)
	checkOrphansDeleted(c, "PASS-orphans-deleted")
	// ---- (3a) repeating an interrupted prune relies on "version does not exist" being recognised and skipped
	c.rule("ERR-E7-sentinel-path", "the 'version does not exist' decisions that let an interrupted prune be repeated can still be taken", 3)
	{
		ea := newErrAnalysis(c, l)
		fns := []*ssa.Function{l.Func("", "*nodeDB.deleteVersion"), l.Func("", "*nodeDB.deleteVersionsTo"), l.Func("", "*nodeDB.traverseOrphansWithRootkeyCache"), l.Func("", "*rootkeyCache.getRootKey")}
		ea.runE7("ERR-E7-sentinel-path", func(fn *ssa.Function) bool {
			for f := fn; f != nil; f = f.Parent() {
				for _, g := range fns {
					if g != nil && f == g {
						return true
					}
				}
			}
			return false
		})
	}
	// ---- (3b) a stop between "save (v,0)" and "delete (v,1)" leaves both keys: the lookup must prefer the original
	c.rule("ORDER-root-probe", "root lookup probes the original key before the re-keyed (version,0) key", 2)
	checkRootProbeOrder(c)
	// ---- (4b) background node batch vs. root batch of the importer
	checkInflightProtocol(c, "ORDER-root-last")
	// ---- (5) what hides index entries of an interrupted commit after the reopen
	checkVersionGuard(c)
	c.trust("each physical batch write is atomic and ordered (property's model)", "range over a slice visits elements in order")
	_ = token.ADD
}

// checkIndexLabelLast (shared by C05, C07, C09): the label that declares the
// fast index complete is the last batch mutation of the index build.
func checkIndexLabelLast(c *Ctx, rule string) {
	l := c.L
	// index build: the label that declares the index complete is queued after every fast node
	if efc2, lab := l.Func("", "*MutableTree.enableFastStorageAndCommit"), l.Func("", "*nodeDB.SetFastStorageVersionToBatch"); efc2 == nil || lab == nil {
		c.anchorMissing(rule, "enableFastStorageAndCommit / SetFastStorageVersionToBatch")
	} else {
		mutR := batchMutationReach(l)
		commitP := predStatic(l.Func("", "*nodeDB.Commit"))
		for _, in := range callsIn(efc2, predStatic(lab)) {
			later := reachableAfter(in, func(x ssa.Instruction) bool {
				cc := callCommon(x)
				return cc != nil && !commitP(cc) && mutR.Instr(x)
			}, func(x ssa.Instruction) bool { cc := callCommon(x); return cc != nil && commitP(cc) })
			msg := ""
			if len(later) > 0 {
				msg = "after the index label was queued, " + l.calleeName(later[0]) + " at " + l.ipos(later[0]) + " queues more index entries: a flush in between persists a label that declares a partial index complete, and no later open rebuilds it"
			}
			c.decide(rule, "index build: label queued after every fast node", l.ipos(in), len(later) == 0, "the label is the last batch mutation before Commit", msg)
		}
	}

}

// checkRekeyOrder (shared by C05, C04, C12): re-keying a shared root queues
// the copy under the new key before it deletes the old key.
func checkRekeyOrder(c *Ctx) {
	l := c.L
	c.rule("ORDER-rekey", "re-keying writes the new key before deleting the old", 1)
	dv := l.Func("", "*nodeDB.deleteVersion")
	snp := l.Func("", "*nodeDB.saveNodeFromPruning")
	dfp := l.Func("", "*nodeDB.deleteFromPruning")
	if dv == nil || snp == nil || dfp == nil {
		c.anchorMissing("ORDER-rekey", "deleteVersion / saveNodeFromPruning / deleteFromPruning")
	} else {
		saves := callsIn(dv, predStatic(snp))
		// the re-keying sequence may live in a helper method of nodeDB (one level): the call of the helper stands for
		// the save, and inside the helper no deletion may come before the save
		for _, in := range callsIn(dv, func(cc *ssa.CallCommon) bool {
			g := staticCallee(cc)
			return g != nil && g != snp && l.inModule(g) && len(g.Blocks) > 0 && len(callsIn(g, predStatic(snp))) > 0
		}) {
			saves = append(saves, in)
			g := staticCallee(callCommon(in))
			for _, s2 := range callsIn(g, predStatic(snp)) {
				var early ssa.Instruction
				for _, d2 := range callsIn(g, predStatic(dfp)) {
					if instrDominates(d2, s2) || reachesInstr(d2, s2) {
						early = d2
					}
				}
				pos := l.ipos(s2)
				if early != nil {
					pos = l.ipos(early)
				}
				c.decide("ORDER-rekey", l.fname(g)+" re-key helper: save new before delete old", pos, early == nil, "no deletion precedes the save inside the helper", "inside the re-key helper the old key is deleted before the re-keyed copy is queued")
			}
		}
		if len(saves) == 0 {
			c.anchorMissing("ORDER-rekey", "no saveNodeFromPruning in deleteVersion")
		}
		for _, s := range saves {
			// controlling branch of s
			var ctrl *ssa.BasicBlock
			ctrlSucc := 0
			for b := s.Block(); b != nil; b = b.Idom() {
				id := b.Idom()
				if id == nil {
					break
				}
				if iff := ifOf(id); iff != nil {
					// skip error checks (`if err != nil`)
					if _, _, isNil := nilCond(iff.Cond); isNil {
						continue
					}
					for si := range id.Succs {
						if edgeDominates(id, si, s.Block()) {
							ctrl, ctrlSucc = id, si
						}
					}
					if ctrl != nil {
						break
					}
				}
			}
			var before ssa.Instruction
			for _, d := range callsIn(dv, predStatic(dfp)) {
				if ctrl != nil && !edgeDominates(ctrl, ctrlSucc, d.Block()) {
					continue
				}
				if instrDominates(d, s) {
					before = d
				}
			}
			// the re-keying is decided by equality of the next version's root key with this version's own root key
			if ctrl != nil {
				okCond := false
				if ci := ifOf(ctrl); ci != nil {
					if call, isCall := stripTrivial(ci.Cond).(*ssa.Call); isCall {
						if f := staticCallee(&call.Call); f != nil && f.String() == "bytes.Equal" {
							a, b := roleOf(l, call.Call.Args[0], "", 0), roleOf(l, call.Call.Args[1], "", 0)
							own := func(r string) bool { return r == "GetRootKey(arg0)" }
							next := func(r string) bool { return strings.HasPrefix(r, "getRootKey(") && strings.Contains(r, "(arg0+1)") && strings.HasSuffix(r, "#0") }
							okCond = own(a) && next(b) || own(b) && next(a)
						}
					}
				}
				c.decide("ORDER-rekey", "deleteVersion re-keys only when the next version's root IS this version's root", l.ipos(s), okCond, "bytes.Equal(GetRootKey(version), root key of version+1)",
					"the re-keying is not decided by `next root key == (version,1)`: when the next root is another node of this version (a child promoted by a removal) a copy is written under (version,0) that nothing references and nothing ever deletes")
			}
			// … or a delete placed before the branch but made to run for the same condition (`a || b || referred`):
			// a delete reachable from the holds-edge of ANY test of the controlling condition that goes on to reach the save
			if before == nil && ctrl != nil {
				if ci := ifOf(ctrl); ci != nil {
					cv := stripTrivial(ci.Cond)
					for _, b := range dv.Blocks {
						iff := ifOf(b)
						if iff == nil || b == ctrl || stripTrivial(iff.Cond) != cv {
							continue
						}
						searchFrom([]point{blockStart(b.Succs[ctrlSucc])}, func(x ssa.Instruction) bool {
							if x == ssa.Instruction(s) {
								return true
							}
							if cc := callCommon(x); cc != nil && predStatic(dfp)(cc) && before == nil && reachesInstr(x, s) {
								before = x
							}
							return false
						})
					}
				}
			}
			msg := ""
			if before != nil {
				msg = "the old root key is deleted at " + l.ipos(before) + " before the re-keyed copy is queued: a flush in between leaves the next version's root reference dangling"
			}
			c.decide("ORDER-rekey", "deleteVersion re-key: save new before delete old", l.ipos(s), before == nil, "the re-keyed node is queued before the old key is deleted", msg)
		}
	}

}

// checkNoDirectStoreWrites (shared by C05, C01, C07): every mutation of the
// store goes through the pending batch.  A Set/Delete issued directly on the
// key-value store overtakes the operations queued before it (a queued Delete
// of the same key is applied AFTER the direct Set and erases it) and is a
// physical write in the middle of a logical operation.
func checkNoDirectStoreWrites(c *Ctx, rule string) {
	l := c.L
	c.rule(rule, "no mutation is issued directly on the key-value store (all go through the batch)", 0)
	n := 0
	for _, fn := range l.SrcFuncs {
		if l.pkgPathOf(fn) != l.ModPath {
			continue
		}
		allInstrs(fn, func(in ssa.Instruction) {
			cc := callCommon(in)
			if cc == nil || !cc.IsInvoke() {
				return
			}
			switch cc.Method.Name() {
			case "Set", "Delete", "SetSync", "DeleteSync":
			default:
				return
			}
			it, ok := cc.Value.Type().Underlying().(*types.Interface)
			if !ok {
				return
			}
			isStore := false
			for i := 0; i < it.NumMethods(); i++ {
				if it.Method(i).Name() == "Get" || it.Method(i).Name() == "Iterator" {
					isStore = true
				}
			}
			if !isStore {
				return
			}
			n++
			c.bad(rule, l.fname(fn)+" writes the store directly: "+cc.Method.Name(), l.ipos(in), "a mutation is issued directly on the key-value store, not through the pending batch: it overtakes the operations queued before it (a queued Delete of the same key erases it at the next write) and is a physical write in the middle of a logical operation")
		})
	}
	if n == 0 {
		c.ok(rule, "no direct store mutation in the module's root package", "-", "every Set/Delete invoke has a batch receiver")
	}
}

// checkBatchSiblings (shared by C05, C01): the two write entry points of the
// batch wrapper (Write / WriteSync) and its two queueing entry points (Set /
// Delete) keep the wrapper's bookkeeping in step: siblings write the same set
// of the wrapper's fields.  State that only one of them resets (a size or
// entry counter) drifts under the option that selects the other sibling
// (Options.Sync chooses WriteSync) and moves the flush point into the middle
// of a later, small commit.
func checkBatchSiblings(c *Ctx, rule string) {
	l := c.L
	c.rule(rule, "sibling entry points of the batch wrapper write the same wrapper fields", 2)
	fieldsWritten := func(fn *ssa.Function) map[string]bool {
		out := map[string]bool{}
		var walk func(f *ssa.Function, depth int)
		walk = func(f *ssa.Function, depth int) {
			if f == nil || len(f.Blocks) == 0 || len(f.Params) == 0 {
				return
			}
			recv := f.Params[0]
			allInstrs(f, func(in ssa.Instruction) {
				if st, ok := in.(*ssa.Store); ok {
					if fa, ok := st.Addr.(*ssa.FieldAddr); ok && stripTrivial(fa.X) == ssa.Value(recv) {
						out[fieldName(fa.X.Type(), fa.Field)] = true
					}
				}
				if depth < 2 {
					if cc := callCommon(in); cc != nil {
						if g := staticCallee(cc); g != nil && l.inModule(g) && g.Signature.Recv() != nil && len(cc.Args) > 0 && stripTrivial(cc.Args[0]) == ssa.Value(recv) {
							walk(g, depth+1)
						}
					}
				}
			})
		}
		walk(fn, 0)
		return out
	}
	for _, pair := range [][2]string{{"*BatchWithFlusher.Write", "*BatchWithFlusher.WriteSync"}, {"*BatchWithFlusher.Set", "*BatchWithFlusher.Delete"}} {
		a, b := l.Func("", pair[0]), l.Func("", pair[1])
		if a == nil || b == nil {
			c.anchorMissing(rule, pair[0]+" / "+pair[1])
			continue
		}
		fa, fb := fieldsWritten(a), fieldsWritten(b)
		var diff []string
		for f := range fa {
			if !fb[f] {
				diff = append(diff, f+" (only "+a.Name()+")")
			}
		}
		for f := range fb {
			if !fa[f] {
				diff = append(diff, f+" (only "+b.Name()+")")
			}
		}
		sort.Strings(diff)
		c.decide(rule, l.fname(a)+" ~ "+l.fname(b), l.pos(a.Pos()), len(diff) == 0, "both write the same wrapper fields",
			"the siblings do not write the same fields of the wrapper: "+strings.Join(diff, ", ")+" — bookkeeping that only one of them maintains drifts when the other is the one in use (Options.Sync selects WriteSync), and the next flush decision is taken on stale numbers")
	}
}
