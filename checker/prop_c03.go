package main

import (
	"fmt"
	"go/constant"
	"go/token"
	"go/types"
	"strings"

	"golang.org/x/tools/go/ssa"
)

func init() {
	register(&propCheck{id: "C03", needRoot: true, run: checkC03,
		explanation: "Decided statically: (1) FORMAT — the ICS-23 leaf op is built as prefix = varint(0) varint(1) varint(version) with SHA256 / SHA256 pre-hash / VAR_PROTO length, and each inner op as varint(height) varint(size) varint(version) followed by either 0x20‖left‖0x20 with an empty suffix, or 0x20 with suffix 0x20‖right — i.e. exactly the pinned hash pre-image with a hole at the child; the per-level proof node takes height and size from the node itself and the sibling hash from the child on the OPPOSITE side of the direction descended; (2) DOM/ERR — asking for a non-membership proof of a present key leaves with an error before any proof is built; a proof is never returned together with an error and the proof path's result is not used before its error is examined. Added in the build round: proofs never consult the fast index and versioned proofs use the committed snapshot (OWN-proof-from-tree); TABLE-neighbours — the absence proof looks up rank-1 (only when rank >= 1) and rank, and proves exactly those two keys. NOT decided: that produced proofs verify, that they fail for a wrong key/value/root (value-level). Rules added in the later seeding rounds (each listed with what it decides in this file's rule table) are described in DESIGN.md §3 \"Third and fourth seeding rounds\" and Appendix C3–C5."})
}

func checkC03(c *Ctx) {
	l := c.L
	checkProvableValues(c, "DOM-provable-value")
	c.rule("PASS-root-record", "existence and identity of a version come from its stored root record, not from the node cache or the working tree", 2)
	checkRootRecord(c, "PASS-root-record")
	c.rule("FORMAT-ics23-ops", "ics23 leaf/inner ops are the hash pre-image with a hole at the child", 4)
	c.rule("FLOW-proof-path", "per-level proof node uses the node's own height/size and the opposite child's hash", 4)
	c.rule("DOM-wrong-kind", "wrong-kind request is an error before any proof is built", 2)
	c.rule("ERR-proof", "no proof together with an error; no use of the path before its error", 3)

	helper := l.Func("", "convertVarIntToBytes")
	leafOp := l.Func("", "convertLeafOp")
	innerOps := l.Func("", "convertInnerOps")
	if helper == nil || leafOp == nil || innerOps == nil {
		c.anchorMissing("FORMAT-ics23-ops", "convertVarIntToBytes / convertLeafOp / convertInnerOps")
	} else {
		// varint helper really is a signed varint writer
		fx := &fmtExtractor{l: l}
		hs, _ := fx.sequences(helper)
		c.decide("FORMAT-ics23-ops", "convertVarIntToBytes is PutVarint", l.pos(helper.Pos()), len(hs) == 1 && hs[0] == "V(arg0)", "signed varint of its argument", "the varint helper no longer encodes its argument as a signed varint: "+strings.Join(hs, " || "))

		ics := findNamedInDeps(l, "github.com/cosmos/ics23/go", "LeafOp")
		icsInner := findNamedInDeps(l, "github.com/cosmos/ics23/go", "InnerOp")
		if ics == nil || icsInner == nil {
			c.anchorMissing("FORMAT-ics23-ops", "ics23.LeafOp / InnerOp")
		} else {
			lits := structLiteralStores(leafOp, ics)
			if len(lits) != 1 {
				c.bad("FORMAT-ics23-ops", "convertLeafOp literal", l.pos(leafOp.Pos()), "expected exactly one LeafOp literal")
			} else {
				m := lits[0]
				got := seqsToStrings(buildSeqs(l, m["Prefix"], helper, 0))
				c.decide("FORMAT-ics23-ops", "LeafOp.Prefix", l.pos(leafOp.Pos()), len(got) == 1 && got[0] == "V(0) V(1) V(arg0)",
					"prefix = varint(0) varint(1) varint(version)", "leaf prefix is "+strings.Join(got, " || ")+", pinned: V(0) V(1) V(arg0)")
				okOps := constEnum(m["Hash"]) == "HashOp_SHA256" && constEnum(m["PrehashValue"]) == "HashOp_SHA256" && constEnum(m["Length"]) == "LengthOp_VAR_PROTO" && m["PrehashKey"] == nil
				c.decide("FORMAT-ics23-ops", "LeafOp hash/length ops", l.pos(leafOp.Pos()), okOps, "SHA256, pre-hash value SHA256, no key pre-hash, VAR_PROTO length",
					"leaf op parameters differ from the IAVL spec: Hash="+constEnum(m["Hash"])+" PrehashValue="+constEnum(m["PrehashValue"])+" Length="+constEnum(m["Length"]))
			}
			ilits := structLiteralStores(innerOps, icsInner)
			if len(ilits) != 1 {
				c.bad("FORMAT-ics23-ops", "convertInnerOps literal", l.pos(innerOps.Pos()), "expected exactly one InnerOp literal")
			} else {
				m := ilits[0]
				pairs := pairedSeqs(l, m["Prefix"], m["Suffix"], helper)
				want := map[string]bool{
					"V(arg0[i].Height) V(arg0[i].Size) V(arg0[i].Version) RAW(0x20) BYTES(arg0[i].Left) RAW(0x20) || ":                                 true,
					"V(arg0[i].Height) V(arg0[i].Size) V(arg0[i].Version) RAW(0x20) || RAW(0x20) BYTES(arg0[i].Right)": true,
				}
				ok := len(pairs) == len(want)
				for _, p := range pairs {
					if !want[p] {
						ok = false
					}
				}
				c.decide("FORMAT-ics23-ops", "InnerOp.Prefix/Suffix", l.pos(innerOps.Pos()), ok, "pre-image with a hole at the child: "+strings.Join(pairs, "  //  "),
					"inner op layout differs from the pinned pre-image: "+strings.Join(pairs, "  //  "))
				c.decide("FORMAT-ics23-ops", "InnerOp hash op", l.pos(innerOps.Pos()), constEnum(m["Hash"]) == "HashOp_SHA256", "SHA256", "inner op hash is "+constEnum(m["Hash"]))
			}
		}
	}

	// ---- pathToLeaf literals
	ptl := l.Func("", "*Node.pathToLeaf")
	pin := l.NamedType("", "ProofInnerNode")
	if ptl == nil || pin == nil {
		c.anchorMissing("FLOW-proof-path", "Node.pathToLeaf / ProofInnerNode")
	} else {
		lits := 0
		allInstrs(ptl, func(in ssa.Instruction) {
			al, ok := in.(*ssa.Alloc)
			if !ok {
				return
			}
			n := derefNamed(al.Type())
			if n == nil || n.Obj() != pin.Obj() {
				return
			}
			m := map[string]ssa.Value{}
			for _, r := range refs(al) {
				if fa, ok := r.(*ssa.FieldAddr); ok {
					for _, rr := range refs(fa) {
						if st, ok := rr.(*ssa.Store); ok {
							m[fieldName(fa.X.Type(), fa.Field)] = st.Val
						}
					}
				}
			}
			if len(m) == 0 {
				return
			}
			lits++
			recv := ptl.Params[0].Name()
			h := roleOf(l, m["Height"], recv, 0)
			sz := roleOf(l, m["Size"], recv, 0)
			left := roleOf(l, m["Left"], recv, 0)
			right := roleOf(l, m["Right"], recv, 0)
			side := ""
			switch {
			case strings.HasPrefix(right, "getRightNode(") && strings.HasSuffix(right, ".hash") && (left == "nil" || m["Left"] == nil):
				side = "R"
			case strings.HasPrefix(left, "getLeftNode(") && strings.HasSuffix(left, ".hash") && (right == "nil" || m["Right"] == nil):
				side = "L"
			}
			key := "pathToLeaf proof node (sibling " + side + ")"
			if h != "subtreeHeight" || sz != "size" {
				c.bad("FLOW-proof-path", key+" height/size", l.ipos(al), "Height/Size are taken from `"+h+"`/`"+sz+"`, not from the node's own fields")
			} else {
				c.ok("FLOW-proof-path", key+" height/size", l.ipos(al), "node's own height and size")
			}
			if side == "" {
				c.bad("FLOW-proof-path", key+" sibling", l.ipos(al), "exactly one of Left/Right must be the opposite child's hash; got Left="+left+" Right="+right)
				return
			}
			// the recursive descent dominated by this literal goes to the other child
			var desc string
			for _, call := range callsIn(ptl, predStatic(ptl)) {
				if al.Block().Dominates(call.Block()) {
					desc = roleOf(l, callCommon(call).Args[0], recv, 0)
				}
			}
			wantDesc := "getLeftNode("
			if side == "L" {
				wantDesc = "getRightNode("
			}
			c.decide("FLOW-proof-path", key+" descends into the other child", l.ipos(al), strings.HasPrefix(desc, wantDesc),
				"sibling hash on one side, descent into the other", "the proof node records the hash of the child it descends into (descent: "+desc+")")
		})
		if lits != 2 {
			c.anchorMissing("FLOW-proof-path", "expected two ProofInnerNode literals in pathToLeaf")
		}
	}

	// ---- DOM
	gnm := l.Func("", "*ImmutableTree.GetNonMembershipProof")
	gwi := l.Func("", "*ImmutableTree.GetWithIndex")
	cep := l.Func("", "*ImmutableTree.createExistenceProof")
	if gnm == nil || gwi == nil || cep == nil {
		c.anchorMissing("DOM-wrong-kind", "GetNonMembershipProof / GetWithIndex / createExistenceProof")
	} else {
		gs := findGuards(gnm, nilTestMatcher(isResultOf(predStatic(gwi), 1), false))
		if len(gs) == 0 {
			c.bad("DOM-wrong-kind", "GetNonMembershipProof present-key exit", l.pos(gnm.Pos()), "the `value != nil ⇒ error` test is gone: a non-membership proof is produced for a present key")
		}
		isProof := func(in ssa.Instruction) bool { cc := callCommon(in); return cc != nil && predStatic(cep)(cc) }
		for _, g := range gs {
			ok, why := failEdgeLeavesWithError(gnm, g, isProof)
			c.decide("DOM-wrong-kind", "GetNonMembershipProof present-key exit", l.ipos(g.iff), ok, "present key ⇒ error, no proof built", why)
		}
		for _, in := range callsIn(gnm, predStatic(cep)) {
			c.decide("DOM-wrong-kind", "GetNonMembershipProof builds neighbour proof", l.ipos(in), guardsEffect(gs, in), "only after the key was found absent", "a neighbour proof is built without the absence test")
		}
	}
	// ---- the version a proof's leaf / inner ops carry is the node key's version: it must be the version the node was hashed with
	c.rule("OWN-node-version", "a node's version (hashed into it, and copied into proof ops) is fixed when the node is created or first keyed", 1)
	checkNodeVersionOwner(c)
	// ---- a proof is read off the memoised hashes: they must not survive a structural change
	c.rule("TYPESTATE-stale-hash", "fields that enter the hash pre-image are written only on freshly copied nodes", 15)
	checkStaleHashV1(c)
	// ---- neighbours of an absent key
	c.rule("TABLE-neighbours", "absence proof: left neighbour = rank-1 (if rank >= 1), right neighbour = rank (if present), each proved by an existence proof", 5)
	if gbi := l.Func("", "*ImmutableTree.GetByIndex"); gnm != nil && gwi != nil && cep != nil && gbi != nil {
		rank := "GetWithIndex(recv,arg0)#0"
		lk, rk := "GetByIndex(recv,("+rank+"-1))#0", "GetByIndex(recv,"+rank+")#0"
		var nLeft, nRight int
		for _, in := range callsIn(gnm, predStatic(gbi)) {
			r := roleOf(l, callCommon(in).Args[1], "", 0)
			switch r {
			case "(" + rank + "-1)":
				nLeft++
				// only when there is something to the left: rank >= 1
				isRank := func(v ssa.Value) bool { return roleOf(l, v, "", 0) == rank }
				one := func(v ssa.Value) bool { k, ok := constInt(v); return ok && k == 1 }
				zero := func(v ssa.Value) bool { k, ok := constInt(v); return ok && k == 0 }
				gs := append(findGuards(gnm, cmpMatcher(token.GEQ, isRank, one, false)), findGuards(gnm, cmpMatcher(token.GTR, isRank, zero, false))...)
				c.decide("TABLE-neighbours", "left neighbour looked up at rank-1 only when rank >= 1", l.ipos(in), guardsEffect(gs, in), "guarded by rank >= 1", "GetByIndex(rank-1) is not guarded by `rank >= 1`: for a key below the smallest key a negative rank is looked up")
			case rank:
				nRight++
				c.ok("TABLE-neighbours", "right neighbour looked up at the rank of the absent key", l.ipos(in), "GetByIndex(rank)")
			default:
				c.bad("TABLE-neighbours", "neighbour lookup at `"+r+"`", l.ipos(in), "a neighbour is looked up at `"+r+"`; the neighbours of an absent key of rank r are the keys of rank r-1 and r")
			}
		}
		if nLeft != 1 || nRight != 1 {
			c.bad("TABLE-neighbours", "both neighbours are looked up", l.pos(gnm.Pos()), fmt.Sprintf("%d lookups at rank-1 and %d at rank (one each expected)", nLeft, nRight))
		}
		if neT := findNamedInDeps(l, "github.com/cosmos/ics23/go", "NonExistenceProof"); neT == nil {
			c.anchorMissing("TABLE-neighbours", "ics23.NonExistenceProof")
		} else {
			for _, m := range structStoresAll(gnm, neT) {
				get := func(f string) string {
					var rs []string
					for _, v := range m[f] {
						rs = append(rs, roleOf(l, v, "", 0))
					}
					return strings.Join(rs, " | ")
				}
				c.decide("TABLE-neighbours", "NonExistenceProof.Key is the queried key", l.pos(gnm.Pos()), get("Key") == "arg0", "Key: key", "NonExistenceProof.Key is `"+get("Key")+"`")
				c.decide("TABLE-neighbours", "NonExistenceProof.Left proves the key of rank-1", l.pos(gnm.Pos()), get("Left") == "createExistenceProof(recv,"+lk+")#0", "existence proof of GetByIndex(rank-1)", "NonExistenceProof.Left is `"+get("Left")+"`")
				c.decide("TABLE-neighbours", "NonExistenceProof.Right proves the key of rank", l.pos(gnm.Pos()), get("Right") == "createExistenceProof(recv,"+rk+")#0", "existence proof of GetByIndex(rank)", "NonExistenceProof.Right is `"+get("Right")+"`")
			}
		}
	}
	// ---- proofs are computed from this tree only
	c.rule("OWN-proof-from-tree", "proof construction never consults the fast index; versioned proofs use the committed snapshot", 6)
	getFast := l.Func("", "*nodeDB.GetFastNode")
	if getFast == nil {
		c.anchorMissing("OWN-proof-from-tree", "nodeDB.GetFastNode")
	} else {
		idx := l.newReach(predStatic(getFast))
		for _, name := range []string{"*ImmutableTree.GetProof", "*ImmutableTree.GetMembershipProof", "*ImmutableTree.GetNonMembershipProof", "*ImmutableTree.createExistenceProof", "*MutableTree.GetVersionedProof"} {
			fn := l.Func("", name)
			if fn == nil {
				c.anchorMissing("OWN-proof-from-tree", name)
				continue
			}
			var bad ssa.Instruction
			allInstrs(fn, func(in ssa.Instruction) {
				if callCommon(in) == nil || bad != nil {
					return
				}
				// calls into the other proof functions are judged there
				if g := staticCallee(callCommon(in)); g != nil && strings.Contains(g.Name(), "Proof") {
					return
				}
				if idx.Instr(in) {
					bad = in
				}
			})
			msg := ""
			if bad != nil {
				msg = "the proof path consults the fast index through " + l.calleeName(bad) + ": the index describes the latest saved version, not this tree (working tree, older versions), so the proof kind / value can be wrong"
			}
			pos := l.pos(fn.Pos())
			if bad != nil {
				pos = l.ipos(bad)
			}
			c.decide("OWN-proof-from-tree", l.fname(fn)+" does not read the index", pos, bad == nil, "decisions and values come from walking this tree", msg)
		}
		gvp := l.Func("", "*MutableTree.GetVersionedProof")
		gim := l.Func("", "*MutableTree.GetImmutable")
		gp := l.Func("", "*ImmutableTree.GetProof")
		if gvp != nil && gim != nil && gp != nil {
			ok := true
			why := ""
			calls := callsIn(gvp, predStatic(gp))
			if len(calls) == 0 {
				ok, why = false, "GetVersionedProof no longer calls GetProof"
			}
			for _, in := range calls {
				recv := stripTrivial(callCommon(in).Args[0])
				if !isResultOf(predStatic(gim), 0)(recv) {
					ok, why = false, "the proof is taken from `"+roleOf(l, recv, "", 0)+"`, not from the snapshot returned by GetImmutable(version): with uncommitted writes the proof is bound to the working root"
				}
			}
			c.decide("OWN-proof-from-tree", "GetVersionedProof proves on the GetImmutable snapshot", l.pos(gvp.Pos()), ok, "receiver of GetProof is the GetImmutable result", why)
		}
	}

	// ---- ERR
	ea := newErrAnalysis(c, l)
	proofFns := map[string]bool{"createExistenceProof": true, "GetMembershipProof": true, "GetNonMembershipProof": true, "GetProof": true, "GetVersionedProof": true}
	only := func(fn *ssa.Function) bool { return proofFns[fn.Name()] }
	ea.runE6("ERR-proof", only)
	// no proof returned together with a possibly non-nil error
	for _, name := range []string{"*ImmutableTree.createExistenceProof", "*ImmutableTree.GetMembershipProof", "*ImmutableTree.GetNonMembershipProof"} {
		fn := l.Func("", name)
		if fn == nil {
			c.anchorMissing("ERR-proof", name)
			continue
		}
		ok := true
		var bad *ssa.Return
		for _, r := range returnsOf(fn) {
			v := stripTrivial(retVal(r, 0))
			if isNilConst(v) {
				continue
			}
			if errNilness(retVal(r, 1), r.Block(), 0) >= 0 && !isNilConst(stripTrivial(retVal(r, 1))) {
				// error operand not the nil constant and not known nil
				if errNilness(retVal(r, 1), r.Block(), 0) == 0 {
					if call, isCall := stripTrivial(retVal(r, 1)).(*ssa.Call); isCall && callCommon(call) != nil {
						continue // `return f()` style is not used here
					}
				}
				ok, bad = false, r
			}
		}
		pos := l.pos(fn.Pos())
		if bad != nil {
			pos = l.ipos(bad)
		}
		c.decide("ERR-proof", l.fname(fn)+" never returns a proof with an error", pos, ok, "a non-nil proof is returned only with a nil error", "a proof object is returned together with a possibly non-nil error")
	}
}

// constEnum renders an enum constant by matching its value against the
// constants of its named type.
func constEnum(v ssa.Value) string {
	if v == nil {
		return "<unset>"
	}
	cst, ok := stripTrivial(v).(*ssa.Const)
	if !ok || cst.Value == nil {
		return "?"
	}
	named, ok := cst.Type().(*types.Named)
	if !ok {
		return cst.Value.String()
	}
	scope := named.Obj().Pkg().Scope()
	for _, n := range scope.Names() {
		if k, ok := scope.Lookup(n).(*types.Const); ok && types.Identical(k.Type(), named) && constant.Compare(k.Val(), token.EQL, cst.Value) {
			return n
		}
	}
	return cst.Value.String()
}

func findNamedInDeps(l *Loaded, pkgPath, name string) *types.Named {
	var p *ssa.Package
	for _, q := range l.Prog.AllPackages() {
		if q.Pkg.Path() == pkgPath {
			p = q
		}
	}
	if p == nil {
		return nil
	}
	obj := p.Pkg.Scope().Lookup(name)
	if obj == nil {
		return nil
	}
	n, _ := obj.Type().(*types.Named)
	return n
}

// pairedSeqs evaluates prefix and suffix jointly: if both are phis of the
// same block, alternatives are zipped by incoming edge.
func pairedSeqs(l *Loaded, prefix, suffix ssa.Value, helper *ssa.Function) []string {
	join := func(a, b [][]fmtTok) []string {
		var out []string
		for _, x := range a {
			for _, y := range b {
				out = append(out, seqString(x)+" || "+seqString(y))
			}
		}
		return out
	}
	if suffix == nil {
		return join(buildSeqs(l, prefix, helper, 0), [][]fmtTok{{}})
	}
	pp, ok1 := stripTrivial(prefix).(*ssa.Phi)
	sp, ok2 := stripTrivial(suffix).(*ssa.Phi)
	if ok1 && ok2 && pp.Block() == sp.Block() {
		var out []string
		for i := range pp.Edges {
			out = append(out, join(buildSeqs(l, pp.Edges[i], helper, 0), buildSeqs(l, sp.Edges[i], helper, 0))...)
		}
		return dedupe(out)
	}
	return dedupe(join(buildSeqs(l, prefix, helper, 0), buildSeqs(l, suffix, helper, 0)))
}

func dedupe(in []string) []string {
	seen := map[string]bool{}
	var out []string
	for _, s := range in {
		if !seen[s] {
			seen[s] = true
			out = append(out, s)
		}
	}
	return out
}

// checkProvableValues (C03): ics23's existence-proof check refuses a leaf with
// an empty value.  "Every present key has a membership proof that verifies"
// therefore needs every storable value to be non-empty: the write API has to
// refuse a zero-length value the way it refuses nil (or the proof layer must
// not use a specification that refuses it).  Decided on MutableTree.set: an
// emptiness test of the value with an error exit before the first effect.
func checkProvableValues(c *Ctx, rule string) {
	l := c.L
	c.rule(rule, "every value the write API accepts can be proven under the ICS-23 IAVL spec (non-empty)", 1)
	set := l.Func("", "*MutableTree.set")
	if set == nil || len(set.Params) < 3 {
		c.anchorMissing(rule, "MutableTree.set")
		return
	}
	val := set.Params[2]
	gs := nonEmptyGuards(set, func(v ssa.Value) bool { return v == ssa.Value(val) })
	ok := false
	for _, g := range gs {
		if okk, _ := failEdgeLeavesWithError(set, g, nil); okk {
			ok = true
		}
	}
	c.decide(rule, "MutableTree.set refuses a value that has no ICS-23 membership proof", l.pos(set.Pos()), ok, "a zero-length value is refused with an error",
		"Set accepts an empty (non-nil) value; the ICS-23 verifier refuses an existence proof whose value is empty, so a present key with an empty value has no verifying membership proof (and is a neighbour no non-membership proof can use)")
}
