// iavlcheck decides structural clauses of the iavl properties on the
// type-checked SSA form of /repo's current working tree.  It never runs iavl
// code.
package main

import (
	"encoding/json"
	"flag"
	"fmt"
	"os"
	"path/filepath"
	"runtime/debug"
	"sort"
	"strconv"
	"strings"
	"time"

	"golang.org/x/tools/go/ssa"
)

type propCheck struct {
	id          string
	needV2      bool
	needRoot    bool
	explanation string
	run         func(c *Ctx)
}

var registry = map[string]*propCheck{}

func register(p *propCheck) { registry[p.id] = p }

func main() {
	repo := flag.String("repo", "/repo", "repository root")
	prop := flag.String("property", "", "property id (C01…), comma list, or 'all'")
	tier := flag.String("tier", "quick", "quick|thorough")
	evdir := flag.String("evidence-dir", "/verif/evidence", "directory for evidence files")
	knownPath := flag.String("known", "/verif/known_findings.json", "known findings file")
	goarch := flag.String("goarch", "", "GOARCH to analyse under (default: host)")
	list := flag.Bool("list", false, "list obligations")
	replay := flag.String("replay", "", "violation file: re-decide only that obligation")
	extraPath := flag.String("extra", "", "JSON object merged into the evidence coverage (thorough tier results)")
	flag.Parse()
	start := time.Now()

	seed := 0
	if s := os.Getenv("VERIF_SEED"); s != "" {
		seed, _ = strconv.Atoi(s)
	}

	var ids []string
	if *prop == "all" {
		for id := range registry {
			ids = append(ids, id)
		}
	} else {
		ids = strings.Split(*prop, ",")
	}
	sort.Strings(ids)
	needV2, needRoot := false, false
	for _, id := range ids {
		p, ok := registry[id]
		if !ok {
			fmt.Fprintf(os.Stderr, "unknown property %q\n", id)
			os.Exit(2)
		}
		needV2 = needV2 || p.needV2
		needRoot = needRoot || p.needRoot
	}
	kf, err := loadKnown(*knownPath)
	if err != nil {
		fmt.Fprintln(os.Stderr, err)
		os.Exit(2)
	}

	var root, v2 *Loaded
	if needRoot {
		root, err = loadModule(*repo, "github.com/cosmos/iavl", *goarch, "./...")
		if err != nil {
			failAll(ids, *evdir, *tier, seed, start, "cannot load/type-check root module: "+err.Error())
		}
		if len(root.SrcFuncs) < 300 {
			failAll(ids, *evdir, *tier, seed, start, fmt.Sprintf("only %d source functions loaded from root module", len(root.SrcFuncs)))
		}
	}
	if needV2 {
		v2, err = loadModule(filepath.Join(*repo, "v2"), "github.com/cosmos/iavl/v2", *goarch, ".")
		if err != nil {
			failAll(ids, *evdir, *tier, seed, start, "cannot load/type-check v2 module: "+err.Error())
		}
		if len(v2.SrcFuncs) < 100 {
			failAll(ids, *evdir, *tier, seed, start, fmt.Sprintf("only %d source functions loaded from v2 module", len(v2.SrcFuncs)))
		}
	}
	if os.Getenv("IAVLCHECK_DUMPFORMAT") != "" {
		dumpFormats(root, v2)
		if root != nil {
			dumpTables(root)
			dumpDiffTable(root)
		}
		if v2 != nil {
			dumpV2Tables(v2)
		}
	}
	loadT := time.Since(start)
	fmt.Printf("loaded in %.1fs (root funcs=%d)\n", loadT.Seconds(), func() int {
		if root != nil {
			return len(root.SrcFuncs)
		}
		return 0
	}())

	exit := 0
	for _, id := range ids {
		p := registry[id]
		l := root
		if l == nil {
			l = v2
		}
		c := newCtx(id, *tier, l)
		c.V2 = v2
		func() {
			defer func() {
				if r := recover(); r != nil {
					c.fatal = append(c.fatal, fmt.Sprintf("checker panic: %v\n%s", r, debug.Stack()))
				}
			}()
			p.run(c)
		}()
		if *replay != "" {
			c.filterReplay(*replay)
		}
		if *list {
			for _, o := range c.obs {
				fmt.Printf("%-10s %-18s %-70s %-22s %s\n", o.Status, o.Rule, o.Key, o.Pos, o.Reason)
			}
		}
		var extra map[string]any
		if *extraPath != "" {
			if b, err := os.ReadFile(*extraPath); err == nil {
				json.Unmarshal(b, &extra)
			}
		}
		code := c.finish(kf, filepath.Join(*evdir, id+".json"), p.explanation, start, seed, extra)
		if code > exit {
			exit = code
		}
	}
	os.Exit(exit)
}

// failAll writes a failing evidence file for every requested property when
// the program cannot even be loaded (type error, missing module…).
func failAll(ids []string, evdir, tier string, seed int, start time.Time, msg string) {
	fmt.Fprintln(os.Stderr, msg)
	for _, id := range ids {
		c := &Ctx{Prop: id, Tier: tier, L: &Loaded{byPkg: map[string]*ssa.Package{}}, rules: map[string]*RuleStats{}, seen: map[string]bool{}}
		c.fatal = append(c.fatal, msg)
		c.finish(&knownFile{}, filepath.Join(evdir, id+".json"), "program could not be loaded; nothing was decided", start, seed, nil)
	}
	os.Exit(1)
}

// filterReplay keeps only the obligation recorded in a violation file.
func (c *Ctx) filterReplay(path string) {
	b, err := os.ReadFile(path)
	if err != nil {
		c.fatal = append(c.fatal, "replay: "+err.Error())
		return
	}
	var o Ob
	if err := json.Unmarshal(b, &o); err != nil {
		c.fatal = append(c.fatal, "replay: "+err.Error())
		return
	}
	var keep []*Ob
	for _, x := range c.obs {
		if x.Rule == o.Rule && x.Key == o.Key {
			keep = append(keep, x)
		}
	}
	c.obs = keep
	for _, r := range c.rules {
		r.Floor = 0
	}
	if len(keep) == 0 {
		fmt.Printf("replay: obligation %s %s no longer exists on this tree\n", o.Rule, o.Key)
	}
}
