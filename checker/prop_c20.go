package main

import (
	"strings"

	"golang.org/x/tools/go/ssa"
)

func init() {
	register(&propCheck{id: "C20", needV2: true, needRoot: true, run: checkC20,
		explanation: "Decided statically on module v2 (narrow; necessary conditions only): (1) DOM — the change-log replay that reconstructs a version ends in a comparison of the recomputed root hash with the stored root hash of the target version, and every success return is on its `equal` edge: a reload cannot silently produce a different tree; LoadVersion takes that target hash from the stored root of exactly the requested version and replays only when the target lies after the checkpoint it started from; (2) ERR — at every call site of the v2 module that can reach a SQLite operation and returns an error, the error is not dropped and not swallowed into a nil-error return (same E1/E2 rules as C17, with SQLite statement/connection methods as the storage operations). NOT decided: that the replay actually reproduces the contents (sequence numbers, orphan tagging), pruning semantics, the two writer goroutines, snapshots — these depend on SQL text and runtime data."})
}

// sqliteOps: calls into the SQLite binding.
func sqliteOps() CallPred {
	return func(c *ssa.CallCommon) bool {
		f := staticCallee(c)
		if f == nil || f.Pkg == nil {
			return false
		}
		return strings.HasSuffix(f.Pkg.Pkg.Path(), "go-sqlite-lite/sqlite3") && errResultIndex(f.Signature) >= 0
	}
}

func checkC20(c *Ctx) {
	l := c.V2
	c.rule("DOM-replay-hash-check", "a reloaded version is accepted only if its recomputed root hash equals the stored one", 3)
	c.rule("ERR-sqlite", "errors of SQLite-reaching calls are not dropped or swallowed", 100)
	c.rule("SQL-schema", "every SQL statement names existing tables / columns; INSERT, UNION and duplicate CREATE lists agree", 40)
	c.rule("SQL-arity", "placeholders = bound values and result columns = Scan destinations, for every statement a prepared-statement variable can hold", 30)
	c.rule("SQL-roles", "NodeKey version / sequence are bound to and scanned from *version / *sequence columns", 15)
	if l == nil {
		c.fatal = append(c.fatal, "v2 module not loaded")
		return
	}
	c.L = l // evidence describes the module analysed
	replay := l.Func("", "*SqliteDb.replayChangelog")
	lv := l.Func("", "*Tree.LoadVersion")
	compute := l.Func("", "*Tree.computeHash")
	loadRoot := l.Func("", "*SqliteDb.LoadRoot")
	if replay == nil || lv == nil || compute == nil || loadRoot == nil {
		c.anchorMissing("DOM-replay-hash-check", "replayChangelog / LoadVersion / computeHash / LoadRoot")
	} else {
		// the Equal(targetHash, computeHash()) test
		gs := findGuards(replay, func(cond ssa.Value) (bool, int) {
			v := stripTrivial(cond)
			call, ok := v.(*ssa.Call)
			if !ok {
				return false, 0
			}
			f := staticCallee(&call.Call)
			if f == nil || f.String() != "bytes.Equal" {
				return false, 0
			}
			a, b := roleOf(l, call.Call.Args[0], "", 0), roleOf(l, call.Call.Args[1], "", 0)
			if (a == "arg2" && strings.HasPrefix(b, "computeHash(")) || (b == "arg2" && strings.HasPrefix(a, "computeHash(")) {
				return true, 0
			}
			return false, 0
		})
		if len(gs) == 0 {
			c.bad("DOM-replay-hash-check", "replayChangelog compares the recomputed root hash with the target", l.pos(replay.Pos()), "no bytes.Equal(targetHash, computeHash()) test found")
		} else {
			ok := true
			var bad *ssa.Return
			for _, r := range successReturns(replay) {
				if !guardsEffect(gs, r) {
					ok, bad = false, r
				}
			}
			pos := l.pos(replay.Pos())
			if bad != nil {
				pos = l.ipos(bad)
			}
			c.decide("DOM-replay-hash-check", "replayChangelog succeeds only on the hash-equal edge", pos, ok, "every success return is dominated by the `equal` edge", "a success return is reachable without the root-hash comparison: a reload may hand back a tree with a different hash")
			for _, g := range gs {
				o, why := failEdgeLeavesWithError(replay, g, nil)
				c.decide("DOM-replay-hash-check", "replayChangelog hash mismatch is an error", l.ipos(g.iff), o, "mismatch ⇒ error", why)
			}
		}
		// LoadVersion: the target hash comes from LoadRoot(version)
		okSrc := false
		for _, in := range callsIn(lv, predStatic(l.Func("", "*Tree.replayChangelog"))) {
			cc := callCommon(in)
			r := roleOf(l, cc.Args[2], "", 0)
			ver := roleOf(l, cc.Args[1], "", 0)
			if ver == "arg0" && strings.Contains(r, "LoadRoot(recv.sql,arg0)#0.hash") {
				okSrc = true
			}
			c.decide("DOM-replay-hash-check", "LoadVersion replays to the requested version against its stored root hash", l.ipos(in), okSrc, "target = requested version, hash = stored root's hash (or the empty hash)", "replay target/hash is `"+ver+"` / `"+r+"`")
		}
		if !okSrc && len(callsIn(lv, predStatic(l.Func("", "*Tree.replayChangelog")))) == 0 {
			c.bad("DOM-replay-hash-check", "LoadVersion replays the change log", l.pos(lv.Pos()), "LoadVersion no longer replays")
		}
	}
	checkSQLRules(c, l, "SQL-schema", "SQL-arity", "SQL-roles")
	ea := newErrAnalysisWith(c, l, sqliteOps())
	ea.runE1E2E4("ERR-sqlite", "ERR-sqlite", "ERR-sqlite", func(fn *ssa.Function) bool {
		p := l.pkgPathOf(fn)
		return p == l.ModPath
	})
}
