package main

import (
	"go/token"
	"strings"

	"golang.org/x/tools/go/ssa"
)

func init() {
	register(&propCheck{id: "C20", needV2: true, needRoot: true, run: checkC20,
		explanation: "Decided statically on module v2 (narrow; necessary conditions only): (1) DOM — the change-log replay that reconstructs a version ends in a comparison of the recomputed root hash with the stored root hash of the target version, and every success return is on its `equal` edge: a reload cannot silently produce a different tree; LoadVersion takes that target hash from the stored root of exactly the requested version and replays only when the target lies after the checkpoint it started from; (2) ERR — at every call site of the v2 module that can reach a SQLite operation and returns an error, the error is not dropped and not swallowed into a nil-error return (same E1/E2 rules as C17, with SQLite statement/connection methods as the storage operations). Added in the build round: SQL — every statement text is recovered from the program and parsed: tables / columns exist in the CREATE TABLE of that table, INSERT / UNION / duplicate CREATE lists agree (SQL-schema); placeholders = bound values and result columns = Scan destinations for every statement a prepared-statement variable can hold (SQL-arity); NodeKey version / sequence are bound to and scanned from *version / *sequence columns (SQL-roles); ORDER-replay-reset — the replay returns with the pending-write lists reset after the last call that fills them; FLOW-prune-to-checkpoint — the leaf change log is pruned only to FindPrevious(requested); FLOW-checkpoint-flag — the stored checkpoint flag and the in-memory checkpoint list derive from the same decision; SIB-memoize. NOT decided: that the replay actually reproduces the contents (runtime sequence numbers, which rows get tagged as orphans and with which version), the interleavings of the two writer goroutines, snapshot contents — these are runtime data, and the WHERE-clause arithmetic of the SQL is only checked for shape (tables, columns, arity, roles), not for meaning. Rules added in the later seeding rounds (each listed with what it decides in this file's rule table) are described in DESIGN.md §3 \"Third and fourth seeding rounds\" and Appendix C3–C5."})
}

// sqliteOps: calls into the SQLite binding.
func sqliteOps() CallPred {
	return func(c *ssa.CallCommon) bool {
		f := staticCallee(c)
		if f == nil || f.Pkg == nil {
			return false
		}
		return strings.HasSuffix(f.Pkg.Pkg.Path(), "go-sqlite-lite/sqlite3") && errResultIndex(f.Signature) >= 0
	}
}

func checkC20(c *Ctx) {
	l := c.V2
	c.rule("DOM-replay-hash-check", "a reloaded version is accepted only if its recomputed root hash equals the stored one", 3)
	c.rule("ERR-sqlite", "errors of SQLite-reaching calls are not dropped or swallowed", 100)
	c.rule("ORDER-replay-reset", "the replay leaves no replayed node in the tree's pending-write lists when it returns", 1)
	c.rule("FLOW-prune-to-checkpoint", "the leaf change log is pruned only up to a checkpoint version (FindPrevious)", 2)
	c.rule("FLOW-checkpoint-flag", "the stored checkpoint flag and the in-memory checkpoint list derive from the same decision", 4)
	c.rule("SQL-schema", "every SQL statement names existing tables / columns; INSERT, UNION and duplicate CREATE lists agree", 40)
	c.rule("SQL-arity", "placeholders = bound values and result columns = Scan destinations, for every statement a prepared-statement variable can hold", 30)
	c.rule("SQL-roles", "NodeKey version / sequence are bound to and scanned from *version / *sequence columns", 15)
	if l == nil {
		c.fatal = append(c.fatal, "v2 module not loaded")
		return
	}
	c.L = l // evidence describes the module analysed
	replay := l.Func("", "*SqliteDb.replayChangelog")
	lv := l.Func("", "*Tree.LoadVersion")
	compute := l.Func("", "*Tree.computeHash")
	loadRoot := l.Func("", "*SqliteDb.LoadRoot")
	if replay == nil || lv == nil || compute == nil || loadRoot == nil {
		c.anchorMissing("DOM-replay-hash-check", "replayChangelog / LoadVersion / computeHash / LoadRoot")
	} else {
		// the Equal(targetHash, computeHash()) test
		gs := findGuards(replay, func(cond ssa.Value) (bool, int) {
			v := stripTrivial(cond)
			call, ok := v.(*ssa.Call)
			if !ok {
				return false, 0
			}
			f := staticCallee(&call.Call)
			if f == nil || f.String() != "bytes.Equal" {
				return false, 0
			}
			a, b := roleOf(l, call.Call.Args[0], "", 0), roleOf(l, call.Call.Args[1], "", 0)
			if (a == "arg2" && strings.HasPrefix(b, "computeHash(")) || (b == "arg2" && strings.HasPrefix(a, "computeHash(")) {
				return true, 0
			}
			return false, 0
		})
		if len(gs) == 0 {
			c.bad("DOM-replay-hash-check", "replayChangelog compares the recomputed root hash with the target", l.pos(replay.Pos()), "no bytes.Equal(targetHash, computeHash()) test found")
		} else {
			ok := true
			var bad *ssa.Return
			for _, r := range successReturns(replay) {
				if !guardsEffect(gs, r) {
					ok, bad = false, r
				}
			}
			pos := l.pos(replay.Pos())
			if bad != nil {
				pos = l.ipos(bad)
			}
			c.decide("DOM-replay-hash-check", "replayChangelog succeeds only on the hash-equal edge", pos, ok, "every success return is dominated by the `equal` edge", "a success return is reachable without the root-hash comparison: a reload may hand back a tree with a different hash")
			for _, g := range gs {
				o, why := failEdgeLeavesWithError(replay, g, nil)
				c.decide("DOM-replay-hash-check", "replayChangelog hash mismatch is an error", l.ipos(g.iff), o, "mismatch ⇒ error", why)
			}
		}
		// LoadVersion: the target hash comes from LoadRoot(version)
		okSrc := false
		for _, in := range callsIn(lv, predStatic(l.Func("", "*Tree.replayChangelog"))) {
			cc := callCommon(in)
			r := roleOf(l, cc.Args[2], "", 0)
			ver := roleOf(l, cc.Args[1], "", 0)
			if ver == "arg0" && strings.Contains(r, "LoadRoot(recv.sql,arg0)#0.hash") {
				okSrc = true
			}
			c.decide("DOM-replay-hash-check", "LoadVersion replays to the requested version against its stored root hash", l.ipos(in), okSrc, "target = requested version, hash = stored root's hash (or the empty hash)", "replay target/hash is `"+ver+"` / `"+r+"`")
		}
		if !okSrc && len(callsIn(lv, predStatic(l.Func("", "*Tree.replayChangelog")))) == 0 {
			c.bad("DOM-replay-hash-check", "LoadVersion replays the change log", l.pos(lv.Pos()), "LoadVersion no longer replays")
		}
	}
	checkSQLRules(c, l, "SQL-schema", "SQL-arity", "SQL-roles")
	checkSQLTableListOrder(c, l, "SQL-table-list-order")
	checkV2SnapshotLoadsLeaves(c, l, "FLOW-snapshot-loads-leaves")
	checkV2ReplayLeafValue(c, l, "TYPESTATE-replay-leaf-value")
	checkV2ShardResolution(c, l, "FLOW-shard-resolution")
	checkV2CheckpointRules(c, l)
	checkReplayVersion(c, l)
	c.rule("SIB-memoize", "FindMemoized agrees with Find", 2)
	checkV2Memoize(c, l, "SIB-memoize")
	ea := newErrAnalysisWith(c, l, sqliteOps())
	ea.runE1E2E4("ERR-sqlite", "ERR-sqlite", "ERR-sqlite", func(fn *ssa.Function) bool {
		p := l.pkgPathOf(fn)
		return p == l.ModPath
	})
}

// allUnder lists fn and every function nested in it.
func allUnder(fn *ssa.Function) []*ssa.Function {
	out := []*ssa.Function{fn}
	for _, a := range fn.AnonFuncs {
		out = append(out, allUnder(a)...)
	}
	return out
}

// checkV2CheckpointRules: structural necessary conditions of "any retained
// version reloads, also after pruning".
func checkV2CheckpointRules(c *Ctx, l *Loaded) {
	// ---- (1) replay: pending-write lists are clean at every success return.
	// computeHash (deepHash) appends the nodes it hashes to tree.leaves / tree.branches; Set/Remove
	// append too.  A replayed node left in those lists is written again by the next SaveVersion with
	// INSERT OR REPLACE, over the correct change-log row, without its value.
	replay := l.Func("", "*SqliteDb.replayChangelog")
	fLeaves := l.Field("", "Tree", "leaves")
	fBranches := l.Field("", "Tree", "branches")
	if replay == nil || fLeaves == nil || fBranches == nil {
		c.anchorMissing("ORDER-replay-reset", "replayChangelog / Tree.leaves / Tree.branches")
	} else {
		writers := l.newFnReach(func(fn *ssa.Function) bool {
			if fn == replay || !l.inModule(fn) {
				return false
			}
			w := false
			allInstrs(fn, func(in ssa.Instruction) {
				if st, ok := in.(*ssa.Store); ok && isStoreToField(st, fLeaves, fBranches) && !isNilConst(st.Val) {
					w = true
				}
			})
			return w
		})
		gen := func(in ssa.Instruction) bool {
			st, ok := in.(*ssa.Store)
			return ok && isStoreToField(st, fLeaves) && isNilConst(st.Val)
		}
		kill := func(in ssa.Instruction) bool { return callCommon(in) != nil && writers.Instr(in) }
		clean := mustState(replay, false, gen, kill)
		var bad *ssa.Return
		n := 0
		for _, r := range successReturns(replay) {
			if isRecoverReturn(r) {
				continue
			}
			n++
			if !clean(r) {
				bad = r
			}
		}
		pos := l.pos(replay.Pos())
		if bad != nil {
			pos = l.ipos(bad)
		}
		c.decide("ORDER-replay-reset", "replayChangelog resets the pending-write lists after the last call that fills them", pos, bad == nil && n > 0,
			"every success return is reached with tree.leaves reset after the last Set / Remove / computeHash", "a success return is reached after a call that appends replayed nodes to tree.leaves / tree.branches without a later reset: the next SaveVersion re-writes them (INSERT OR REPLACE) over the correct change-log rows")
	}

	// ---- (2) leaf prune target is a checkpoint
	leafLoop := l.Func("", "*sqlWriter.leafLoop")
	findPrev := l.Func("", "*VersionRange.FindPrevious")
	if leafLoop == nil || findPrev == nil {
		c.anchorMissing("FLOW-prune-to-checkpoint", "sqlWriter.leafLoop / VersionRange.FindPrevious")
	} else {
		under := allUnder(leafLoop)
		// the closure that opens the leaf-orphan prune query with its parameter bound
		var begin *ssa.Function
		for _, f := range under {
			allInstrs(f, func(in ssa.Instruction) {
				cc := callCommon(in)
				if cc == nil || !sqlMethod(cc, "Conn", "Prepare") {
					return
				}
				ts, ok := textsOf(cc.Args[1], 0)
				if !ok {
					return
				}
				for _, t := range ts {
					lt := strings.ToLower(t)
					if strings.Contains(lt, "select") && strings.Contains(lt, "leaf_orphan") {
						begin = f
					}
				}
			})
		}
		if begin == nil || len(begin.Params) == 0 {
			c.anchorMissing("FLOW-prune-to-checkpoint", "closure preparing the leaf_orphan prune query")
		} else {
			cells := map[ssa.Value]bool{}
			nCalls := 0
			for _, f := range under {
				allInstrs(f, func(in ssa.Instruction) {
					cc := callCommon(in)
					if cc == nil {
						return
					}
					hit := false
					for _, g := range l.calleesOf(in) {
						if g == begin {
							hit = true
						}
					}
					if !hit || len(cc.Args) == 0 {
						return
					}
					nCalls++
					a := stripTrivial(cc.Args[len(cc.Args)-1])
					if ld, ok := a.(*ssa.UnOp); ok && ld.Op == token.MUL {
						cells[cellOf(ld.X)] = true
						return
					}
					// a direct value: must itself be a FindPrevious result
					r := roleOf(l, a, "", 0)
					c.decide("FLOW-prune-to-checkpoint", l.fname(f)+" opens the leaf prune batch", l.ipos(in), strings.HasPrefix(r, "FindPrevious("), "target = FindPrevious(requested)", "the leaf prune batch is opened for `"+r+"`, not for a checkpoint version")
				})
			}
			if nCalls == 0 {
				c.anchorMissing("FLOW-prune-to-checkpoint", "no call of the prune-batch closure found")
			}
			for _, f := range under {
				allInstrs(f, func(in ssa.Instruction) {
					st, ok := in.(*ssa.Store)
					if !ok || !cells[cellOf(st.Addr)] {
						return
					}
					r := roleOf(l, st.Val, "", 0)
					ok2 := r == "0" || strings.HasPrefix(r, "FindPrevious(")
					c.decide("FLOW-prune-to-checkpoint", l.fname(f)+" sets the leaf prune target", l.ipos(st), ok2, "0 (idle) or FindPrevious(requested): leaves are pruned to checkpoint boundaries only",
						"the leaf prune target is set to `"+r+"`: pruning the change log to a non-checkpoint version removes rows that the replay from the previous checkpoint still needs")
				})
			}
		}
	}

	// ---- (3) checkpoint flag
	const R = "FLOW-checkpoint-flag"
	saveRoot := l.Func("", "*SqliteDb.SaveRoot")
	saveTree := l.Func("", "*sqlWriter.saveTree")
	sigT := l.NamedType("", "saveSignal")
	sv := l.Func("", "*Tree.SaveVersion")
	add := l.Func("", "*VersionRange.Add")
	fShould := l.Field("", "Tree", "shouldCheckpoint")
	if saveRoot == nil || saveTree == nil || sigT == nil || sv == nil || add == nil || fShould == nil {
		c.anchorMissing(R, "SaveRoot / sqlWriter.saveTree / saveSignal / Tree.SaveVersion / VersionRange.Add / Tree.shouldCheckpoint")
		return
	}
	for _, m := range structLiteralStores(saveTree, sigT) {
		r := roleOf(l, m["wantCheckpoint"], "", 0)
		c.decide(R, "saveSignal.wantCheckpoint <- tree.shouldCheckpoint", l.pos(saveTree.Pos()), r == "arg0.shouldCheckpoint", "the writer is told the tree's decision", "saveSignal.wantCheckpoint is `"+r+"`")
	}
	nSR := 0
	for _, f := range l.SrcFuncs {
		if !l.inModule(f) {
			continue
		}
		for _, in := range callsIn(f, predStatic(saveRoot)) {
			nSR++
			r := roleOf(l, callCommon(in).Args[3], "", 0)
			ok := r == "true" || strings.HasSuffix(r, ".wantCheckpoint")
			c.decide(R, l.fname(f)+" SaveRoot checkpoint flag", l.ipos(in), ok, "`true` (snapshot import) or the save signal's wantCheckpoint",
				"the root row's checkpoint flag is `"+r+"`: it can differ from the tree's decision that also feeds the in-memory checkpoint list, and after a reopen versions up to the next checkpoint find no checkpoint to load from")
		}
	}
	if nSR < 2 {
		c.anchorMissing(R, "fewer than 2 SaveRoot call sites")
	}
	// in-memory list: Add is on the shouldCheckpoint edge, and that edge cannot reach success without it
	gs := findGuards(sv, func(cond ssa.Value) (bool, int) {
		if isLoadOfField(fShould)(stripTrivial(cond)) {
			return true, 0
		}
		return false, 0
	})
	adds := callsIn(sv, predStatic(add))
	if len(adds) == 0 {
		c.bad(R, "Tree.SaveVersion records the checkpoint in memory", l.pos(sv.Pos()), "SaveVersion no longer adds the version to the checkpoint list")
	}
	for _, in := range adds {
		c.decide(R, "Tree.SaveVersion adds to the checkpoint list only on the shouldCheckpoint edge", l.ipos(in), guardsEffect(gs, in), "dominated by `tree.shouldCheckpoint`", "the in-memory checkpoint list is extended without the checkpoint decision")
	}
	passed := mustStateE(sv, false, func(in ssa.Instruction) bool { cc := callCommon(in); return cc != nil && predStatic(add)(cc) }, nil,
		func(from *ssa.BasicBlock, si int) bool {
			for _, g := range gs {
				if g.iff.Block() == from && si == 1-g.pass {
					return true
				}
			}
			return false
		})
	okP := len(gs) > 0
	for _, r := range successReturns(sv) {
		okP = okP && passed(r)
	}
	c.decide(R, "Tree.SaveVersion: a checkpointing commit always records the checkpoint in memory", l.pos(sv.Pos()), okP, "every success return passes checkpoints.Add or the `no checkpoint` edge", "a checkpointing commit can succeed without recording the checkpoint in the in-memory list")
}

// checkV2Memoize (shared by C19 and C20): VersionRange.FindMemoized is a pure
// memoisation of Find — every value it returns is -1, the cached entry for
// the requested version, or Find(version); the cache is filled only with
// Find(version) under the key version.  (The shard a node is read from and
// the checkpoint a version is replayed from are both found through it.)
func checkV2Memoize(c *Ctx, l *Loaded, rule string) {
	fm := l.Func("", "*VersionRange.FindMemoized")
	find := l.Func("", "*VersionRange.Find")
	if fm == nil || find == nil {
		c.anchorMissing(rule, "VersionRange.FindMemoized / Find")
		return
	}
	isFind := func(v ssa.Value) bool {
		call, ok := stripTrivial(v).(*ssa.Call)
		return ok && predStatic(find)(&call.Call) && roleOf(l, call.Call.Args[1], "", 0) == "arg0"
	}
	isCached := func(v ssa.Value) bool {
		v = stripTrivial(v)
		if e, ok := v.(*ssa.Extract); ok {
			v = e.Tuple
		}
		lk, ok := v.(*ssa.Lookup)
		return ok && roleOf(l, lk.Index, "", 0) == "arg0" && strings.HasSuffix(roleOf(l, lk.X, "", 0), "recv.cache")
	}
	ok := true
	what := ""
	for _, r := range returnsOf(fm) {
		if isRecoverReturn(r) {
			continue
		}
		v := retVal(r, 0)
		if k, isK := constInt(v); isK && k == -1 {
			continue
		}
		if isFind(v) || isCached(v) {
			continue
		}
		ok, what = false, roleOf(l, v, "", 0)
	}
	c.decide(rule, "FindMemoized returns -1, the cached entry or Find(version)", l.pos(fm.Pos()), ok, "pure memoisation", "FindMemoized returns `"+what+"`, which is not Find(version): nodes / checkpoints are looked up in the wrong shard")
	okS := true
	allInstrs(fm, func(in ssa.Instruction) {
		if mu, isMU := in.(*ssa.MapUpdate); isMU {
			if !(isFind(mu.Value) && roleOf(l, mu.Key, "", 0) == "arg0") {
				okS = false
			}
		}
	})
	c.decide(rule, "FindMemoized caches Find(version) under version", l.pos(fm.Pos()), okS, "cache[version] = Find(version)", "the memo table is filled with something other than Find(version) under the key version")
}

// checkReplayVersion: while the change log is replayed, the tree's version is
// taken from the row being applied (row version - 1, so that the nodes created
// for it get exactly the row's version) and finally set to the requested
// version; it is never advanced by counting — a version saved with an empty
// change set leaves a gap in the log, and counting across the gap gives the
// replayed nodes a version that is too small (root hash mismatch on reload).
func checkReplayVersion(c *Ctx, l *Loaded) {
	const R = "FLOW-replay-version"
	c.rule(R, "during replay the tree version follows the version of the replayed row", 2)
	replay := l.Func("", "*SqliteDb.replayChangelog")
	fVer := l.Field("", "Tree", "version")
	if replay == nil || fVer == nil {
		c.anchorMissing(R, "replayChangelog / Tree.version")
		return
	}
	// the variable the row's version is scanned into: first destination of Stmt.Scan
	var rowVer ssa.Value
	allInstrs(replay, func(in ssa.Instruction) {
		cc := callCommon(in)
		if cc == nil || !sqlMethod(cc, "Stmt", "Scan") {
			return
		}
		if vals, ok := variadicValues(cc.Args[1]); ok && len(vals) > 0 {
			v := vals[0]
			if mi, isMI := v.(*ssa.MakeInterface); isMI {
				v = mi.X
			}
			rowVer = v
		}
	})
	if rowVer == nil {
		c.anchorMissing(R, "Scan destination of the row version")
		return
	}
	fromRow := func(v ssa.Value) bool {
		// Convert?( load(rowVer) - 1 ) or Convert(load(rowVer)) - 1
		var walk func(v ssa.Value, d int) (usesRow bool, minusOne bool)
		walk = func(v ssa.Value, d int) (bool, bool) {
			if d > 6 {
				return false, false
			}
			switch x := stripTrivial(v).(type) {
			case *ssa.Convert:
				return walk(x.X, d+1)
			case *ssa.UnOp:
				if x.Op == token.MUL && x.X == rowVer {
					return true, false
				}
			case *ssa.BinOp:
				if x.Op == token.SUB {
					if k, ok := constInt(x.Y); ok && k == 1 {
						u, _ := walk(x.X, d+1)
						return u, u
					}
				}
			}
			return false, false
		}
		u, m := walk(v, 0)
		return u && m
	}
	n := 0
	for _, st := range storesToField(replay, fVer) {
		n++
		r := roleOf(l, st.Val, "", 0)
		ok := fromRow(st.Val) || r == "arg1"
		c.decide(R, "replayChangelog sets tree.version", l.ipos(st), ok, "row version - 1 (inside the loop) or the requested version (at the end)",
			"tree.version is set to `"+r+"` during replay: it does not follow the version of the row being applied, so a gap in the log (a version without changes) shifts every later replayed node to the wrong version")
	}
	if n < 2 {
		c.anchorMissing(R, "fewer than 2 assignments of tree.version in replayChangelog")
	}
}

// checkV2SnapshotLoadsLeaves (C20): a snapshot import is self-contained: the
// leaves come from the snapshot table, whatever the height filter — the
// change-log rows of keys that were overwritten later may have been pruned.
func checkV2SnapshotLoadsLeaves(c *Ctx, l *Loaded, rule string) {
	c.rule(rule, "Tree.LoadSnapshot imports the snapshot's leaves unconditionally", 1)
	ls := l.Func("", "*Tree.LoadSnapshot")
	imp := l.Func("", "*SqliteDb.ImportMostRecentSnapshot")
	if ls == nil || imp == nil {
		c.anchorMissing(rule, "v2 Tree.LoadSnapshot / ImportMostRecentSnapshot")
		return
	}
	n := 0
	for _, in := range callsIn(ls, predStatic(imp)) {
		cc := callCommon(in)
		n++
		k, isC := stripTrivial(cc.Args[len(cc.Args)-1]).(*ssa.Const)
		c.decide(rule, "LoadSnapshot asks for the leaves", l.ipos(in), isC && k.Value != nil && k.Value.String() == "true", "loadLeaves is the constant true",
			"the snapshot import loads the leaves only under a condition (`"+roleOf(l, cc.Args[len(cc.Args)-1], "", 0)+"`): otherwise the imported tree reads its leaves from the change log, whose rows for keys overwritten after the snapshot may have been pruned — the hash is right and Get fails")
	}
	if n == 0 {
		c.anchorMissing(rule, "LoadSnapshot no longer calls ImportMostRecentSnapshot")
	}
}

// checkV2ReplayLeafValue (C20): the change-log replay feeds each leaf's stored
// HASH through Tree.Set (isReplaying) so that nothing is rehashed.  The two
// leaf-writing sites then set node.hash and leave node.value alone: an updated
// leaf that is still in memory keeps its OLD value, a new one has none.  With
// leaf eviction (HeightFilter > 0) the leaves are dropped and re-read; with
// HeightFilter = 0 they stay, and Get answers from them.  On the replay edge a
// leaf's value must be made consistent (set, or the leaf not retained).
func checkV2ReplayLeafValue(c *Ctx, l *Loaded, rule string) {
	c.rule(rule, "a leaf written by the replay does not keep a stale or missing value in memory", 2)
	fRep := l.Field("", "Tree", "isReplaying")
	fHash := l.Field("", "Node", "hash")
	fVal := l.Field("", "Node", "value")
	if fRep == nil || fHash == nil || fVal == nil {
		c.anchorMissing(rule, "v2 Tree.isReplaying / Node.hash / Node.value")
		return
	}
	n := 0
	for _, nm := range []string{"*Tree.recursiveSet", "*Tree.NewLeafNode"} {
		fn := l.Func("", nm)
		if fn == nil {
			c.anchorMissing(rule, "v2 "+nm)
			continue
		}
		for _, b := range fn.Blocks {
			iff := ifOf(b)
			if iff == nil || !isLoadOfField(fRep)(stripTrivial(iff.Cond)) {
				continue
			}
			// the replay edge
			var hashStore, valStore ssa.Instruction
			for _, bb := range fn.Blocks {
				if !edgeDominates(b, 0, bb) {
					continue
				}
				for _, in := range bb.Instrs {
					if isStoreToField(in, fHash) {
						hashStore = in
					}
					if isStoreToField(in, fVal) {
						valStore = in
					}
				}
			}
			if hashStore == nil {
				continue
			}
			n++
			c.decide(rule, l.fname(fn)+": replay edge writes the leaf's hash", l.ipos(hashStore), valStore != nil, "the value is made consistent on the same edge",
				"on the replay edge the leaf gets the replayed hash while its value is left as it was (the previous value for an updated leaf, none for a new one); with HeightFilter = 0 the leaf stays in memory and Get returns that stale or missing value for every key written between the checkpoint and the loaded version")
		}
	}
	if n < 2 {
		c.anchorMissing(rule, "fewer than 2 replay edges writing a leaf hash")
	}
}
