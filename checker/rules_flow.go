package main

import (
	"fmt"
	"go/token"
	"go/types"

	"golang.org/x/tools/go/ssa"
)

// ---------------------------------------------------------------------------
// DOM: guard dominates effect

// guard describes an If whose `pass` successor is the one on which the
// operation may proceed (the other one must leave the function with an error
// or at least never reach the effect).
type guard struct {
	iff  *ssa.If
	pass int
}

// findGuards returns the Ifs of fn whose condition is matched.
// match returns (ok, passSucc).
func findGuards(fn *ssa.Function, match func(cond ssa.Value) (bool, int)) []guard {
	var out []guard
	for _, b := range fn.Blocks {
		iff := ifOf(b)
		if iff == nil {
			continue
		}
		if ok, pass := match(iff.Cond); ok {
			out = append(out, guard{iff, pass})
		}
	}
	return out
}

// guardsEffect: the pass edge of some guard dominates the effect, and the
// fail edge cannot reach it.
func guardsEffect(gs []guard, effect ssa.Instruction) bool {
	for _, g := range gs {
		if edgeDominates(g.iff.Block(), g.pass, effect.Block()) {
			return true
		}
	}
	return false
}

// failEdgeLeaves: from the fail edge of guard g, every path reaches a Return
// with a non-nil error (or panics) without passing any instruction in
// `effects`.
func failEdgeLeavesWithError(fn *ssa.Function, g guard, isEffect func(ssa.Instruction) bool) (ok bool, why string) {
	errIdx := errResultIndex(fn.Signature)
	ok = true
	start := g.iff.Block().Succs[1-g.pass]
	searchFrom([]point{blockStart(start)}, func(in ssa.Instruction) bool {
		if isEffect != nil && isEffect(in) {
			ok, why = false, "fail edge reaches an effect"
			return true
		}
		if r, isRet := in.(*ssa.Return); isRet {
			if errIdx >= 0 && errNilness(retVal(r, errIdx), r.Block(), 0) <= 0 {
				ok, why = false, "fail edge reaches a return whose error may be nil"
			}
			return true
		}
		return false
	})
	return
}

// condIsNilTestOf: cond is `v == nil` / `v != nil` for a v satisfying isV.
// pass successor = the one where v is non-nil if wantNonNil, else nil.
func nilTestMatcher(isV func(v ssa.Value) bool, passWhenNonNil bool) func(ssa.Value) (bool, int) {
	return func(cond ssa.Value) (bool, int) {
		v, nn, ok := nilCond(cond)
		if !ok || !isV(stripTrivial(v)) {
			return false, 0
		}
		if passWhenNonNil {
			return true, nn
		}
		return true, 1 - nn
	}
}

// cmpMatcher: cond is `x OP y` with isX(x) and isY(y) (or the mirrored
// form); returns pass successor = the successor on which the comparison
// `x op y` (normalised to the given op) is FALSE when failWhenTrue.
func cmpMatcher(op token.Token, isX, isY func(ssa.Value) bool, failWhenTrue bool) func(ssa.Value) (bool, int) {
	mirror := map[token.Token]token.Token{token.LSS: token.GTR, token.GTR: token.LSS, token.LEQ: token.GEQ, token.GEQ: token.LEQ, token.EQL: token.EQL, token.NEQ: token.NEQ}
	neg := map[token.Token]token.Token{token.LSS: token.GEQ, token.GEQ: token.LSS, token.LEQ: token.GTR, token.GTR: token.LEQ, token.EQL: token.NEQ, token.NEQ: token.EQL}
	return func(cond ssa.Value) (bool, int) {
		b, ok := cond.(*ssa.BinOp)
		if !ok {
			return false, 0
		}
		x, y, o := stripTrivial(b.X), stripTrivial(b.Y), b.Op
		try := func(x, y ssa.Value, o token.Token) (bool, int) {
			if !isX(x) || !isY(y) {
				return false, 0
			}
			// true successor index when `x op y` holds
			switch o {
			case op:
				if failWhenTrue {
					return true, 1
				}
				return true, 0
			case neg[op]:
				if failWhenTrue {
					return true, 0
				}
				return true, 1
			}
			return false, 0
		}
		if ok, p := try(x, y, o); ok {
			return true, p
		}
		if m, has := mirror[o]; has {
			if ok, p := try(y, x, m); ok {
				return true, p
			}
		}
		return false, 0
	}
}

// ---------------------------------------------------------------------------
// value predicates

func isParam(fn *ssa.Function, name string) func(ssa.Value) bool {
	return func(v ssa.Value) bool {
		p, ok := v.(*ssa.Parameter)
		return ok && p.Parent() == fn && p.Name() == name
	}
}

// isResultOf: v is (an extract #idx of) a call whose callee satisfies pred.
func isResultOf(pred CallPred, idx int) func(ssa.Value) bool {
	return func(v ssa.Value) bool {
		v = stripTrivial(v)
		if e, ok := v.(*ssa.Extract); ok {
			if c, ok := e.Tuple.(*ssa.Call); ok && e.Index == idx {
				return pred(&c.Call)
			}
			return false
		}
		if c, ok := v.(*ssa.Call); ok && idx <= 0 {
			return pred(&c.Call)
		}
		return false
	}
}

// isLoadOfField: v is a load of field `f` (any base).
func isLoadOfField(f *types.Var) func(ssa.Value) bool {
	return func(v ssa.Value) bool {
		v = stripTrivial(v)
		if ld, ok := v.(*ssa.UnOp); ok && ld.Op == token.MUL {
			if fa, ok := ld.X.(*ssa.FieldAddr); ok {
				return fieldVar(fa.X.Type(), fa.Field) == f
			}
		}
		if fl, ok := v.(*ssa.Field); ok {
			return fieldVar(fl.X.Type(), fl.Field) == f
		}
		return false
	}
}

func anyValue(ssa.Value) bool { return true }

// storesToField lists Store instructions in fn writing field f.
func storesToField(fn *ssa.Function, f *types.Var) []*ssa.Store {
	var out []*ssa.Store
	allInstrs(fn, func(in ssa.Instruction) {
		if st, ok := in.(*ssa.Store); ok {
			if fa, ok := st.Addr.(*ssa.FieldAddr); ok && fieldVar(fa.X.Type(), fa.Field) == f {
				out = append(out, st)
			}
		}
	})
	return out
}

// ---------------------------------------------------------------------------
// generic must-analysis with entry value

// mustState computes a boolean must-fact: entry value `entry`; gen sets it
// true, kill sets it false; meet = AND.  Returns a query at instruction.
func mustState(fn *ssa.Function, entry bool, gen, kill func(ssa.Instruction) bool) func(ssa.Instruction) bool {
	return mustStateE(fn, entry, gen, kill, nil)
}

// mustStateE is mustState with an edge-sensitive generator: edgeGen(from, i)
// makes the fact true along the CFG edge from→from.Succs[i] (e.g. the edge
// on which a feature is switched off).
func mustStateE(fn *ssa.Function, entry bool, gen, kill func(ssa.Instruction) bool, edgeGen func(from *ssa.BasicBlock, si int) bool) func(ssa.Instruction) bool {
	in := map[*ssa.BasicBlock]bool{}
	out := map[*ssa.BasicBlock]bool{}
	for _, b := range fn.Blocks {
		in[b], out[b] = true, true
	}
	transfer := func(b *ssa.BasicBlock, v bool, upto int) bool {
		for i, x := range b.Instrs {
			if upto >= 0 && i >= upto {
				break
			}
			if kill != nil && kill(x) {
				v = false
			}
			if gen != nil && gen(x) {
				v = true
			}
		}
		return v
	}
	changed := true
	for changed {
		changed = false
		for _, b := range fn.Blocks {
			v := true
			if b == fn.Blocks[0] {
				v = entry
			} else if len(b.Preds) > 0 {
				for _, p := range b.Preds {
					pv := out[p]
					if edgeGen != nil {
						for si, s := range p.Succs {
							if s == b && edgeGen(p, si) {
								pv = true
							}
						}
					}
					v = v && pv
				}
			}
			o := transfer(b, v, -1)
			if v != in[b] || o != out[b] {
				in[b], out[b] = v, o
				changed = true
			}
		}
	}
	return func(s ssa.Instruction) bool {
		b := s.Block()
		return transfer(b, in[b], instrIndex(s))
	}
}

// successReturns lists returns whose error result may be nil.
func successReturns(fn *ssa.Function) []*ssa.Return {
	var out []*ssa.Return
	ei := errResultIndex(fn.Signature)
	for _, r := range returnsOf(fn) {
		if ei < 0 || errNilness(retVal(r, ei), r.Block(), 0) <= 0 {
			out = append(out, r)
		}
	}
	return out
}

// reachableAfter: instructions satisfying isB reachable from right after a
// (not passing `stop`).
func reachableAfter(a ssa.Instruction, isB, stop func(ssa.Instruction) bool) []ssa.Instruction {
	var out []ssa.Instruction
	searchFrom([]point{after(a)}, func(in ssa.Instruction) bool {
		if stop != nil && stop(in) {
			return true
		}
		if isB(in) {
			out = append(out, in)
		}
		return false
	})
	return out
}

// okEdgeDominates: instruction x executes only after the error result of
// `call` was tested and found nil (or call has a single error result used
// directly in `if err := …; err != nil { return }`).
func okEdgeDominates(call *ssa.Call, x ssa.Instruction) bool {
	e, has := errorValueOfCall(call)
	if !has || e == nil {
		return false
	}
	return nilFactAt(e, x.Block()) < 0
}

func describe(l *Loaded, in ssa.Instruction) string {
	if cc := callCommon(in); cc != nil {
		return l.calleeName(in)
	}
	if st, ok := in.(*ssa.Store); ok {
		if fa, ok := st.Addr.(*ssa.FieldAddr); ok {
			return "store " + fieldName(fa.X.Type(), fa.Field)
		}
		if p := accessPath(st.Addr); p != "" {
			return "store " + p
		}
		return "store"
	}
	return fmt.Sprintf("%T", in)
}
