package main

import (
	"fmt"
	"go/token"
	"go/types"
	"strings"

	"golang.org/x/tools/go/ssa"
)

func init() {
	register(&propCheck{id: "C04", needRoot: true, run: checkC04,
		explanation: "Decided statically: (1) DOM — in deleteVersionsTo the `latest <= toVersion ⇒ error` test and the scan of active version readers (error if a reader pins a version in the range) dominate every call that can reach a batch deletion; the same reader scan dominates the deletions of DeleteVersionsFrom; the background pruner reaches deletions only through deleteVersionsTo, so it inherits both guards; (2) ERR — the orphan diff cannot stop early and report success: both node iterators' errors are consulted, and no storage error inside deleteVersion / deleteLegacyVersions / deleteVersionsTo is dropped or swallowed; (3) ORDER — the cached first version advances past v only after deleteVersion(v) returned nil. Added in the build round: an export's pin is released once (ORDER-pin-release); a subtree is skipped as shared only on hash equality (DOM-shared-by-hash); a shared root is re-keyed by saving the new key before deleting the old (ORDER-rekey). NOT decided: that the orphan diff selects exactly the nodes no later version needs (value-level, history-dependent). Rules added in the later seeding rounds (each listed with what it decides in this file's rule table) are described in DESIGN.md §3 \"Third and fourth seeding rounds\" and Appendix C3–C5."})
}

// readerScan finds `for v, r := range ndb.versionReaders { if … r != 0 { return err } }`:
// returns the Range instruction and whether an error return inside the loop
// depends on the ranged values.
func readerScan(l *Loaded, fn *ssa.Function, fReaders *types.Var) (rng *ssa.Range, errExit bool) {
	allInstrs(fn, func(in ssa.Instruction) {
		r, ok := in.(*ssa.Range)
		if !ok || !isLoadOfField(fReaders)(r.X) {
			return
		}
		rng = r
	})
	if rng == nil {
		return nil, false
	}
	// the Next instruction(s) of this range
	var nexts []*ssa.Next
	for _, rr := range refs(rng) {
		if n, ok := rr.(*ssa.Next); ok {
			nexts = append(nexts, n)
		}
	}
	ei := errResultIndex(fn.Signature)
	for _, n := range nexts {
		// values extracted from the iteration
		vals := map[ssa.Value]bool{}
		for _, rr := range refs(n) {
			if e, ok := rr.(*ssa.Extract); ok && e.Index > 0 {
				vals[e] = true
			}
		}
		// an If inside the loop whose condition uses a ranged value and one of whose
		// edges leads straight to a non-nil-error return
		for _, b := range fn.Blocks {
			iff := ifOf(b)
			if iff == nil || !n.Block().Dominates(b) {
				continue
			}
			uses := false
			if bo, ok := iff.Cond.(*ssa.BinOp); ok {
				if vals[stripTrivial(bo.X)] || vals[stripTrivial(bo.Y)] {
					uses = true
				}
			}
			if !uses {
				continue
			}
			for si := range b.Succs {
				allErr, any := true, false
				searchFrom([]point{blockStart(b.Succs[si])}, func(x ssa.Instruction) bool {
					if x.Block() == n.Block() {
						allErr = false // loops back: not an exit edge
						return true
					}
					if r, ok := x.(*ssa.Return); ok {
						any = true
						if ei < 0 || errNilness(retVal(r, ei), r.Block(), 0) <= 0 {
							allErr = false
						}
						return true
					}
					return false
				})
				if any && allErr {
					errExit = true
				}
			}
		}
	}
	return
}

func checkC04(c *Ctx) {
	l := c.L
	c.rule("PASS-root-record", "existence and identity of a version come from its stored root record, not from the node cache or the working tree", 2)
	checkRootRecord(c, "PASS-root-record")
	checkPooledBytes(c, "FRESH-pooled-bytes")
	checkVersionProbeRemoved(c, "PASS-version-probe-removed")
	c.rule("DOM-prune-guards", "latest-version and open-reader guards dominate every deletion", 6)
	c.rule("OWN-pruner-entry", "background pruner deletes only through deleteVersionsTo", 1)
	c.rule("ERR-prune", "no storage error is lost inside the pruning functions", 20)
	c.rule("ERR-E3-orphans", "orphan traversal consults both iterators' errors", 2)
	c.rule("ORDER-first-version", "first version advances only after a successful deleteVersion", 1)

	dvt := l.Func("", "*nodeDB.deleteVersionsTo")
	dvf := l.Func("", "*nodeDB.DeleteVersionsFrom")
	sp := l.Func("", "*nodeDB.startPruning")
	dv := l.Func("", "*nodeDB.deleteVersion")
	dlv := l.Func("", "*nodeDB.deleteLegacyVersions")
	rfv := l.Func("", "*nodeDB.resetFirstVersion")
	glv := l.Func("", "*nodeDB.getLatestVersion")
	fReaders := l.Field("", "nodeDB", "versionReaders")
	if dvt == nil || dvf == nil || sp == nil || dv == nil || dlv == nil || rfv == nil || glv == nil || fReaders == nil {
		c.anchorMissing("DOM-prune-guards", "deleteVersionsTo / DeleteVersionsFrom / startPruning / deleteVersion / versionReaders")
		return
	}
	mut := batchMutationReach(l)

	// effects with closure-aware classification
	deleting := func(fn *ssa.Function) []ssa.Instruction {
		var out []ssa.Instruction
		allInstrs(fn, func(in ssa.Instruction) {
			cc := callCommon(in)
			if cc == nil {
				return
			}
			hasClosure := false
			for _, a := range cc.Args {
				if mc, ok := a.(*ssa.MakeClosure); ok {
					hasClosure = true
					if f, ok := mc.Fn.(*ssa.Function); ok && mut.Fn(f) {
						out = append(out, in)
						return
					}
				}
			}
			if !hasClosure && mut.Instr(in) {
				out = append(out, in)
			}
		})
		return out
	}

	// (1a) deleteVersionsTo
	latestG := findGuards(dvt, cmpMatcher(token.LEQ, isResultOf(predStatic(glv), 1), isParam(dvt, "toVersion"), true))
	if len(latestG) == 0 {
		c.bad("DOM-prune-guards", "deleteVersionsTo latest-version guard", l.pos(dvt.Pos()), "the `latest <= toVersion ⇒ error` test is gone: the latest version can be deleted")
	}
	for _, g := range latestG {
		ok, why := failEdgeLeavesWithError(dvt, g, func(in ssa.Instruction) bool { return callCommon(in) != nil && mut.Instr(in) })
		c.decide("DOM-prune-guards", "deleteVersionsTo latest-version exit", l.ipos(g.iff), ok, "latest <= toVersion ⇒ error, nothing deleted", why)
	}
	rng, errExit := readerScan(l, dvt, fReaders)
	c.decide("DOM-prune-guards", "deleteVersionsTo reader scan rejects", l.pos(dvt.Pos()), rng != nil && errExit,
		"the scan over versionReaders has an error exit that depends on the reader count", "no scan of versionReaders with an error exit: a version pinned by an open export can be deleted")
	dels := deleting(dvt)
	if len(dels) < 2 {
		c.anchorMissing("DOM-prune-guards", "fewer than two deleting calls found in deleteVersionsTo")
	}
	for _, in := range dels {
		k := "deleteVersionsTo deletion " + l.calleeName(in)
		switch {
		case !guardsEffect(latestG, in):
			c.bad("DOM-prune-guards", k, l.ipos(in), "deletion is not dominated by the passing edge of the latest-version guard")
		case rng == nil || !instrDominates(rng, in):
			c.bad("DOM-prune-guards", k, l.ipos(in), "deletion is not dominated by the scan of active version readers")
		default:
			c.ok("DOM-prune-guards", k, l.ipos(in), "dominated by the latest-version guard and the reader scan")
		}
	}
	// (1b) DeleteVersionsFrom
	rng2, errExit2 := readerScan(l, dvf, fReaders)
	c.decide("DOM-prune-guards", "DeleteVersionsFrom reader scan rejects", l.pos(dvf.Pos()), rng2 != nil && errExit2,
		"the scan over versionReaders has an error exit that depends on the reader count", "no scan of versionReaders with an error exit in DeleteVersionsFrom")
	for _, in := range deleting(dvf) {
		c.decide("DOM-prune-guards", "DeleteVersionsFrom deletion "+l.calleeName(in), l.ipos(in), rng2 != nil && instrDominates(rng2, in),
			"dominated by the reader scan", "deletion is not dominated by the scan of active version readers")
	}
	// (1c) pruner
	nd := 0
	for _, in := range deleting(sp) {
		nd++
		cc := callCommon(in)
		c.decide("OWN-pruner-entry", "startPruning deletes via "+l.calleeName(in), l.ipos(in), predStatic(dvt)(cc),
			"the only deleting call is deleteVersionsTo", "the background pruner reaches a batch deletion without going through deleteVersionsTo and its guards")
	}
	if nd == 0 {
		c.anchorMissing("OWN-pruner-entry", "startPruning no longer reaches a deletion")
	}

	// (1d) an open export keeps its pin until it is closed, and a double Close releases only its own pin
	c.rule("ORDER-pin-release", "an export's pin is released once, by its own Close", 1)
	checkCloseOnce(c, "ORDER-pin-release")

	// (2)
	ea := newErrAnalysis(c, l)
	tow := l.Func("", "*nodeDB.traverseOrphansWithRootkeyCache")
	inFns := func(fs ...*ssa.Function) func(fn *ssa.Function) bool {
		return func(fn *ssa.Function) bool {
			for f := fn; f != nil; f = f.Parent() {
				for _, g := range fs {
					if f == g && g != nil {
						return true
					}
				}
			}
			return false
		}
	}
	ea.runE1E2E4("ERR-prune", "ERR-prune", "ERR-prune", inFns(dvt, dv, dlv, tow, l.Func("", "*nodeDB.traverseOrphans"), l.Func("", "*nodeDB.deleteFromPruning"), l.Func("", "*nodeDB.saveNodeFromPruning"), l.Func("", "*nodeDB.DeleteVersionsTo")))
	ea.runE3("ERR-E3-orphans", inFns(tow))
	ea.runE3Strict("ERR-E3-orphans", tow)
	c.rule("ERR-E7-sentinel-path", "the 'version does not exist' decisions of the pruning loop can still be taken", 3)
	ea.runE7("ERR-E7-sentinel-path", inFns(dvt, dv, dlv, tow, l.Func("", "*rootkeyCache.getRootKey")))
	c.rule("ERR-E5-sticky", "the node iterators of the orphan diff keep the error of a failed step", 2)
	ea.runStickyLoop("ERR-E5-sticky", func(fn *ssa.Function) bool {
		r := fn.Signature.Recv()
		if r == nil {
			return false
		}
		n := derefNamed(r.Type())
		return n != nil && n.Obj().Name() == "NodeIterator"
	})

	// (2b) identity of shared subtrees
	c.rule("DOM-shared-by-hash", "a subtree is skipped as shared only on hash equality", 1)
	checkSharedByHash(c, "DOM-shared-by-hash", tow, func(v ssa.Value) bool {
		// the iterator created from the previous version's root key (second NewNodeIterator)
		return strings.Contains(roleOf(l, v, "", 0), ",arg1)#0")
	})

	// (2c) a shared root stays reachable while it is re-keyed
	checkRekeyOrder(c)
	// (2d) per-node decisions of the orphan diff
	c.rule("TABLE-orphan-walk", "orphan diff: skip / descend / report decisions on both trees", 4)
	checkOrphanWalk(c, "TABLE-orphan-walk")

	// (3)
	var dvCall *ssa.Call
	for _, in := range callsIn(dvt, predStatic(dv)) {
		if cl, ok := in.(*ssa.Call); ok {
			dvCall = cl
		}
	}
	n := 0
	for _, in := range callsIn(dvt, predStatic(rfv)) {
		if dvCall == nil || !dvCall.Block().Dominates(in.Block()) {
			continue // the legacy branch resets through getFirstNonLegacyVersion
		}
		n++
		c.decide("ORDER-first-version", "deleteVersionsTo resetFirstVersion after deleteVersion", l.ipos(in), okEdgeDominates(dvCall, in),
			"runs only after deleteVersion returned nil", "the cached first version advances although deleteVersion did not succeed")
	}
	if n == 0 {
		c.anchorMissing("ORDER-first-version", "no resetFirstVersion after deleteVersion in deleteVersionsTo")
	}
}

// checkSharedByHash: in a two-tree diff, a subtree of the older tree is
// skipped as "still shared" only under a hash-equality test of the two nodes
// (node keys are not an identity: pruning re-keys shared roots, so the same
// node is reachable under (v,1) and (v,0)).
func checkSharedByHash(c *Ctx, rule string, fn *ssa.Function, olderIter func(v ssa.Value) bool) {
	l := c.L
	if fn == nil {
		c.anchorMissing(rule, "diff function")
		return
	}
	fHash := l.Field("", "Node", "hash")
	n := 0
	allInstrs(fn, func(in ssa.Instruction) {
		call, ok := in.(*ssa.Call)
		if !ok {
			return
		}
		f := staticCallee(&call.Call)
		if f == nil || f.Name() != "Next" || len(call.Call.Args) != 2 || !olderIter(call.Call.Args[0]) {
			return
		}
		// only the skipping call: Next(true) or Next(shared)
		arg := stripTrivial(call.Call.Args[1])
		if k, isC := arg.(*ssa.Const); isC && k.Value != nil && k.Value.String() == "false" {
			return
		}
		n++
		// find the controlling condition: either the argument itself or the branch that dominates the call
		usesHashEq := func(v ssa.Value) bool {
			found := false
			seen := map[ssa.Value]bool{}
			var walk func(v ssa.Value, d int)
			walk = func(v ssa.Value, d int) {
				v = stripTrivial(v)
				if v == nil || seen[v] || d > 8 {
					return
				}
				seen[v] = true
				switch x := v.(type) {
				case *ssa.Call:
					if g := staticCallee(&x.Call); g != nil && g.String() == "bytes.Equal" {
						if isLoadOfField(fHash)(x.Call.Args[0]) && isLoadOfField(fHash)(x.Call.Args[1]) {
							found = true
						}
					}
				case *ssa.Phi:
					for _, e := range x.Edges {
						walk(e, d+1)
					}
					// short-circuit operands live in the branch conditions of the predecessors
					for _, p := range x.Block().Preds {
						if iff := ifOf(p); iff != nil {
							walk(iff.Cond, d+1)
						}
					}
				case *ssa.BinOp:
					walk(x.X, d+1)
					walk(x.Y, d+1)
				case *ssa.UnOp:
					walk(x.X, d+1)
				}
			}
			walk(v, 0)
			return found
		}
		ok2 := false
		if _, isC := arg.(*ssa.Const); !isC {
			ok2 = usesHashEq(arg)
		}
		for b := call.Block(); b != nil && !ok2; b = b.Idom() {
			id := b.Idom()
			if id == nil {
				break
			}
			if iff := ifOf(id); iff != nil && edgeDominates(id, 0, call.Block()) && usesHashEq(iff.Cond) {
				ok2 = true
			}
		}
		c.decide(rule, l.fname(fn)+" skips a shared subtree only on hash equality", l.ipos(call), ok2,
			"the skip is controlled by bytes.Equal of the two nodes' hashes", "the older tree's subtree is skipped as 'shared' without a hash-equality test of the two nodes (e.g. by comparing node keys): a re-keyed shared root is then treated as an orphan and its only stored copy is deleted")
	})
	if n == 0 {
		c.anchorMissing(rule, "no subtree-skipping Next(true) on the older tree in "+l.fname(fn))
	}
}

// checkOrphanWalk (C04, C12): the per-node decisions of the orphan diff.
//   newer tree:  a node with version <= prevVersion already existed in the
//                older version ⇒ remember it as the next shared candidate and
//                SKIP its subtree (Next(true)); a newer node ⇒ descend (Next(false));
//   older tree:  a node is handed to the orphan callback exactly when it is not
//                the shared candidate, and the walk then DESCENDS into it
//                (Next(false)); a shared node is skipped with its subtree and
//                the candidate is consumed.
func checkOrphanWalk(c *Ctx, rule string) {
	l := c.L
	tow := l.Func("", "*nodeDB.traverseOrphansWithRootkeyCache")
	fVer := l.Field("", "NodeKey", "version")
	if tow == nil || fVer == nil || len(tow.Params) < 5 {
		c.anchorMissing(rule, "traverseOrphansWithRootkeyCache / NodeKey.version")
		return
	}
	isOlder := func(v ssa.Value) bool { return strings.Contains(roleOf(l, v, "", 0), ",arg1)#0") }
	isNewer := func(v ssa.Value) bool { return strings.Contains(roleOf(l, v, "", 0), ",arg2)#0") }
	boolConst := func(v ssa.Value) (bool, bool) {
		k, ok := stripTrivial(v).(*ssa.Const)
		if !ok || k.Value == nil {
			return false, false
		}
		return k.Value.String() == "true", true
	}
	// guard: version of the newer tree's current node <= prevVersion
	isCurVersion := func(v ssa.Value) bool {
		v = stripTrivial(v)
		if !isLoadOfField(fVer)(v) {
			return false
		}
		return strings.Contains(roleOf(l, v, "", 0), ",arg2)#0") // …GetNode(NewNodeIterator(getRootKey(..,arg2))#0).nodeKey.version
	}
	isPrevVersion := func(v ssa.Value) bool { return roleOf(l, v, "", 0) == "arg1" }
	old := findGuards(tow, cmpMatcher(token.LEQ, isCurVersion, isPrevVersion, false))
	if len(old) == 0 {
		c.bad(rule, "orphan walk: newer tree's node version is compared with the older version", l.pos(tow.Pos()), "no `node version <= prevVersion` decision on the newer tree's nodes")
	}
	nNew := 0
	var fnCalls []ssa.Instruction
	allInstrs(tow, func(in ssa.Instruction) {
		cc := callCommon(in)
		if cc == nil {
			return
		}
		if p, ok := cc.Value.(*ssa.Parameter); ok && p == tow.Params[4] {
			fnCalls = append(fnCalls, in)
		}
	})
	allInstrs(tow, func(in ssa.Instruction) {
		call, ok := in.(*ssa.Call)
		if !ok {
			return
		}
		f := staticCallee(&call.Call)
		if f == nil || f.Name() != "Next" || len(call.Call.Args) != 2 {
			return
		}
		skip, isK := boolConst(call.Call.Args[1])
		switch {
		case isNewer(call.Call.Args[0]):
			nNew++
			if !isK {
				c.bad(rule, "orphan walk: newer tree advance", l.ipos(in), "skip flag is not a constant decided by the version test")
				return
			}
			onOld := false
			for _, g := range old {
				if edgeDominates(g.iff.Block(), 1-g.pass, in.Block()) { // cmpMatcher(failWhenTrue=false): pass = edge where `<=` holds? see below
					onOld = true
				}
			}
			// cmpMatcher with failWhenTrue=false returns pass = the successor on which the comparison HOLDS
			onHolds := false
			for _, g := range old {
				if edgeDominates(g.iff.Block(), g.pass, in.Block()) {
					onHolds = true
				}
			}
			_ = onOld
			want := onHolds // skip the subtree exactly when the node already existed
			c.decide(rule, fmt.Sprintf("orphan walk: newer tree Next(skip=%v)", skip), l.ipos(in), skip == want && (onHolds || onOld),
				"subtree skipped iff the node's version <= prevVersion", "the newer tree's walk skips / descends on the wrong side of the `version <= prevVersion` test: shared subtrees are re-examined as new, or new subtrees are skipped and their older counterparts are taken for orphans")
		case isOlder(call.Call.Args[0]):
			if !isK {
				return // decided by DOM-shared-by-hash
			}
			if skip {
				// no orphan callback on a path that skips
				bad := false
				for _, fc := range fnCalls {
					if instrDominates(fc, in) {
						bad = true
					}
				}
				c.decide(rule, "orphan walk: a shared node is not reported as an orphan", l.ipos(in), !bad, "skip edge carries no callback", "a node recognised as shared is also handed to the orphan callback")
			} else {
				passed := false
				for _, fc := range fnCalls {
					if instrDominates(fc, in) && okEdgeDominates(fc.(*ssa.Call), in) {
						passed = true
					}
				}
				c.decide(rule, "orphan walk: a node that is not shared is reported, then descended into", l.ipos(in), passed, "callback(pNode) succeeded before Next(false)", "the older tree's walk moves past a non-shared node without handing it to the orphan callback (or descends although the callback failed): unreachable nodes are never deleted")
			}
		}
	})
	if nNew < 2 {
		c.anchorMissing(rule, "fewer than 2 advances of the newer tree's iterator")
	}
	// the walk runs to the end of the OLDER tree: a success return is reached only from the exhausted edge of the
	// older iterator's Valid() (a shortcut that answers "no orphans" from the root keys alone is wrong whenever an
	// older, stored subtree has become the new root: removals leave exactly that)
	var exits []guard
	for _, b := range tow.Blocks {
		iff := ifOf(b)
		if iff == nil {
			continue
		}
		call, ok := stripTrivial(iff.Cond).(*ssa.Call)
		if !ok {
			continue
		}
		f := staticCallee(&call.Call)
		if f == nil || f.Name() != "Valid" || len(call.Call.Args) == 0 || !isOlder(call.Call.Args[0]) {
			continue
		}
		exits = append(exits, guard{iff, 1})
	}
	okDone := len(exits) > 0
	var badRet ssa.Instruction
	for _, r := range returnsOf(tow) {
		if errNilness(retVal(r, 0), r.Block(), 0) > 0 {
			continue
		}
		if !guardsEffect(exits, r) {
			okDone = false
			badRet = r
		}
	}
	pos := l.pos(tow.Pos())
	if badRet != nil {
		pos = l.ipos(badRet)
	}
	c.decide(rule, "orphan walk: success only after the older tree was walked to its end", pos, okDone, "every possibly-successful return is behind the exhausted edge of the older iterator",
		"the orphan walk can return success without having walked the older tree (a shortcut decided from root keys or versions): when removals make an older stored subtree the new root, the old root and the removed nodes are never reported and stay in storage")
}

// checkVersionProbeRemoved (shared by C04 and C14): the storage key whose
// existence makes a version "exist" for the first-version search of a reopened
// database (the key hasVersion probes) is removed or re-keyed by deleteVersion
// on every success path, and not only when the orphan walk happens to hand it
// over: the walk skips nodes the next version shares by hash, and a
// single-leaf root that later trees reuse as a child is such a node.
func checkVersionProbeRemoved(c *Ctx, rule string) {
	l := c.L
	c.rule(rule, "deleteVersion removes the key the version search probes on every success path", 1)
	hv := l.Func("", "*nodeDB.hasVersion")
	dv := l.Func("", "*nodeDB.deleteVersion")
	dfp := l.Func("", "*nodeDB.deleteFromPruning")
	if hv == nil || dv == nil || dfp == nil {
		c.anchorMissing(rule, "hasVersion / deleteVersion / deleteFromPruning")
		return
	}
	norm := func(r string) string {
		// ndb.nodeKey(x) is nodeKeyFormat.Key(x)
		if strings.HasPrefix(r, "nodeKey(,") && strings.HasSuffix(r, ")") {
			return "Key(global:nodeKeyFormat,[" + r[len("nodeKey(,"):len(r)-1] + "])"
		}
		return r
	}
	probe := ""
	allInstrs(hv, func(in ssa.Instruction) {
		cc := callCommon(in)
		if cc == nil || !cc.IsInvoke() || cc.Method.Name() != "Has" || len(cc.Args) != 1 {
			return
		}
		probe = norm(roleOf(l, cc.Args[0], "ndb", 0))
	})
	if probe == "" || !strings.Contains(probe, "arg0") {
		c.anchorMissing(rule, "hasVersion no longer probes a key built from its version argument")
		return
	}
	isDel := func(in ssa.Instruction) bool {
		cc := callCommon(in)
		if cc == nil || staticCallee(cc) != dfp || len(cc.Args) < 2 {
			return false
		}
		return norm(roleOf(l, cc.Args[1], "ndb", 0)) == probe
	}
	q := mustState(dv, false, isDel, nil)
	var badRet *ssa.Return
	for _, r := range returnsOf(dv) {
		if errNilness(retVal(r, errResultIndex(dv.Signature)), r.Block(), 0) > 0 {
			continue
		}
		if !q(r) && badRet == nil {
			badRet = r
		}
	}
	pos := l.pos(dv.Pos())
	if badRet != nil {
		pos = l.ipos(badRet)
	}
	c.decide(rule, "deleteVersion removes the key hasVersion probes", pos, badRet == nil,
		"every success return passes a deletion of "+probe,
		"deleteVersion can return success without deleting "+probe+" itself (when the version has its own root record and the next version is not a reference to it, the removal is left to the orphan walk, which skips every node the next version shares): a single-leaf root that later trees reuse as a child keeps its (version,1) key, and after a restart the first-version search, which probes exactly that key, reports the deleted versions as available again")
}

// checkPooledBytes (shared by C04, C05, C10): the bytes of a pooled scratch
// buffer are only copied out of it.  A backend may keep the slice it is given
// (MemDB does, and so does every batch until it is written): a value that
// aliases a buffer which goes back to the pool is overwritten by the pool's
// next user — a re-keyed root written that way turns into garbage under the
// versions that still reference it.
func checkPooledBytes(c *Ctx, rule string) {
	l := c.L
	c.rule(rule, "bytes of a pooled buffer are copied before they are handed on", 1)
	n := 0
	fromPool := func(v ssa.Value) bool {
		v = stripTrivial(v)
		ta, ok := v.(*ssa.TypeAssert)
		if !ok {
			return false
		}
		call, ok := stripTrivial(ta.X).(*ssa.Call)
		if !ok {
			return false
		}
		f := staticCallee(&call.Call)
		return f != nil && f.String() == "(*sync.Pool).Get"
	}
	for _, fn := range l.SrcFuncs {
		if !l.inModule(fn) {
			continue
		}
		allInstrs(fn, func(in ssa.Instruction) {
			call, ok := in.(*ssa.Call)
			if !ok {
				return
			}
			f := staticCallee(&call.Call)
			if f == nil || f.String() != "(*bytes.Buffer).Bytes" || len(call.Call.Args) == 0 || !fromPool(call.Call.Args[0]) {
				return
			}
			n++
			var bad ssa.Instruction
			for _, r := range refs(call) {
				ri, isIn := r.(ssa.Instruction)
				if !isIn {
					continue
				}
				if rc, isCall := r.(*ssa.Call); isCall {
					if bi, isB := rc.Call.Value.(*ssa.Builtin); isB {
						switch bi.Name() {
						case "len", "cap":
							continue
						case "copy":
							if len(rc.Call.Args) == 2 && rc.Call.Args[1] == ssa.Value(call) {
								continue
							}
						case "append":
							if len(rc.Call.Args) == 2 && rc.Call.Args[1] == ssa.Value(call) && rc.Call.Args[0] != ssa.Value(call) {
								continue
							}
						}
					}
				}
				if _, isDbg := r.(*ssa.DebugRef); isDbg {
					continue
				}
				// io.Writer contract: Write must not retain its argument (hashers)
				if cc := callCommon(ri); cc != nil {
					name := ""
					if cc.IsInvoke() {
						name = cc.Method.Name()
					} else if g := staticCallee(cc); g != nil {
						name = g.Name()
					}
					if name == "Write" {
						continue
					}
					if g := staticCallee(cc); g != nil && (g.String() == "bytes.Clone" || g.String() == "slices.Clone") {
						continue
					}
				}
				bad = ri
			}
			key := l.fname(fn) + " uses the bytes of a pooled buffer"
			if bad == nil {
				c.ok(rule, key, l.ipos(call), "only copied out (copy / append source, len)")
			} else {
				c.bad(rule, key, l.ipos(bad), "the bytes of a pooled buffer are handed on without a copy: the batch (and MemDB) keep the slice they are given, and the buffer goes back to the pool, so the stored value is overwritten by the pool's next user")
			}
		})
	}
	if n == 0 {
		c.anchorMissing(rule, "no use of a pooled buffer's bytes found (the importer has one)")
	}
}
