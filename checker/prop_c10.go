package main

import (
	"go/token"
	"strings"

	"golang.org/x/tools/go/ssa"
)

func init() {
	register(&propCheck{id: "C10", needRoot: true, run: checkC10,
		explanation: "Decided statically: (1) TOTAL — Importer.Add/Commit/writeNode/Close, CompressImporter.Add, deltaDecode and the node validation they call have no reachable panic site (index, slice, nil dereference of an untrusted node, unchecked type assertion), no allocation whose size is chosen by the input, and no loop, for ARBITRARY ExportNode values: every such site is an obligation discharged by a zone abstract interpretation over every path; the importer's heap invariant len(nonces) = version+1 is declared and its side condition (both fields written only by the constructor) is checked; (2) OWN/ORDER — the root marker key is written only by Commit, the imported version is published (latest-version counter, LoadVersion) only after the synchronous write returned nil; (3) ERR — the exporter cannot obtain nodes through a traversal that loses storage errors, and reports the traversal error instead of 'done'. NOT decided: round-trip fidelity (same hash, contents, future hashes), nor that 'nothing becomes visible' in the presence of the importer's early batch flush (C05 known finding)."})
}

func checkC10(c *Ctx) {
	l := c.L
	c.rule("TOTAL-importer", "importer is panic-free, allocation-bounded and loop-free on arbitrary node streams", 30)
	c.rule("OWN-root-marker", "root marker written only by Commit; publication after the synchronous write", 4)
	c.rule("ERR-export", "an export that hits a storage error cannot end with 'done'", 2)

	names := []string{"*Importer.Add", "*Importer.Commit", "*Importer.writeNode", "*Importer.Close", "*CompressImporter.Add", "deltaDecode", "maxInt64",
		"*Node.validate", "*Node.isLeaf", "*Node.GetKey", "*NodeKey.GetKey", "GetRootKey"}
	var T []*ssa.Function
	for _, n := range names {
		f := l.Func("", n)
		if f == nil {
			c.anchorMissing("TOTAL-importer", n)
			continue
		}
		T = append(T, f)
	}
	an := newTotalAnalysis(c, l, "TOTAL-importer", T)
	an.untrustedParam = func(fn *ssa.Function, p *ssa.Parameter) bool {
		n := derefNamed(p.Type())
		return n != nil && n.Obj().Name() == "ExportNode"
	}
	an.trustedInvoke = commonTrustedInvoke
	fNonces := l.Field("", "Importer", "nonces")
	fVersion := l.Field("", "Importer", "version")
	fTree := l.Field("", "Importer", "tree")
	if fNonces == nil || fVersion == nil || fTree == nil {
		c.anchorMissing("TOTAL-importer", "Importer.nonces / version / tree")
		return
	}
	// declared heap invariant: len(i.nonces) = i.version + 1, i.version >= 0
	an.fieldInv = func(s *tstate, fa *ssa.FieldAddr, loaded ssa.Value) {
		fv := fieldVar(fa.X.Type(), fa.Field)
		obj := s.objOf(fa.X)
		switch fv {
		case fNonces:
			vk := mkey{obj, fVersion}
			m, ok := s.mem[vk]
			if !ok {
				m = mval{isInt: true, a: aint{t: s.newTerm(), known: true}}
				s.mem[vk] = m
			}
			s.assume(konst(0), m.a, 0)
			ln := s.lenOf(s.objOf(loaded))
			v1 := aint{t: m.a.t, off: m.a.off + 1, known: true}
			s.assume(ln, v1, 0)
			s.assume(v1, ln, 0)
		case fVersion:
			s.assume(konst(0), s.intOf(loaded), 0)
		case fTree:
			// Close() sets it to nil: every use must be guarded
			id := s.objOf(loaded)
			s.maybeNil[id] = true
			s.an.trackedNil[id] = true
		}
	}
	writeNode := l.Func("", "*Importer.writeNode")
	// declared precondition of writeNode: the importer is open (i.tree != nil); checked at every call site
	an.pre[writeNode] = func(s *tstate, args []ssa.Value, at ssa.Instruction, fn *ssa.Function) {
		m, ok := s.mem[mkey{s.objOf(args[0]), fTree}]
		good := ok && !m.isInt && s.nonnil[m.obj]
		s.an.ob("precondition", at, "Importer.writeNode needs an open importer (tree != nil)", good, "writeNode is reachable with a closed importer (tree == nil)")
	}
	baseInv := an.fieldInv
	an.fieldInv = func(s *tstate, fa *ssa.FieldAddr, loaded ssa.Value) {
		baseInv(s, fa, loaded)
		if s.an.curFn == writeNode && fieldVar(fa.X.Type(), fa.Field) == fTree {
			id := s.objOf(loaded)
			delete(s.maybeNil, id)
			s.nonnil[id] = true
		}
	}
	an.assertOK = func(ta *ssa.TypeAssert) bool {
		// bufPool.Get().(*bytes.Buffer): the pool's New returns *bytes.Buffer and every Put hands one back
		call, ok := stripTrivial(ta.X).(*ssa.Call)
		if !ok {
			return false
		}
		f := staticCallee(&call.Call)
		return f != nil && f.String() == "(*sync.Pool).Get" && strings.HasSuffix(ta.AssertedType.String(), "bytes.Buffer")
	}
	an.allocBound = func(s *tstate, fn *ssa.Function, at ssa.Instruction, n ssa.Value) (bool, string) {
		var bounded func(v ssa.Value, d int) bool
		bounded = func(v ssa.Value, d int) bool {
			v = stripTrivial(v)
			if d > 4 {
				return false
			}
			if call, ok := v.(*ssa.Call); ok {
				if f := staticCallee(&call.Call); f != nil && f.String() == "(*bytes.Buffer).Len" {
					return true // size of what the function itself has just encoded
				}
			}
			a := s.intOf(v)
			if a.known && a.t == 0 {
				return true
			}
			// bounded by the length of some slice the caller supplied
			for _, p := range fn.Params {
				if isSliceLike(p.Type()) && s.entails(a, s.lenOf(s.objOf(p)), 0) {
					return true
				}
			}
			if ops, ok := s.sumOf[v]; ok {
				return bounded(ops[0], d+1) && bounded(ops[1], d+1)
			}
			if cv, ok := v.(*ssa.Convert); ok {
				return bounded(cv.X, d+1)
			}
			return false
		}
		if bounded(n, 0) {
			return true, ""
		}
		return false, "allocation size is computed from the input without an upper bound tied to the input's actual size"
	}
	an.trustedCallee = func(f *ssa.Function) bool {
		switch l.fname(f) {
		case "(*iavl.Node)._hash", "(*iavl.Node).writeBytes": // entered with nodes built by Add: child keys come from GetKey() (12 bytes)
			return true
		case "(*iavl.nodeDB).nodeKey", "(*iavl.nodeDB).resetLatestVersion", "(*iavl.MutableTree).LoadVersion":
			return true
		}
		if strings.HasPrefix(f.String(), "(*"+l.ModPath+"/keyformat.") {
			return true
		}
		return false
	}
	an.run()
	an.report()
	// side condition of the declared invariant
	ni := l.Func("", "newImporter")
	okInv := ni != nil
	for _, fn := range l.SrcFuncs {
		for _, st := range append(storesToField(fn, fNonces), storesToField(fn, fVersion)...) {
			if fn != ni {
				okInv = false
				continue
			}
			fa := st.Addr.(*ssa.FieldAddr)
			if fieldVar(fa.X.Type(), fa.Field) == fNonces {
				ms, ok := stripTrivial(st.Val).(*ssa.MakeSlice)
				if !ok {
					okInv = false
					continue
				}
				bo, ok := stripTrivial(ms.Len).(*ssa.BinOp)
				one, isOne := int64(0), false
				if ok {
					one, isOne = constInt(bo.Y)
				}
				if !ok || bo.Op != token.ADD || !isOne || one != 1 || !isParam(ni, "version")(stripTrivial(bo.X)) {
					okInv = false
				}
			} else if !isParam(ni, "version")(stripTrivial(st.Val)) {
				okInv = false
			}
		}
	}
	c.decide("TOTAL-importer", "Importer invariant len(nonces) = version+1 established only by newImporter", "import.go", okInv,
		"nonces and version are written only in newImporter, as make(_, version+1) and version", "Importer.nonces / version are written elsewhere or not as make(version+1): the declared invariant does not hold")

	// ---- (2)
	impCommit := l.Func("", "*Importer.Commit")
	grk := l.Func("", "GetRootKey")
	rlv := l.Func("", "*nodeDB.resetLatestVersion")
	lv := l.Func("", "*MutableTree.LoadVersion")
	if impCommit == nil || grk == nil || rlv == nil || lv == nil {
		c.anchorMissing("OWN-root-marker", "Importer.Commit / GetRootKey / resetLatestVersion / LoadVersion")
	} else {
		n := 0
		for _, fn := range l.SrcFuncs {
			top := fn
			for top.Parent() != nil {
				top = top.Parent()
			}
			if r := top.Signature.Recv(); r == nil || derefNamed(r.Type()) == nil || !strings.Contains(derefNamed(r.Type()).Obj().Name(), "Importer") {
				continue
			}
			for _, in := range callsIn(fn, predStatic(grk)) {
				n++
				c.decide("OWN-root-marker", l.fname(fn)+" builds a root key", l.ipos(in), top == impCommit, "only Commit writes the root marker", "the root marker key is built outside Importer.Commit: a version can become visible before Commit")
			}
		}
		if n == 0 {
			c.anchorMissing("OWN-root-marker", "no GetRootKey use in the importer")
		}
		var ws *ssa.Call
		for _, in := range callsIn(impCommit, isBatchWrite) {
			if cl, ok := in.(*ssa.Call); ok {
				ws = cl
			}
		}
		for _, in := range callsIn(impCommit, predStatic(rlv, lv)) {
			c.decide("OWN-root-marker", "Importer.Commit "+l.calleeName(in)+" after WriteSync", l.ipos(in), ws != nil && okEdgeDominates(ws, in),
				"published only after the synchronous write returned nil", "the imported version is published although the write did not succeed")
		}
		// the importer's only synchronous write is WriteSync
		if ws != nil {
			c.decide("OWN-root-marker", "Importer.Commit final write is synchronous", l.ipos(ws), ws.Call.Method.Name() == "WriteSync", "WriteSync", "the final import write is not synchronous")
		}
	}

	// ---- (3)
	ea := newErrAnalysis(c, l)
	exp := l.Func("", "*Exporter.export")
	newExp := l.Func("", "newExporter")
	next := l.Func("", "*Exporter.Next")
	inFns := func(fs ...*ssa.Function) func(fn *ssa.Function) bool {
		return func(fn *ssa.Function) bool {
			for f := fn; f != nil; f = f.Parent() {
				for _, g := range fs {
					if g != nil && f == g {
						return true
					}
				}
			}
			return false
		}
	}
	ea.runE1E2E4("ERR-export", "ERR-export", "ERR-export", inFns(exp, newExp, next))
	if exp == nil || newExp == nil || next == nil {
		c.anchorMissing("ERR-export", "Exporter.export / newExporter / Exporter.Next")
		return
	}
	_, lossy := ea.lossy[exp]
	c.decide("ERR-export", "Exporter.export surfaces traversal errors", l.pos(exp.Pos()), !lossy, "the export goroutine stores or sends the traversal error", "the export goroutine loses storage errors: "+ea.lossy[exp])
	// Next returns the stored error: some return of Next yields a load of an error field of Exporter
	surf := false
	for _, r := range returnsOf(next) {
		for _, root := range roots(retVal(r, 1)) {
			if ld, ok := root.(*ssa.UnOp); ok && ld.Op == token.MUL {
				if fa, ok := ld.X.(*ssa.FieldAddr); ok && isErrorType(fieldVar(fa.X.Type(), fa.Field).Type()) {
					surf = true
				}
			}
		}
	}
	c.decide("ERR-export", "Exporter.Next returns the stored traversal error", l.pos(next.Pos()), surf, "Next hands back the error recorded by the export goroutine", "Next never returns a recorded error: a failed traversal ends with 'done'")
}
