package main

import (
	"fmt"
	"go/token"
	"go/types"
	"sort"
	"strings"

	"golang.org/x/tools/go/ssa"
)

func init() {
	register(&propCheck{id: "C10", needRoot: true, run: checkC10,
		explanation: "Decided statically: (1) TOTAL — Importer.Add/Commit/writeNode/Close, CompressImporter.Add, deltaDecode and the node validation they call have no reachable panic site (index, slice, nil dereference of an untrusted node, unchecked type assertion), no allocation whose size is chosen by the input, and no loop, for ARBITRARY ExportNode values: every such site is an obligation discharged by a zone abstract interpretation over every path; the importer's heap invariant len(nonces) = version+1 is declared and its side condition (both fields written only by the constructor) is checked; (2) OWN/ORDER — the root marker key is written only by Commit, the imported version is published (latest-version counter, LoadVersion) only after the synchronous write returned nil; (3) ERR — the exporter cannot obtain nodes through a traversal that loses storage errors, and reports the traversal error instead of 'done'. Added in the build round: FLOW-export-fields — exporter and importer map node fields to stream fields and back identically, the importer takes left/right children from the two topmost stack entries in that order, and the compressing wrapper's version delta / key elision is undone by its mirror image; OWN-root-marker (inflight protocol) — the root batch is written only after the background node batch was awaited and found nil, and whoever receives the background result clears the in-flight slot on every path; NONNIL-decoded-key — a successfully delta-decoded key is never nil. NOT decided: round-trip fidelity (same hash, contents, future hashes), nor that 'nothing becomes visible' in the presence of the importer's early batch flush (C05 known finding). Rules added in the later seeding rounds (each listed with what it decides in this file's rule table) are described in DESIGN.md §3 \"Third and fourth seeding rounds\" and Appendix C3–C5."})
}

func checkC10(c *Ctx) {
	l := c.L
	checkImportValidatedBeforeWrite(c, "ORDER-import-validated-first")
	checkDecodedValueNonNil(c)
	checkPooledBytes(c, "FRESH-pooled-bytes")
	checkForceUpgradeTable(c, "TABLE-force-rebuild")
	c.rule("TOTAL-importer", "importer is panic-free, allocation-bounded and loop-free on arbitrary node streams", 30)
	c.rule("OWN-root-marker", "root marker written only by Commit; publication after the synchronous write", 4)
	c.rule("ERR-export", "an export that hits a storage error cannot end with 'done'", 2)
	c.rule("NONNIL-decoded-key", "a successfully delta-decoded key is never nil (nil keys are rejected by the importer; the empty key is a legal key)", 2)
	c.rule("FLOW-export-fields", "exporter and importer map node fields to stream fields and back identically; children are taken from the stack in left/right order; the compressed stream's version/key coding is undone by its mirror image", 20)
	checkExportImportFields(c)

	names := []string{"*Importer.Add", "*Importer.Commit", "*Importer.writeNode", "*Importer.Close", "*CompressImporter.Add", "deltaDecode", "maxInt64",
		"*Node.validate", "*Node.isLeaf", "*Node.GetKey", "*NodeKey.GetKey", "GetRootKey"}
	var T []*ssa.Function
	for _, n := range names {
		f := l.Func("", n)
		if f == nil {
			c.anchorMissing("TOTAL-importer", n)
			continue
		}
		T = append(T, f)
	}
	an := newTotalAnalysis(c, l, "TOTAL-importer", T)
	an.untrustedParam = func(fn *ssa.Function, p *ssa.Parameter) bool {
		n := derefNamed(p.Type())
		return n != nil && n.Obj().Name() == "ExportNode"
	}
	an.trustedInvoke = commonTrustedInvoke
	fNonces := l.Field("", "Importer", "nonces")
	fVersion := l.Field("", "Importer", "version")
	fTree := l.Field("", "Importer", "tree")
	if fNonces == nil || fVersion == nil || fTree == nil {
		c.anchorMissing("TOTAL-importer", "Importer.nonces / version / tree")
		return
	}
	// declared heap invariant: len(i.nonces) = i.version + 1, i.version >= 0
	an.fieldInv = func(s *tstate, fa *ssa.FieldAddr, loaded ssa.Value) {
		fv := fieldVar(fa.X.Type(), fa.Field)
		obj := s.objOf(fa.X)
		switch fv {
		case fNonces:
			vk := mkey{obj, fVersion}
			m, ok := s.mem[vk]
			if !ok {
				m = mval{isInt: true, a: aint{t: s.newTerm(), known: true}}
				s.mem[vk] = m
			}
			s.assume(konst(0), m.a, 0)
			ln := s.lenOf(s.objOf(loaded))
			v1 := aint{t: m.a.t, off: m.a.off + 1, known: true}
			s.assume(ln, v1, 0)
			s.assume(v1, ln, 0)
		case fVersion:
			s.assume(konst(0), s.intOf(loaded), 0)
		case fTree:
			// Close() sets it to nil: every use must be guarded
			id := s.objOf(loaded)
			s.maybeNil[id] = true
			s.an.trackedNil[id] = true
		}
	}
	writeNode := l.Func("", "*Importer.writeNode")
	// declared precondition of writeNode: the importer is open (i.tree != nil); checked at every call site
	an.pre[writeNode] = func(s *tstate, args []ssa.Value, at ssa.Instruction, fn *ssa.Function) {
		m, ok := s.mem[mkey{s.objOf(args[0]), fTree}]
		good := ok && !m.isInt && s.nonnil[m.obj]
		s.an.ob("precondition", at, "Importer.writeNode needs an open importer (tree != nil)", good, "writeNode is reachable with a closed importer (tree == nil)")
	}
	baseInv := an.fieldInv
	an.fieldInv = func(s *tstate, fa *ssa.FieldAddr, loaded ssa.Value) {
		baseInv(s, fa, loaded)
		if s.an.curFn == writeNode && fieldVar(fa.X.Type(), fa.Field) == fTree {
			id := s.objOf(loaded)
			delete(s.maybeNil, id)
			s.nonnil[id] = true
		}
	}
	an.assertOK = func(ta *ssa.TypeAssert) bool {
		// bufPool.Get().(*bytes.Buffer): the pool's New returns *bytes.Buffer and every Put hands one back
		call, ok := stripTrivial(ta.X).(*ssa.Call)
		if !ok {
			return false
		}
		f := staticCallee(&call.Call)
		return f != nil && f.String() == "(*sync.Pool).Get" && strings.HasSuffix(ta.AssertedType.String(), "bytes.Buffer")
	}
	an.allocBound = func(s *tstate, fn *ssa.Function, at ssa.Instruction, n ssa.Value) (bool, string) {
		var bounded func(v ssa.Value, d int) bool
		bounded = func(v ssa.Value, d int) bool {
			v = stripTrivial(v)
			if d > 4 {
				return false
			}
			if call, ok := v.(*ssa.Call); ok {
				if f := staticCallee(&call.Call); f != nil && f.String() == "(*bytes.Buffer).Len" {
					return true // size of what the function itself has just encoded
				}
			}
			a := s.intOf(v)
			if a.known && a.t == 0 {
				return true
			}
			// bounded by the length of some slice the caller supplied
			for _, p := range fn.Params {
				if isSliceLike(p.Type()) && s.entails(a, s.lenOf(s.objOf(p)), 0) {
					return true
				}
			}
			if ops, ok := s.sumOf[v]; ok {
				return bounded(ops[0], d+1) && bounded(ops[1], d+1)
			}
			if cv, ok := v.(*ssa.Convert); ok {
				return bounded(cv.X, d+1)
			}
			return false
		}
		if bounded(n, 0) {
			return true, ""
		}
		return false, "allocation size is computed from the input without an upper bound tied to the input's actual size"
	}
	an.trustedCallee = func(f *ssa.Function) bool {
		switch l.fname(f) {
		case "(*iavl.Node)._hash", "(*iavl.Node).writeBytes": // entered with nodes built by Add: child keys come from GetKey() (12 bytes)
			return true
		case "(*iavl.nodeDB).nodeKey", "(*iavl.nodeDB).resetLatestVersion", "(*iavl.MutableTree).LoadVersion":
			return true
		}
		if strings.HasPrefix(f.String(), "(*"+l.ModPath+"/keyformat.") {
			return true
		}
		return false
	}
	an.run()
	an.report()
	// side condition of the trusted callees: they (and what they call inside the module) contain no explicit panic —
	// the importer hands them nodes assembled from untrusted input and relies on an error / nil result
	for _, name := range []string{"*Node._hash", "*Node.writeBytes"} {
		root := l.Func("", name)
		if root == nil {
			c.anchorMissing("TOTAL-importer", name)
			continue
		}
		seen := map[*ssa.Function]bool{}
		var at ssa.Instruction
		var visit func(f *ssa.Function, d int)
		visit = func(f *ssa.Function, d int) {
			if f == nil || seen[f] || d > 4 || f.Blocks == nil || !l.inModule(f) {
				return
			}
			seen[f] = true
			allInstrs(f, func(in ssa.Instruction) {
				if p, ok := in.(*ssa.Panic); ok && at == nil {
					at = p
				}
				if cc := callCommon(in); cc != nil {
					if g := staticCallee(cc); g != nil {
						visit(g, d+1)
					}
				}
			})
		}
		visit(root, 0)
		pos := l.pos(root.Pos())
		if at != nil {
			pos = l.ipos(at)
		}
		c.decide("TOTAL-importer", "trusted callee "+name+" has no explicit panic", pos, at == nil, "no panic statement in it or in the module functions it calls", "an explicit panic is reachable from "+name+", which the importer calls on nodes assembled from an arbitrary stream (e.g. an inner node without children): a hostile stream aborts the process instead of being rejected")
	}
	// side condition of the declared invariant
	ni := l.Func("", "newImporter")
	okInv := ni != nil
	for _, fn := range l.SrcFuncs {
		for _, st := range append(storesToField(fn, fNonces), storesToField(fn, fVersion)...) {
			if fn != ni {
				okInv = false
				continue
			}
			fa := st.Addr.(*ssa.FieldAddr)
			if fieldVar(fa.X.Type(), fa.Field) == fNonces {
				ms, ok := stripTrivial(st.Val).(*ssa.MakeSlice)
				if !ok {
					okInv = false
					continue
				}
				bo, ok := stripTrivial(ms.Len).(*ssa.BinOp)
				one, isOne := int64(0), false
				if ok {
					one, isOne = constInt(bo.Y)
				}
				if !ok || bo.Op != token.ADD || !isOne || one != 1 || !isParam(ni, "version")(stripTrivial(bo.X)) {
					okInv = false
				}
			} else if !isParam(ni, "version")(stripTrivial(st.Val)) {
				okInv = false
			}
		}
	}
	c.decide("TOTAL-importer", "Importer invariant len(nonces) = version+1 established only by newImporter", "import.go", okInv,
		"nonces and version are written only in newImporter, as make(_, version+1) and version", "Importer.nonces / version are written elsewhere or not as make(version+1): the declared invariant does not hold")

	// ---- (2)
	impCommit := l.Func("", "*Importer.Commit")
	grk := l.Func("", "GetRootKey")
	rlv := l.Func("", "*nodeDB.resetLatestVersion")
	lv := l.Func("", "*MutableTree.LoadVersion")
	if impCommit == nil || grk == nil || rlv == nil || lv == nil {
		c.anchorMissing("OWN-root-marker", "Importer.Commit / GetRootKey / resetLatestVersion / LoadVersion")
	} else {
		n := 0
		for _, fn := range l.SrcFuncs {
			top := fn
			for top.Parent() != nil {
				top = top.Parent()
			}
			if r := top.Signature.Recv(); r == nil || derefNamed(r.Type()) == nil || !strings.Contains(derefNamed(r.Type()).Obj().Name(), "Importer") {
				continue
			}
			for _, in := range callsIn(fn, predStatic(grk)) {
				n++
				c.decide("OWN-root-marker", l.fname(fn)+" builds a root key", l.ipos(in), top == impCommit, "only Commit writes the root marker", "the root marker key is built outside Importer.Commit: a version can become visible before Commit")
			}
		}
		if n == 0 {
			c.anchorMissing("OWN-root-marker", "no GetRootKey use in the importer")
		}
		var ws *ssa.Call
		for _, in := range callsIn(impCommit, isBatchWrite) {
			if cl, ok := in.(*ssa.Call); ok {
				ws = cl
			}
		}
		for _, in := range callsIn(impCommit, predStatic(rlv, lv)) {
			c.decide("OWN-root-marker", "Importer.Commit "+l.calleeName(in)+" after WriteSync", l.ipos(in), ws != nil && okEdgeDominates(ws, in),
				"published only after the synchronous write returned nil", "the imported version is published although the write did not succeed")
		}
		// the importer's only synchronous write is WriteSync
		if ws != nil {
			c.decide("OWN-root-marker", "Importer.Commit final write is synchronous", l.ipos(ws), ws.Call.Method.Name() == "WriteSync", "WriteSync", "the final import write is not synchronous")
		}
	}

	// ---- (2a) no storage error is lost inside the importer (incl. its background writer)
	c.rule("ERR-import", "errors of storage calls made by the importer, also in its background goroutine, are not dropped or shadowed", 8)
	{
		ea := newErrAnalysis(c, l)
		ea.runE1E2E4("ERR-import", "ERR-import", "ERR-import", func(fn *ssa.Function) bool {
			top := fn
			for top.Parent() != nil {
				top = top.Parent()
			}
			r := top.Signature.Recv()
			if r == nil {
				return false
			}
			n := derefNamed(r.Type())
			return n != nil && strings.Contains(n.Obj().Name(), "Importer")
		})
	}
	// ---- (2b) the background node batch and the root batch
	checkInflightProtocol(c, "OWN-root-marker")
	checkImportWriteOnce(c, "OWN-root-marker")
	// ---- (2c) keys handed on by the decompressing wrapper
	checkDecodedKeyNonNil(c)

	// ---- (3)
	ea := newErrAnalysis(c, l)
	exp := l.Func("", "*Exporter.export")
	newExp := l.Func("", "newExporter")
	next := l.Func("", "*Exporter.Next")
	inFns := func(fs ...*ssa.Function) func(fn *ssa.Function) bool {
		return func(fn *ssa.Function) bool {
			for f := fn; f != nil; f = f.Parent() {
				for _, g := range fs {
					if g != nil && f == g {
						return true
					}
				}
			}
			return false
		}
	}
	ea.runE1E2E4("ERR-export", "ERR-export", "ERR-export", inFns(exp, newExp, next))
	if exp == nil || newExp == nil || next == nil {
		c.anchorMissing("ERR-export", "Exporter.export / newExporter / Exporter.Next")
		return
	}
	_, lossy := ea.lossy[exp]
	c.decide("ERR-export", "Exporter.export surfaces traversal errors", l.pos(exp.Pos()), !lossy, "the export goroutine stores or sends the traversal error", "the export goroutine loses storage errors: "+ea.lossy[exp])
	// Next returns the stored error: some return of Next yields a load of an error field of Exporter
	surf := false
	for _, r := range returnsOf(next) {
		for _, root := range roots(retVal(r, 1)) {
			if ld, ok := root.(*ssa.UnOp); ok && ld.Op == token.MUL {
				if fa, ok := ld.X.(*ssa.FieldAddr); ok && isErrorType(fieldVar(fa.X.Type(), fa.Field).Type()) {
					surf = true
				}
			}
		}
	}
	c.decide("ERR-export", "Exporter.Next returns the stored traversal error", l.pos(next.Pos()), surf, "Next hands back the error recorded by the export goroutine", "Next never returns a recorded error: a failed traversal ends with 'done'")
}

// checkExportImportFields: the writer's and the reader's field tables agree.
// Each stream field is written from one node field by the exporter and read
// back into the same node field by the importer; the importer rebuilds the
// parent from the two topmost stack entries in left/right order; the
// compressing wrapper's version delta and key elision are inverted by the
// decompressing wrapper.  Roles are rendered from SSA (receiver/parameter
// positions, field objects), not from text.
func checkExportImportFields(c *Ctx) {
	l := c.L
	const R = "FLOW-export-fields"
	export := l.Func("", "*Exporter.export")
	add := l.Func("", "*Importer.Add")
	enT, nodeT, nkT := l.NamedType("", "ExportNode"), l.NamedType("", "Node"), l.NamedType("", "NodeKey")
	if export == nil || add == nil || enT == nil || nodeT == nil || nkT == nil {
		c.anchorMissing(R, "Exporter.export / Importer.Add / ExportNode / Node / NodeKey")
		return
	}
	roles := func(vs []ssa.Value) []string {
		var out []string
		for _, v := range vs {
			out = append(out, roleOfIdx(l, v))
		}
		sort.Strings(out)
		return out
	}
	one := func(fn *ssa.Function, T *types.Named, what string) map[string][]ssa.Value {
		lits := structStoresAll(fn, T)
		if len(lits) != 1 {
			c.bad(R, what, l.pos(fn.Pos()), fmt.Sprintf("expected one %s literal, found %d", T.Obj().Name(), len(lits)))
			return nil
		}
		return lits[0]
	}
	// --- exporter: stream field <- node field of the node the traversal yields
	if m := one(export, enT, "export builds one ExportNode per traversed node"); m != nil {
		for _, e := range [][2]string{{"Key", ".key"}, {"Value", ".value"}, {"Version", ".nodeKey.version"}, {"Height", ".subtreeHeight"}} {
			rs := roles(m[e[0]])
			ok := len(rs) == 1 && strings.HasPrefix(rs[0], "next(newTraversal(") && strings.HasSuffix(rs[0], "#0"+e[1])
			c.decide(R, "export: ExportNode."+e[0]+" <- node"+e[1], l.pos(export.Pos()), ok, "taken from the traversed node's"+e[1], "ExportNode."+e[0]+" is `"+strings.Join(rs, " | ")+"`")
		}
		// the traversal is the post-order, ascending, whole-range one the importer assumes
		for _, in := range callsIn(export, predStatic(l.Func("", "*Node.newTraversal"))) {
			cc := callCommon(in)
			var as []string
			for _, a := range cc.Args[2:] {
				as = append(as, roleOf(l, a, "", 0))
			}
			got := strings.Join(as, ",")
			c.decide(R, "export: traversal is whole-range, ascending, post-order", l.ipos(in), got == "nil,nil,true,false,true", "newTraversal(tree, nil, nil, ascending, !inclusive, post)", "traversal arguments are ("+got+"): the importer needs children before their parent, left before right")
		}
	}
	// --- importer: node field <- stream field
	if m := one(add, nodeT, "Add builds one Node per ExportNode"); m != nil {
		for _, e := range [][2]string{{"key", "arg0.Key"}, {"value", "arg0.Value"}, {"subtreeHeight", "arg0.Height"}} {
			rs := roles(m[e[0]])
			c.decide(R, "import: Node."+e[0]+" <- "+e[1], l.pos(add.Pos()), len(rs) == 1 && rs[0] == e[1], "read back from the same stream field", "Node."+e[0]+" is `"+strings.Join(rs, " | ")+"`")
		}
		top1, top2 := "recv.stack[(len(recv.stack)-1)]", "recv.stack[(len(recv.stack)-2)]"
		for _, e := range [][2]string{{"leftNode", top2}, {"rightNode", top1}, {"leftNodeKey", "GetKey(" + top2 + ")"}, {"rightNodeKey", "GetKey(" + top1 + ")"}} {
			rs := roles(m[e[0]])
			c.decide(R, "import: Node."+e[0]+" <- "+e[1], l.pos(add.Pos()), len(rs) == 1 && rs[0] == e[1], "left child is the deeper stack entry, right child the top", "Node."+e[0]+" is `"+strings.Join(rs, " | ")+"`")
		}
		rs := roles(m["size"])
		okSize := len(rs) == 2 && rs[1] == "1" && (rs[0] == "("+top2+".size+"+top1+".size)" || rs[0] == "("+top1+".size+"+top2+".size)")
		c.decide(R, "import: Node.size = 1 (leaf) | left.size + right.size", l.pos(add.Pos()), okSize, "size recomputed from the children", "Node.size is `"+strings.Join(rs, " | ")+"`")
	}
	if m := one(add, nkT, "Add builds one NodeKey per ExportNode"); m != nil {
		rs := roles(m["version"])
		c.decide(R, "import: NodeKey.version <- arg0.Version", l.pos(add.Pos()), len(rs) == 1 && rs[0] == "arg0.Version", "read back from the same stream field", "NodeKey.version is `"+strings.Join(rs, " | ")+"`")
		rs = roles(m["nonce"])
		c.decide(R, "import: NodeKey.nonce = nonces[version] + 1", l.pos(add.Pos()), len(rs) == 1 && rs[0] == "(recv.nonces[arg0.Version]+1)", "per-version counter, root keeps nonce 1", "NodeKey.nonce is `"+strings.Join(rs, " | ")+"`")
	}
	// --- compressed stream: Next and Add are mirror images
	next := l.Func("", "*CompressExporter.Next")
	cadd := l.Func("", "*CompressImporter.Add")
	if next == nil || cadd == nil {
		c.anchorMissing(R, "CompressExporter.Next / CompressImporter.Add")
		return
	}
	fieldStores := func(fn *ssa.Function, T *types.Named, field string) []string {
		var out []string
		allInstrs(fn, func(in ssa.Instruction) {
			st, ok := in.(*ssa.Store)
			if !ok {
				return
			}
			fa, ok := st.Addr.(*ssa.FieldAddr)
			if !ok {
				return
			}
			n := derefNamed(fa.X.Type())
			if n == nil || n.Obj() != T.Obj() || fieldName(fa.X.Type(), fa.Field) != field {
				return
			}
			out = append(out, roleOfIdx(l, st.Val))
		})
		sort.Strings(out)
		return out
	}
	mx := func(st string) []string {
		a, b := st+"[(len("+st+")-1)]", st+"[(len("+st+")-2)]"
		return []string{"maxInt64(" + a + "," + b + ")", "maxInt64(" + b + "," + a + ")"}
	}
	inAny := func(got string, pre string, alts []string, post string) bool {
		for _, a := range alts {
			if got == pre+a+post {
				return true
			}
		}
		return false
	}
	// exporter: Version -= max(top two); importer: Version += max(top two)
	ev := fieldStores(next, enT, "Version")
	n0 := "Next(recv.inner)#0"
	c.decide(R, "compress: branch version written as a delta against the larger child version", l.pos(next.Pos()),
		len(ev) == 1 && inAny(ev[0], "("+n0+".Version-", mx("recv.versionStack"), ")"), "Version - max(top two of the version stack)", "exporter writes Version as `"+strings.Join(ev, " | ")+"`")
	iv := fieldStores(cadd, enT, "Version")
	c.decide(R, "decompress: branch version restored by adding the larger child version", l.pos(cadd.Pos()),
		len(iv) == 1 && inAny(iv[0], "(arg0.Version+", mx("recv.versionStack"), ")"), "Version + max(top two of the version stack)", "importer restores Version as `"+strings.Join(iv, " | ")+"`")
	// keys: exporter delta-encodes leaf keys against the previous leaf key and drops branch keys;
	// importer decodes against the previous decoded key and restores branch keys from the min-key stack
	ek := fieldStores(next, enT, "Key")
	c.decide(R, "compress: leaf key delta-encoded against the previous leaf key; branch key dropped", l.pos(next.Pos()),
		len(ek) == 2 && ek[0] == "deltaEncode("+n0+".Key,recv.lastKey)" && ek[1] == "nil", "deltaEncode(key, lastKey) | nil", "exporter writes Key as `"+strings.Join(ek, " | ")+"`")
	ik := fieldStores(cadd, enT, "Key")
	c.decide(R, "decompress: leaf key decoded against the previous key; branch key = smallest key of the right subtree", l.pos(cadd.Pos()),
		len(ik) == 2 && ik[0] == "deltaDecode(arg0.Key,recv.lastKey)#0" && ik[1] == "recv.minKeyStack[(len(recv.minKeyStack)-1)]", "deltaDecode(key, lastKey) | top of the min-key stack", "importer restores Key as `"+strings.Join(ik, " | ")+"`")
	ceT, ciT := l.NamedType("", "CompressExporter"), l.NamedType("", "CompressImporter")
	if ceT != nil && ciT != nil {
		lk := fieldStores(next, ceT, "lastKey")
		c.decide(R, "compress: lastKey <- the leaf's plain key", l.pos(next.Pos()), len(lk) == 1 && lk[0] == n0+".Key", "previous plain key", "exporter remembers `"+strings.Join(lk, " | ")+"`")
		lk = fieldStores(cadd, ciT, "lastKey")
		c.decide(R, "decompress: lastKey <- the decoded key", l.pos(cadd.Pos()), len(lk) == 1 && lk[0] == "deltaDecode(arg0.Key,recv.lastKey)#0", "previous decoded key", "importer remembers `"+strings.Join(lk, " | ")+"`")
	}
}

// checkInflightProtocol (shared by C10 and C05): the importer writes node
// batches in the background and the root batch synchronously at the end.
//   (a) the root batch is written only after the background batch has been
//       awaited (or there is none) AND its result was found nil — otherwise
//       the imported version becomes visible over missing nodes;
//   (b) whoever receives the background result clears the in-flight slot on
//       every path before returning: the result channel delivers exactly
//       once, a second receive blocks forever (Close is deferred by callers).
func checkInflightProtocol(c *Ctx, rule string) {
	l := c.L
	impCommit := l.Func("", "*Importer.Commit")
	fIn := l.Field("", "Importer", "inflightCommit")
	if impCommit == nil || fIn == nil {
		c.anchorMissing(rule, "Importer.Commit / Importer.inflightCommit")
		return
	}
	rawRecv := func(in ssa.Instruction) bool {
		u, ok := in.(*ssa.UnOp)
		return ok && u.Op == token.ARROW && isLoadOfField(fIn)(u.X)
	}
	noneEdgeOf := func(from *ssa.BasicBlock, si int) bool {
		iff := ifOf(from)
		if iff == nil {
			return false
		}
		v, nn, ok := nilCond(iff.Cond)
		return ok && isLoadOfField(fIn)(stripTrivial(v)) && si == 1-nn
	}
	// helpers that await the slot on every path and hand the received error back as their result
	awaiters := map[*ssa.Function]bool{}
	for _, fn := range l.SrcFuncs {
		if l.pkgPathOf(fn) != l.ModPath || fn == impCommit || errResultIndex(fn.Signature) < 0 || fn.Signature.Results().Len() != 1 {
			continue
		}
		has := false
		allInstrs(fn, func(in ssa.Instruction) {
			if rawRecv(in) {
				has = true
			}
		})
		if !has {
			continue
		}
		drained := mustStateE(fn, false, rawRecv, nil, noneEdgeOf)
		ok := true
		for _, r := range returnsOf(fn) {
			if isRecoverReturn(r) {
				continue
			}
			if !drained(r) {
				ok = false
			}
			// the result is the received value (or nil on the nothing-in-flight edge)
			v := stripTrivial(retVal(r, 0))
			if !isNilConst(v) {
				if u, isU := v.(*ssa.UnOp); !isU || !rawRecv(u) {
					if _, isPhi := v.(*ssa.Phi); !isPhi {
						ok = false
					}
				}
			}
		}
		if ok {
			awaiters[fn] = true
		}
	}
	isRecv := func(in ssa.Instruction) bool {
		if rawRecv(in) {
			return true
		}
		if cc := callCommon(in); cc != nil {
			if g := staticCallee(cc); g != nil && awaiters[g] {
				return true
			}
		}
		return false
	}
	// (a)
	var ws *ssa.Call
	for _, in := range callsIn(impCommit, isBatchWrite) {
		if cl, ok := in.(*ssa.Call); ok {
			ws = cl
		}
	}
	if ws == nil {
		c.bad(rule, "Importer.Commit root batch after the background batch", l.pos(impCommit.Pos()), "no physical write in Importer.Commit")
	} else {
		// the nil edge of `inflightCommit != nil` counts as drained
		noneEdge := func(from *ssa.BasicBlock, si int) bool {
			iff := ifOf(from)
			if iff == nil {
				return false
			}
			v, nn, ok := nilCond(iff.Cond)
			return ok && isLoadOfField(fIn)(stripTrivial(v)) && si == 1-nn
		}
		drained := mustStateE(impCommit, false, isRecv, nil, noneEdge)
		okA := drained(ws)
		why := "the root batch can be written while a background node batch is still in flight: its failure is learnt only after the root is durable"
		if okA {
			// result found nil: a guard on the received value (or a phi carrying it) whose nil edge dominates the write
			carriers := map[ssa.Value]bool{}
			allInstrs(impCommit, func(in ssa.Instruction) {
				if isRecv(in) {
					carriers[in.(ssa.Value)] = true
				}
			})
			for changed := true; changed; {
				changed = false
				allInstrs(impCommit, func(in ssa.Instruction) {
					if phi, ok := in.(*ssa.Phi); ok && !carriers[phi] {
						for _, e := range phi.Edges {
							if carriers[stripTrivial(e)] {
								carriers[phi] = true
								changed = true
							}
						}
					}
				})
			}
			okA = false
			for _, b := range impCommit.Blocks {
				iff := ifOf(b)
				if iff == nil {
					continue
				}
				v, nn, ok := nilCond(iff.Cond)
				if ok && carriers[stripTrivial(v)] && edgeDominates(b, 1-nn, ws.Block()) {
					okA = true
				}
			}
			why = "the root batch is written without the background batch's result having been found nil"
		}
		c.decide(rule, "Importer.Commit root batch after the background batch", l.ipos(ws), okA, "awaited (or none in flight) and found nil before the synchronous write", why)
	}
	// (b)
	n := 0
	for _, fn := range l.SrcFuncs {
		if l.pkgPathOf(fn) != l.ModPath {
			continue
		}
		allInstrs(fn, func(in ssa.Instruction) {
			if !rawRecv(in) {
				return
			}
			n++
			escapes := reachableAfter(in, func(x ssa.Instruction) bool {
				r, ok := x.(*ssa.Return)
				return ok && !isRecoverReturn(r)
			}, func(x ssa.Instruction) bool { return isStoreToField(x, fIn) })
			msg := ""
			if len(escapes) > 0 {
				msg = "the return at " + l.ipos(escapes[0]) + " is reached after the receive without clearing the in-flight slot: the next receive (Close, Commit, next flush) blocks forever"
			}
			c.decide(rule, l.fname(fn)+" clears the in-flight slot after receiving", l.ipos(in), len(escapes) == 0, "slot reset on every path", msg)
		})
	}
	if n < 3 {
		c.anchorMissing(rule, "fewer than 3 receives from Importer.inflightCommit")
	}
}

// checkDecodedKeyNonNil: deltaDecode's success result is never nil.  May-nil
// evaluation: nil constant, parameters and unknown values may be nil; make is
// non-nil; x[lo:] is non-nil when lo >= 1 is established (slicing a nil slice
// from 1 panics, which TOTAL-importer excludes) or x is non-nil; append(a, …)
// may be nil iff a may be nil.
func checkDecodedKeyNonNil(c *Ctx) {
	l := c.L
	const R = "NONNIL-decoded-key"
	dd := l.Func("", "deltaDecode")
	cadd := l.Func("", "*CompressImporter.Add")
	if dd == nil || cadd == nil {
		c.anchorMissing(R, "deltaDecode / CompressImporter.Add")
		return
	}
	var mayNil func(v ssa.Value, at *ssa.BasicBlock, d int) bool
	atLeastOne := func(v ssa.Value, at *ssa.BasicBlock) bool {
		if k, ok := constInt(v); ok {
			return k >= 1
		}
		// a dominating test `v <= 0` / `v < 1` whose false edge leads here
		for _, b := range dd.Blocks {
			iff := ifOf(b)
			if iff == nil {
				continue
			}
			bo, ok := iff.Cond.(*ssa.BinOp)
			if !ok || stripTrivial(bo.X) != stripTrivial(v) {
				continue
			}
			k, isK := constInt(bo.Y)
			if !isK {
				continue
			}
			switch {
			case bo.Op == token.LEQ && k == 0, bo.Op == token.LSS && k == 1:
				if edgeDominates(b, 1, at) {
					return true
				}
			case bo.Op == token.GTR && k == 0, bo.Op == token.GEQ && k == 1:
				if edgeDominates(b, 0, at) {
					return true
				}
			}
		}
		return false
	}
	mayNil = func(v ssa.Value, at *ssa.BasicBlock, d int) bool {
		if d > 8 {
			return true
		}
		switch x := v.(type) {
		case *ssa.Const:
			return x.IsNil()
		case *ssa.MakeSlice:
			return false
		case *ssa.Slice:
			if _, isPtr := x.X.Type().Underlying().(*types.Pointer); isPtr {
				return false // slice of an array
			}
			if x.Low != nil && atLeastOne(x.Low, x.Block()) {
				return false
			}
			return mayNil(x.X, x.Block(), d+1)
		case *ssa.Call:
			if b, ok := x.Call.Value.(*ssa.Builtin); ok && b.Name() == "append" {
				return mayNil(x.Call.Args[0], x.Block(), d+1)
			}
			return true
		case *ssa.Phi:
			for _, e := range x.Edges {
				if mayNil(e, at, d+1) {
					return true
				}
			}
			return false
		case *ssa.ChangeType:
			return mayNil(x.X, at, d+1)
		}
		return true
	}
	n := 0
	for _, r := range successReturns(dd) {
		if isRecoverReturn(r) {
			continue
		}
		n++
		v := retVal(r, 0)
		c.decide(R, "deltaDecode success result is non-nil", l.ipos(r), !mayNil(v, r.Block(), 0), "sliced from offset >= 1, or freshly made", "the decoded key `"+roleOf(l, v, "", 0)+"` can be nil (e.g. the empty key of the first leaf): the importer rejects nil keys, so a tree holding the empty key cannot be imported through the compressed stream")
	}
	if n == 0 {
		c.anchorMissing(R, "deltaDecode has no success return")
	}
}

// checkImportWriteOnce (shared by C12 and C10): every imported node is written
// to storage exactly once, under its final key.  A node still on the stack may
// yet be re-keyed (the root gets nonce 1 in Commit), so Add writes only the two
// children it pops; Commit writes the root after fixing its nonce.  Writing a
// node when it is pushed leaves a second copy of the root under its
// provisional key, unreachable and never pruned.
func checkImportWriteOnce(c *Ctx, rule string) {
	l := c.L
	add, commit, wn := l.Func("", "*Importer.Add"), l.Func("", "*Importer.Commit"), l.Func("", "*Importer.writeNode")
	if add == nil || commit == nil || wn == nil {
		c.anchorMissing(rule, "Importer.Add / Commit / writeNode")
		return
	}
	top1, top2 := "recv.stack[(len(recv.stack)-1)]", "recv.stack[(len(recv.stack)-2)]"
	n := 0
	for _, in := range callsIn(add, predStatic(wn)) {
		n++
		r := roleOfIdx(l, callCommon(in).Args[1])
		c.decide(rule, "Importer.Add writes only the children it pops from the stack", l.ipos(in), r == top1 || r == top2, "writeNode("+r+")", "Add writes `"+r+"`: a node that stays on the stack (and may still be re-keyed as the root) is written under a provisional key and written again later — an unreachable copy remains")
	}
	if n != 2 {
		c.bad(rule, "Importer.Add writes both popped children", l.pos(add.Pos()), fmt.Sprintf("%d writeNode calls in Add, 2 expected (left and right child)", n))
	}
	fNonce := l.Field("", "NodeKey", "nonce")
	for _, in := range callsIn(commit, predStatic(wn)) {
		r := roleOfIdx(l, callCommon(in).Args[1])
		okOrder := false
		if fNonce != nil {
			for _, st := range storesToField(commit, fNonce) {
				if k, isK := constInt(st.Val); isK && k == 1 && instrDominates(st, in) {
					okOrder = true
				}
			}
		}
		c.decide(rule, "Importer.Commit writes the root after fixing its nonce", l.ipos(in), r == "recv.stack[0]" && okOrder, "nonce = 1, then writeNode(stack[0])", "Commit writes `"+r+"` / before the root's key is final")
	}
}

// checkImportValidatedBeforeWrite (C10): what the final LoadVersion of
// Importer.Commit refuses for configuration reasons — a store whose first
// version lies below the configured initial version — is refused when the
// importer is created.  Commit calls LoadVersion only after its WriteSync:
// refused there, the import is reported as failed and is in the database.
func checkImportValidatedBeforeWrite(c *Ctx, rule string) {
	l := c.L
	c.rule(rule, "an import below the configured initial version is refused before anything is written", 1)
	ni := l.Func("", "newImporter")
	lv := l.Func("", "*MutableTree.LoadVersion")
	if ni == nil || lv == nil || len(ni.Params) < 2 {
		c.anchorMissing(rule, "newImporter / LoadVersion")
		return
	}
	// LoadVersion has the refusal (otherwise there is nothing to mirror)
	refuses := func(fn *ssa.Function, other func(ssa.Value) bool) (bool, ssa.Instruction) {
		for _, b := range fn.Blocks {
			iff := ifOf(b)
			if iff == nil {
				continue
			}
			bo, ok := stripTrivial(iff.Cond).(*ssa.BinOp)
			if !ok {
				continue
			}
			switch bo.Op {
			case token.LSS, token.GTR, token.LEQ, token.GEQ:
			default:
				continue
			}
			rx, ry := roleOf(l, bo.X, "", 0), roleOf(l, bo.Y, "", 0)
			isInit := func(r string) bool { return strings.Contains(r, "opts.InitialVersion") }
			if (isInit(rx) && other(bo.Y)) || (isInit(ry) && other(bo.X)) {
				// one of the edges leaves with an error
				for si := 0; si < 2; si++ {
					errOnly := true
					found := false
					searchFrom([]point{blockStart(b.Succs[si])}, func(in ssa.Instruction) bool {
						if r, isR := in.(*ssa.Return); isR {
							found = true
							if errNilness(retVal(r, errResultIndex(fn.Signature)), r.Block(), 0) <= 0 {
								errOnly = false
							}
							return true
						}
						return false
					})
					if found && errOnly {
						return true, iff
					}
				}
			}
		}
		return false, nil
	}
	lvHas, _ := refuses(lv, func(v ssa.Value) bool { return strings.Contains(roleOf(l, v, "", 0), "getFirstVersion") })
	if !lvHas {
		c.ok(rule, "newImporter refuses a version below the initial version", l.pos(ni.Pos()), "LoadVersion has no initial-version refusal to mirror")
		return
	}
	ver := ni.Params[1]
	has, at := refuses(ni, func(v ssa.Value) bool {
		v = stripTrivial(v)
		for {
			if cv, ok := v.(*ssa.Convert); ok {
				v = stripTrivial(cv.X)
				continue
			}
			break
		}
		return v == ssa.Value(ver)
	})
	pos := l.pos(ni.Pos())
	if at != nil {
		pos = l.ipos(at)
	}
	c.decide(rule, "newImporter refuses a version below the initial version", pos, has, "compared with opts.InitialVersion, error exit",
		"the importer accepts a version below the configured initial version; Commit writes the import durably and only then LoadVersion refuses the store (`initial version set to …, but found earlier version …`): the import is reported as failed and is visible in the database")
}
