package main

import (
	"go/constant"
	"go/token"

	"golang.org/x/tools/go/ssa"
)

// Ordering-domain evaluation: keys are touched only through comparisons, so a
// branch condition over two keys is decided by the ordering of the pair
// (lt / eq / gt) and a few boolean atoms (direction flags).  evalBool
// evaluates a boolean SSA value under such an environment; 0 = unknown,
// +1 = true, -1 = false.

type ordEnv struct {
	// cmp returns the assumed ordering (-1, 0, +1) of (x, y), or ok=false
	cmp func(x, y ssa.Value) (int, bool)
	// atom returns the assumed value of a boolean atom (e.g. a direction flag)
	atom func(v ssa.Value) (int, bool)
}

func cmpHolds(op token.Token, ord int) int {
	var r bool
	switch op {
	case token.EQL:
		r = ord == 0
	case token.NEQ:
		r = ord != 0
	case token.LSS:
		r = ord < 0
	case token.LEQ:
		r = ord <= 0
	case token.GTR:
		r = ord > 0
	case token.GEQ:
		r = ord >= 0
	default:
		return 0
	}
	if r {
		return 1
	}
	return -1
}

func (e *ordEnv) evalBool(v ssa.Value, depth int) int {
	v = stripTrivial(v)
	if depth > 12 {
		return 0
	}
	if e.atom != nil {
		if b, ok := e.atom(v); ok {
			return b
		}
	}
	switch x := v.(type) {
	case *ssa.Const:
		if x.Value != nil && x.Value.Kind() == constant.Bool {
			if constant.BoolVal(x.Value) {
				return 1
			}
			return -1
		}
	case *ssa.UnOp:
		if x.Op == token.NOT {
			return -e.evalBool(x.X, depth+1)
		}
	case *ssa.BinOp:
		// direct comparison of the two keys
		if ord, ok := e.cmp(stripTrivial(x.X), stripTrivial(x.Y)); ok {
			return cmpHolds(x.Op, ord)
		}
		// bytes.Compare(a, b) OP const
		if call, ok := stripTrivial(x.X).(*ssa.Call); ok {
			if f := staticCallee(&call.Call); f != nil && (f.String() == "bytes.Compare" || f.String() == "strings.Compare") {
				if k, isC := constInt(x.Y); isC {
					if ord, ok := e.cmp(stripTrivial(call.Call.Args[0]), stripTrivial(call.Call.Args[1])); ok {
						return cmpHolds(x.Op, sign(int64(ord)-k)*1+0)
					}
				}
			}
		}
		if x.Op == token.AND || x.Op == token.OR {
			a, b := e.evalBool(x.X, depth+1), e.evalBool(x.Y, depth+1)
			if x.Op == token.AND {
				if a < 0 || b < 0 {
					return -1
				}
				if a > 0 && b > 0 {
					return 1
				}
			} else {
				if a > 0 || b > 0 {
					return 1
				}
				if a < 0 && b < 0 {
					return -1
				}
			}
		}
	case *ssa.Phi:
		res, first := 0, true
		for i, ed := range x.Edges {
			if !e.edgeFeasible(x.Block().Preds[i], x.Block(), depth+1) {
				continue
			}
			r := e.evalBool(ed, depth+1)
			if r == 0 {
				return 0
			}
			if first {
				res, first = r, false
			} else if res != r {
				return 0
			}
		}
		return res
	}
	return 0
}

func sign(x int64) int {
	switch {
	case x < 0:
		return -1
	case x > 0:
		return 1
	}
	return 0
}

// edgeFeasible: can control arrive at `to` from `from` under the environment?
// Looks at the branch that ends `from`, or (if `from` only jumps) at the branch
// that leads into `from` through single-predecessor blocks.
func (e *ordEnv) edgeFeasible(from, to *ssa.BasicBlock, depth int) bool {
	if iff := ifOf(from); iff != nil {
		r := e.evalBool(iff.Cond, depth+1)
		if r > 0 {
			return from.Succs[0] == to
		}
		if r < 0 {
			return from.Succs[1] == to
		}
		return true
	}
	if len(from.Preds) == 1 {
		return e.edgeFeasible(from.Preds[0], from, depth+1)
	}
	return true
}

// ---------------------------------------------------------------------------
// concrete walk of a loop-free function under a fully specified environment

type walkEnv struct {
	// evalAtom decides leaf-level boolean values the walk cannot compute itself
	// (field flags, nil tests, comparisons); 0 = unknown
	evalAtom func(w *walker, v ssa.Value) int
}

type walker struct {
	env    *walkEnv
	vals   map[ssa.Value]int
	events []string
	onCall func(w *walker, call *ssa.Call)
	onStore func(w *walker, st *ssa.Store)
	chosen  map[*ssa.Phi]ssa.Value // phi → operand of the edge the walk took
}

// resolve replaces phis by the operand the walk selected.
func (w *walker) resolve(v ssa.Value) ssa.Value {
	for i := 0; i < 8; i++ {
		p, ok := stripTrivial(v).(*ssa.Phi)
		if !ok {
			return v
		}
		c, ok := w.chosen[p]
		if !ok {
			return v
		}
		v = c
	}
	return v
}

func (w *walker) eval(v ssa.Value, d int) int {
	v = stripTrivial(v)
	if d > 16 {
		return 0
	}
	if r, ok := w.vals[v]; ok {
		return r
	}
	if r := w.env.evalAtom(w, v); r != 0 {
		return r
	}
	switch x := v.(type) {
	case *ssa.Const:
		if x.Value != nil && x.Value.Kind() == constant.Bool {
			if constant.BoolVal(x.Value) {
				return 1
			}
			return -1
		}
	case *ssa.UnOp:
		if x.Op == token.NOT {
			return -w.eval(x.X, d+1)
		}
	}
	return 0
}

// run walks fn from its entry; returns the Return reached (nil if a branch
// could not be decided) and the block where it got stuck.
func (w *walker) run(fn *ssa.Function) (*ssa.Return, ssa.Instruction) {
	return w.runFrom(fn.Blocks[0], nil)
}

// runFrom starts at block b (entered from prev).  A block entered for the
// second time ends the walk (one loop iteration is observed): the event
// "<loop>" is appended and (nil, nil) returned.
func (w *walker) runFrom(b, prev *ssa.BasicBlock) (*ssa.Return, ssa.Instruction) {
	visited := map[*ssa.BasicBlock]bool{}
	for steps := 0; steps < 500; steps++ {
		if visited[b] {
			w.events = append(w.events, "<loop>")
			return nil, nil
		}
		visited[b] = true
		// phis first, using the edge actually taken
		for _, in := range b.Instrs {
			p, ok := in.(*ssa.Phi)
			if !ok {
				break
			}
			for i, pb := range b.Preds {
				if pb == prev {
					w.vals[p] = w.eval(p.Edges[i], 0)
					if w.chosen == nil {
						w.chosen = map[*ssa.Phi]ssa.Value{}
					}
					w.chosen[p] = p.Edges[i]
				}
			}
		}
		for _, in := range b.Instrs {
			switch x := in.(type) {
			case *ssa.Call:
				if w.onCall != nil {
					w.onCall(w, x)
				}
			case *ssa.Store:
				if w.onStore != nil {
					w.onStore(w, x)
				}
			case *ssa.If:
				r := w.eval(x.Cond, 0)
				if r == 0 {
					return nil, x
				}
				prev = b
				if r > 0 {
					b = b.Succs[0]
				} else {
					b = b.Succs[1]
				}
			case *ssa.Jump:
				prev = b
				b = b.Succs[0]
			case *ssa.Return:
				return x, nil
			}
		}
	}
	return nil, nil
}
