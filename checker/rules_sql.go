package main

// SQL: writer's and reader's tables agree.
//
// The v2 module talks to SQLite through string statements.  Their text is a
// compile-time constant (or a fmt.Sprintf of a constant format), so the
// relation between the statement, the schema it addresses, the values bound
// to its placeholders and the variables its rows are scanned into is visible
// in the source.  This file recovers every statement text from the SSA form,
// parses it with a small SQL reader (only the forms this code base uses;
// anything else is reported as undecided), and decides
//
//   SQL-schema  every table / column a statement names exists in the CREATE
//               TABLE statement(s) of that table; INSERT column list and
//               VALUES list have the same length; members of a UNION have
//               the same number of columns; two CREATEs of one table agree;
//   SQL-arity   number of `?` = number of values bound (Conn.Exec/Prepare
//               with arguments, Stmt.Exec, Stmt.Bind) for every statement a
//               prepared-statement variable can hold; number of Scan
//               destinations = number of result columns;
//   SQL-roles   a value obtained from NodeKey.Version()/Sequence() is bound
//               to a placeholder whose column is a *version / *sequence
//               column (INSERT position or `col = ?` comparison), and a
//               scanned variable that flows into NewNodeKey's version /
//               sequence argument was scanned from such a column.
//
// Prepared statements are associated with their text through the storage
// cell they are kept in: struct field, local, or variable captured by a
// closure.

import (
	"regexp"
	"fmt"
	"go/constant"
	"go/token"
	"go/types"
	"sort"
	"strings"

	"golang.org/x/tools/go/ssa"
)

// ---------------------------------------------------------------------------
// SQL reader

type sqlTok struct {
	k string // id, num, str, p (punct), q (placeholder)
	s string
}

func sqlLex(s string) []sqlTok {
	var out []sqlTok
	i := 0
	isID := func(c byte) bool {
		return c == '_' || c == '#' || c == '.' || (c >= 'a' && c <= 'z') || (c >= 'A' && c <= 'Z') || (c >= '0' && c <= '9')
	}
	for i < len(s) {
		c := s[i]
		switch {
		case c == ' ' || c == '\t' || c == '\n' || c == '\r':
			i++
		case c == '\'':
			j := i + 1
			for j < len(s) && s[j] != '\'' {
				j++
			}
			out = append(out, sqlTok{"str", s[i+1 : min(j, len(s))]})
			i = j + 1
		case c == '?':
			out = append(out, sqlTok{"q", "?"})
			i++
		case c >= '0' && c <= '9':
			j := i
			for j < len(s) && isID(s[j]) {
				j++
			}
			out = append(out, sqlTok{"num", s[i:j]})
			i = j
		case isID(c):
			j := i
			for j < len(s) && isID(s[j]) {
				j++
			}
			w := strings.ToLower(s[i:j])
			w = strings.TrimPrefix(w, "changelog.")
			out = append(out, sqlTok{"id", w})
			i = j
		case (c == '<' || c == '>' || c == '!') && i+1 < len(s) && s[i+1] == '=':
			out = append(out, sqlTok{"p", s[i : i+2]})
			i += 2
		default:
			out = append(out, sqlTok{"p", string(c)})
			i++
		}
	}
	return out
}

type sqlStmt struct {
	kind   string   // create-table, create-index, insert, select, delete, update, other
	table  string   // main table ("" for compound selects over a subquery)
	out    []string // select: result column names ("" for an expression without alias)
	cols   []string // create-table: columns; insert: column list
	refs   [][2]string
	params []string // column context of each placeholder
	errs   []string
	raw    string
}

func (s *sqlStmt) head() string {
	h := s.kind
	if s.table != "" {
		h += " " + s.table
	}
	if s.kind == "select" {
		h += " [" + strings.Join(s.out, ",") + "]"
	}
	if s.kind == "insert" {
		h += " (" + strings.Join(s.cols, ",") + ")"
	}
	return h
}

var sqlKeywords = map[string]bool{"null": true, "as": true, "and": true, "or": true, "not": true, "is": true, "true": true, "false": true,
	"like": true, "in": true, "between": true, "asc": true, "desc": true, "distinct": true, "from": true, "where": true, "order": true,
	"by": true, "union": true, "all": true, "limit": true, "group": true, "select": true, "#": true}

type sqlParser struct {
	t   []sqlTok
	i   int
	st  *sqlStmt
	err []string
}

func (p *sqlParser) peek() sqlTok {
	if p.i < len(p.t) {
		return p.t[p.i]
	}
	return sqlTok{"eof", ""}
}
func (p *sqlParser) next() sqlTok { t := p.peek(); p.i++; return t }
func (p *sqlParser) isKw(w string) bool {
	t := p.peek()
	return t.k == "id" && t.s == w
}
func (p *sqlParser) accept(w string) bool {
	if p.isKw(w) {
		p.i++
		return true
	}
	return false
}
func (p *sqlParser) acceptP(s string) bool {
	t := p.peek()
	if t.k == "p" && t.s == s {
		p.i++
		return true
	}
	return false
}
func (p *sqlParser) fail(f string, a ...interface{}) { p.err = append(p.err, fmt.Sprintf(f, a...)) }

// identList parses "( a, b, c )" and returns the identifiers.
func (p *sqlParser) identList() []string {
	var out []string
	if !p.acceptP("(") {
		p.fail("expected ( at token %d", p.i)
		return nil
	}
	for {
		t := p.next()
		if t.k != "id" {
			p.fail("expected identifier in list, got %q", t.s)
			return out
		}
		out = append(out, t.s)
		if p.acceptP(",") {
			continue
		}
		if p.acceptP(")") {
			return out
		}
		p.fail("expected , or ) in list, got %q", p.peek().s)
		return out
	}
}

// expr scans an expression up to a terminator at depth 0 and records column
// references (against `table`) and placeholder contexts.
func (p *sqlParser) expr(table string, stop func(sqlTok) bool) {
	depth := 0
	lastCol := ""
	for {
		t := p.peek()
		if t.k == "eof" {
			return
		}
		if depth == 0 && (stop(t) || (t.k == "p" && (t.s == ")" || t.s == ";"))) {
			return
		}
		p.i++
		switch t.k {
		case "p":
			if t.s == "(" {
				depth++
			} else if t.s == ")" {
				depth--
			}
		case "q":
			p.st.params = append(p.st.params, lastCol)
		case "id":
			if sqlKeywords[t.s] {
				if t.s == "and" || t.s == "or" {
					lastCol = ""
				}
				continue
			}
			if n := p.peek(); n.k == "p" && n.s == "(" {
				continue // function name
			}
			p.st.refs = append(p.st.refs, [2]string{table, t.s})
			lastCol = t.s
		}
	}
}

type sqlSel struct {
	out []string
}

func (p *sqlParser) selectCore() *sqlSel {
	if !p.accept("select") {
		p.fail("expected SELECT")
		return nil
	}
	p.accept("distinct")
	// collect the item token ranges up to FROM
	type item struct{ toks []sqlTok }
	var items []item
	cur := item{}
	depth := 0
	for {
		t := p.peek()
		if t.k == "eof" {
			p.fail("SELECT without FROM")
			return nil
		}
		if depth == 0 && t.k == "id" && t.s == "from" {
			break
		}
		p.i++
		if t.k == "p" && t.s == "(" {
			depth++
		}
		if t.k == "p" && t.s == ")" {
			depth--
		}
		if depth == 0 && t.k == "p" && t.s == "," {
			items = append(items, cur)
			cur = item{}
			continue
		}
		cur.toks = append(cur.toks, t)
	}
	items = append(items, cur)
	p.accept("from")
	// source
	var srcCols []string // nil: a real table
	table := ""
	if p.acceptP("(") {
		sub := p.compound()
		if !p.acceptP(")") {
			p.fail("expected ) after subquery")
		}
		if sub != nil {
			srcCols = append([]string{}, sub.out...)
		}
		table = "<subquery>"
	} else {
		t := p.next()
		if t.k != "id" {
			p.fail("expected table name after FROM")
			return nil
		}
		table = t.s
		if p.st.table == "" {
			p.st.table = table
		}
	}
	if p.accept("as") {
		p.next()
	} else if t := p.peek(); t.k == "id" && !sqlKeywords[t.s] {
		p.i++ // alias
	}
	sel := &sqlSel{}
	for _, it := range items {
		if len(it.toks) == 1 && it.toks[0].k == "p" && it.toks[0].s == "*" {
			if srcCols != nil {
				sel.out = append(sel.out, srcCols...)
			} else {
				sel.out = append(sel.out, "*"+table)
			}
			continue
		}
		name := ""
		toks := it.toks
		if n := len(toks); n >= 2 && toks[n-2].k == "id" && toks[n-2].s == "as" && toks[n-1].k == "id" {
			name = toks[n-1].s
			toks = toks[:n-2]
		} else if n == 1 && toks[0].k == "id" && !sqlKeywords[toks[0].s] {
			name = toks[0].s
		}
		for i, t := range toks {
			if t.k != "id" || sqlKeywords[t.s] {
				continue
			}
			if i+1 < len(toks) && toks[i+1].k == "p" && toks[i+1].s == "(" {
				continue
			}
			if srcCols != nil {
				if !contains(srcCols, t.s) {
					p.fail("column %q is not produced by the subquery", t.s)
				}
			} else {
				p.st.refs = append(p.st.refs, [2]string{table, t.s})
			}
		}
		sel.out = append(sel.out, name)
	}
	refTable := table
	if srcCols != nil {
		refTable = "" // checked against srcCols below
	}
	clauseStop := func(t sqlTok) bool {
		return t.k == "id" && (t.s == "union" || t.s == "order" || t.s == "group" || t.s == "limit")
	}
	if p.accept("where") {
		before := len(p.st.refs)
		p.expr(refTable, clauseStop)
		if srcCols != nil {
			for _, r := range p.st.refs[before:] {
				if !contains(srcCols, r[1]) {
					p.fail("column %q is not produced by the subquery", r[1])
				}
			}
			p.st.refs = p.st.refs[:before]
		}
	}
	if p.accept("order") {
		p.accept("by")
		before := len(p.st.refs)
		p.expr(refTable, clauseStop)
		if srcCols != nil {
			for _, r := range p.st.refs[before:] {
				if !contains(srcCols, r[1]) {
					p.fail("ORDER BY column %q is not produced by the subquery", r[1])
				}
			}
			p.st.refs = p.st.refs[:before]
		}
	}
	if p.accept("limit") {
		p.next()
	}
	return sel
}

func (p *sqlParser) compound() *sqlSel {
	s := p.selectCore()
	for s != nil && p.accept("union") {
		p.accept("all")
		s2 := p.selectCore()
		if s2 == nil {
			return s
		}
		if len(s2.out) != len(s.out) {
			p.fail("UNION members have %d and %d columns", len(s.out), len(s2.out))
		}
		for i := range s.out {
			if i < len(s2.out) && s.out[i] == "" {
				s.out[i] = s2.out[i]
			}
		}
	}
	return s
}

func contains(xs []string, x string) bool {
	for _, y := range xs {
		if y == x {
			return true
		}
	}
	return false
}

// parseSQL splits the text into statements and parses each.
func parseSQL(text string) []*sqlStmt {
	toks := sqlLex(text)
	var out []*sqlStmt
	start := 0
	flush := func(end int) {
		if end > start {
			out = append(out, parseStmt(toks[start:end]))
		}
		start = end + 1
	}
	for i, t := range toks {
		if t.k == "p" && t.s == ";" {
			flush(i)
		}
	}
	flush(len(toks))
	return out
}

func parseStmt(toks []sqlTok) *sqlStmt {
	st := &sqlStmt{kind: "other"}
	var raw []string
	for _, t := range toks {
		raw = append(raw, t.s)
	}
	st.raw = strings.Join(raw, " ")
	p := &sqlParser{t: toks, st: st}
	defer func() { st.errs = append(st.errs, p.err...) }()
	none := func(sqlTok) bool { return false }
	switch {
	case p.isKw("create"):
		p.next()
		p.accept("unique")
		switch {
		case p.accept("table"):
			st.kind = "create-table"
			if p.accept("if") {
				p.accept("not")
				p.accept("exists")
			}
			st.table = p.next().s
			if !p.acceptP("(") {
				p.fail("expected ( in CREATE TABLE")
				return st
			}
			// column definitions split at depth-0 commas
			depth := 0
			var def []sqlTok
			endDef := func() {
				if len(def) == 0 {
					return
				}
				switch def[0].s {
				case "primary", "unique", "foreign", "check", "constraint":
					for _, t := range def[1:] {
						if t.k == "id" && t.s != "key" {
							st.refs = append(st.refs, [2]string{st.table, t.s})
						}
					}
				default:
					st.cols = append(st.cols, def[0].s)
				}
				def = nil
			}
			for {
				t := p.next()
				if t.k == "eof" {
					p.fail("unterminated CREATE TABLE")
					return st
				}
				if t.k == "p" && t.s == "(" {
					depth++
				}
				if t.k == "p" && t.s == ")" {
					if depth == 0 {
						endDef()
						return st
					}
					depth--
				}
				if depth == 0 && t.k == "p" && t.s == "," {
					endDef()
					continue
				}
				def = append(def, t)
			}
		case p.accept("index"):
			st.kind = "create-index"
			if p.accept("if") {
				p.accept("not")
				p.accept("exists")
			}
			p.next() // index name
			if !p.accept("on") {
				p.fail("expected ON in CREATE INDEX")
				return st
			}
			st.table = p.next().s
			for _, c := range p.identList() {
				st.refs = append(st.refs, [2]string{st.table, c})
			}
		}
	case p.isKw("insert"):
		p.next()
		st.kind = "insert"
		if p.accept("or") {
			p.next()
		}
		if !p.accept("into") {
			p.fail("expected INTO")
			return st
		}
		st.table = p.next().s
		if t := p.peek(); t.k == "p" && t.s == "(" {
			st.cols = p.identList()
			for _, c := range st.cols {
				st.refs = append(st.refs, [2]string{st.table, c})
			}
		} else {
			st.cols = nil
		}
		if !p.accept("values") {
			p.fail("expected VALUES")
			return st
		}
		if !p.acceptP("(") {
			p.fail("expected ( after VALUES")
			return st
		}
		n := 0
		for {
			t := p.next()
			switch t.k {
			case "q":
				ctx := ""
				if n < len(st.cols) {
					ctx = st.cols[n]
				} else if st.cols == nil {
					ctx = fmt.Sprintf("#%d", n)
				}
				st.params = append(st.params, ctx)
			case "num", "str", "id":
			default:
				p.fail("unexpected %q in VALUES", t.s)
				return st
			}
			n++
			if p.acceptP(",") {
				continue
			}
			if p.acceptP(")") {
				break
			}
			p.fail("expected , or ) in VALUES")
			return st
		}
		if st.cols != nil && n != len(st.cols) {
			p.fail("INSERT names %d columns but supplies %d values", len(st.cols), n)
		}
		if st.cols == nil {
			st.cols = []string{fmt.Sprintf("<%d positional>", n)}
		}
	case p.isKw("select"):
		st.kind = "select"
		s := p.compound()
		if s != nil {
			st.out = s.out
		}
		if t := p.peek(); t.k != "eof" {
			p.fail("unparsed tail starting at %q", t.s)
		}
	case p.isKw("delete"):
		p.next()
		st.kind = "delete"
		if !p.accept("from") {
			p.fail("expected FROM")
			return st
		}
		st.table = p.next().s
		if p.accept("where") {
			p.expr(st.table, none)
		}
		if t := p.peek(); t.k != "eof" {
			p.fail("unparsed tail starting at %q", t.s)
		}
	case p.isKw("update"):
		p.next()
		st.kind = "update"
		st.table = p.next().s
		if !p.accept("set") {
			p.fail("expected SET")
			return st
		}
		p.expr(st.table, func(t sqlTok) bool { return t.k == "id" && t.s == "where" })
		if p.accept("where") {
			p.expr(st.table, none)
		}
	}
	return st
}

// ---------------------------------------------------------------------------
// recovering statement texts and prepared-statement cells from SSA

type sqlSite struct {
	in    ssa.Instruction // the Conn.Prepare / Conn.Exec call
	fn    *ssa.Function
	texts []string
	stmts [][]*sqlStmt // per text
	args  []ssa.Value  // variadic values bound at the call (nil if none / unknown)
	argsK bool         // args known
	prep  bool
}

type sqlWorld struct {
	l        *Loaded
	sites    []*sqlSite
	bySite   map[ssa.Instruction]*sqlSite
	fieldSt  map[*types.Var][]ssa.Value
	cellSt   map[ssa.Value][]ssa.Value
	mapSt    map[*types.Var][]ssa.Value
	schema   map[string][]string
	schemaAt map[string]string
	fns      []*ssa.Function
}

func sqlPkg(f *ssa.Function) bool {
	return f != nil && f.Pkg != nil && strings.HasSuffix(f.Pkg.Pkg.Path(), "go-sqlite-lite/sqlite3")
}

// sqlMethod: static callee is sqlite3.(*recv).name
func sqlMethod(cc *ssa.CallCommon, recv, name string) bool {
	f := staticCallee(cc)
	if !sqlPkg(f) || f.Name() != name || f.Signature.Recv() == nil {
		return false
	}
	n := derefNamed(f.Signature.Recv().Type())
	return n != nil && n.Obj().Name() == recv
}

// textsOf resolves a string value to its possible compile-time texts, with
// every formatting verb replaced by '#'.
func textsOf(v ssa.Value, depth int) ([]string, bool) {
	v = stripTrivial(v)
	switch x := v.(type) {
	case *ssa.Const:
		if x.Value != nil && x.Value.Kind() == constant.String {
			return []string{constant.StringVal(x.Value)}, true
		}
	case *ssa.Phi:
		if depth > 4 {
			return nil, false
		}
		var out []string
		for _, e := range x.Edges {
			t, ok := textsOf(e, depth+1)
			if !ok {
				return nil, false
			}
			out = append(out, t...)
		}
		return out, true
	case *ssa.Call:
		if f := staticCallee(&x.Call); f != nil && f.String() == "fmt.Sprintf" {
			ts, ok := textsOf(x.Call.Args[0], depth+1)
			if !ok {
				return nil, false
			}
			var out []string
			for _, t := range ts {
				out = append(out, unverb(t))
			}
			return out, true
		}
	case *ssa.BinOp:
		if x.Op == token.ADD {
			a, ok1 := textsOf(x.X, depth+1)
			b, ok2 := textsOf(x.Y, depth+1)
			if ok1 && ok2 {
				var out []string
				for _, s := range a {
					for _, t := range b {
						out = append(out, s+t)
					}
				}
				return out, true
			}
			if ok1 {
				var out []string
				for _, s := range a {
					out = append(out, s+"#")
				}
				return out, true
			}
		}
	}
	return nil, false
}

func unverb(f string) string {
	var b strings.Builder
	for i := 0; i < len(f); i++ {
		if f[i] == '%' && i+1 < len(f) {
			if f[i+1] == '%' {
				b.WriteByte('%')
				i++
				continue
			}
			j := i + 1
			for j < len(f) && strings.IndexByte("+-# 0123456789.", f[j]) >= 0 {
				j++
			}
			b.WriteByte('#')
			i = j
			continue
		}
		b.WriteByte(f[i])
	}
	return b.String()
}

// variadicValues returns the elements of a variadic []interface{} argument
// built at the call site.
func variadicValues(v ssa.Value) ([]ssa.Value, bool) {
	v = stripTrivial(v)
	if c, ok := v.(*ssa.Const); ok && c.IsNil() {
		return nil, true
	}
	sl, ok := v.(*ssa.Slice)
	if !ok {
		return nil, false
	}
	al, ok := sl.X.(*ssa.Alloc)
	if !ok {
		return nil, false
	}
	arr, ok := al.Type().Underlying().(*types.Pointer).Elem().Underlying().(*types.Array)
	if !ok {
		return nil, false
	}
	out := make([]ssa.Value, arr.Len())
	for _, r := range refs(al) {
		ia, ok := r.(*ssa.IndexAddr)
		if !ok {
			continue
		}
		idx, ok := constInt(ia.Index)
		if !ok || idx < 0 || idx >= int64(len(out)) {
			return nil, false
		}
		for _, r2 := range refs(ia) {
			if st, ok := r2.(*ssa.Store); ok && st.Addr == ia {
				out[idx] = st.Val
			}
		}
	}
	for _, e := range out {
		if e == nil {
			return nil, false
		}
	}
	return out, true
}

// cellOf canonicalises an address: a FreeVar is replaced by the cell it was
// bound to in the enclosing function.
func cellOf(addr ssa.Value) ssa.Value {
	for d := 0; d < 6; d++ {
		fv, ok := addr.(*ssa.FreeVar)
		if !ok {
			return addr
		}
		fn := fv.Parent()
		par := fn.Parent()
		if par == nil {
			return addr
		}
		idx := -1
		for i, x := range fn.FreeVars {
			if x == fv {
				idx = i
			}
		}
		var bound ssa.Value
		allInstrs(par, func(in ssa.Instruction) {
			if mc, ok := in.(*ssa.MakeClosure); ok && mc.Fn == fn && idx >= 0 && idx < len(mc.Bindings) {
				bound = mc.Bindings[idx]
			}
		})
		if bound == nil {
			return addr
		}
		addr = bound
	}
	return addr
}

func newSQLWorld(l *Loaded) *sqlWorld {
	w := &sqlWorld{l: l, bySite: map[ssa.Instruction]*sqlSite{}, fieldSt: map[*types.Var][]ssa.Value{}, cellSt: map[ssa.Value][]ssa.Value{}, mapSt: map[*types.Var][]ssa.Value{}, schema: map[string][]string{}, schemaAt: map[string]string{}}
	for _, fn := range l.SrcFuncs {
		w.fns = append(w.fns, fn)
	}
	sort.Slice(w.fns, func(i, j int) bool { return w.fns[i].String() < w.fns[j].String() })
	isStmtPtr := func(t types.Type) bool {
		n := derefNamed(t)
		return n != nil && n.Obj().Name() == "Stmt" && n.Obj().Pkg() != nil && strings.HasSuffix(n.Obj().Pkg().Path(), "go-sqlite-lite/sqlite3")
	}
	for _, fn := range w.fns {
		allInstrs(fn, func(in ssa.Instruction) {
			if st, ok := in.(*ssa.Store); ok && isStmtPtr(st.Val.Type()) {
				if fa, ok := st.Addr.(*ssa.FieldAddr); ok {
					f := fieldVar(fa.X.Type(), fa.Field)
					w.fieldSt[f] = append(w.fieldSt[f], st.Val)
				} else {
					c := cellOf(st.Addr)
					w.cellSt[c] = append(w.cellSt[c], st.Val)
				}
			}
			if mu, ok := in.(*ssa.MapUpdate); ok && isStmtPtr(mu.Value.Type()) {
				if f := fieldOfLoad(mu.Map); f != nil {
					w.mapSt[f] = append(w.mapSt[f], mu.Value)
				}
			}
			cc := callCommon(in)
			if cc == nil {
				return
			}
			prep := sqlMethod(cc, "Conn", "Prepare")
			if !prep && !sqlMethod(cc, "Conn", "Exec") {
				return
			}
			s := &sqlSite{in: in, fn: fn, prep: prep}
			if ts, ok := textsOf(cc.Args[1], 0); ok {
				s.texts = ts
				for _, t := range ts {
					s.stmts = append(s.stmts, parseSQL(t))
				}
			}
			if len(cc.Args) > 2 {
				s.args, s.argsK = variadicValues(cc.Args[2])
			}
			w.sites = append(w.sites, s)
			w.bySite[in] = s
		})
	}
	return w
}

// prepareSitesOf resolves a *sqlite3.Stmt value to the Prepare calls it may
// come from.  ok=false: some source is not a Prepare call (unknown).
func (w *sqlWorld) prepareSitesOf(v ssa.Value, seen map[ssa.Value]bool) (out []*sqlSite, ok bool) {
	v = stripTrivial(v)
	if seen[v] {
		return nil, true
	}
	seen[v] = true
	ok = true
	add := func(vals []ssa.Value) {
		for _, x := range vals {
			s, o := w.prepareSitesOf(x, seen)
			out = append(out, s...)
			ok = ok && o
		}
	}
	switch x := v.(type) {
	case *ssa.Const:
		return nil, true // nil
	case *ssa.Extract:
		if c, isCall := x.Tuple.(*ssa.Call); isCall {
			if s := w.bySite[c]; s != nil && s.prep {
				return []*sqlSite{s}, true
			}
			// a module function handing out a statement: its returned values
			if f := staticCallee(&c.Call); f != nil && w.l.inModule(f) && f.Blocks != nil && len(seen) < 64 {
				for _, r := range returnsOf(f) {
					if isRecoverReturn(r) {
						continue
					}
					add([]ssa.Value{retVal(r, x.Index)})
				}
				return
			}
		}
		if lk, isLk := x.Tuple.(*ssa.Lookup); isLk && x.Index == 0 {
			if f := fieldOfLoad(lk.X); f != nil && len(w.mapSt[f]) > 0 {
				add(w.mapSt[f])
				return
			}
		}
		return nil, false
	case *ssa.Lookup:
		if f := fieldOfLoad(x.X); f != nil && len(w.mapSt[f]) > 0 {
			add(w.mapSt[f])
			return
		}
		return nil, false
	case *ssa.Phi:
		add(x.Edges)
		return
	case *ssa.UnOp:
		if x.Op != token.MUL {
			return nil, false
		}
		if fa, isFA := x.X.(*ssa.FieldAddr); isFA {
			f := fieldVar(fa.X.Type(), fa.Field)
			if len(w.fieldSt[f]) == 0 {
				return nil, false
			}
			add(w.fieldSt[f])
			return
		}
		c := cellOf(x.X)
		if len(w.cellSt[c]) == 0 {
			return nil, false
		}
		add(w.cellSt[c])
		return
	case *ssa.Field:
		f := fieldVar(x.X.Type(), x.Field)
		if len(w.fieldSt[f]) == 0 {
			return nil, false
		}
		add(w.fieldSt[f])
		return
	case *ssa.Parameter:
		fn := x.Parent()
		idx := -1
		for i, p := range fn.Params {
			if p == x {
				idx = i
			}
		}
		edges := w.l.callersOf(fn)
		if len(edges) == 0 || idx < 0 {
			return nil, false
		}
		for _, e := range edges {
			cc := e.Site.Common()
			if cc.IsInvoke() || idx >= len(cc.Args) {
				return nil, false
			}
			add([]ssa.Value{cc.Args[idx]})
		}
		return
	}
	return nil, false
}

// roleOfBound: "version" / "sequence" if the bound value is NodeKey.Version()
// / NodeKey.Sequence() (possibly converted), else "".
func sqlBoundRole(v ssa.Value) string {
	for d := 0; d < 6; d++ {
		switch x := v.(type) {
		case *ssa.MakeInterface:
			v = x.X
			continue
		case *ssa.Convert:
			v = x.X
			continue
		case *ssa.ChangeType:
			v = x.X
			continue
		case *ssa.Call:
			f := staticCallee(&x.Call)
			if f != nil && f.Signature.Recv() != nil {
				if n := derefNamed(f.Signature.Recv().Type()); n != nil && n.Obj().Name() == "NodeKey" {
					switch f.Name() {
					case "Version":
						return "version"
					case "Sequence":
						return "sequence"
					}
				}
			}
		}
		return ""
	}
	return ""
}

// scanRole: the scanned variable (address dst) flows into NewNodeKey's
// version (arg 0) / sequence (arg 1) argument.
func (w *sqlWorld) scanRole(dst ssa.Value, newNodeKey *ssa.Function) string {
	dst = stripTrivial(dst)
	if mi, ok := dst.(*ssa.MakeInterface); ok {
		dst = mi.X
	}
	cell := cellOf(dst)
	role := ""
	for _, fn := range w.fns {
		if fn != cell.Parent() && fn.Parent() != cell.Parent() {
			continue
		}
		allInstrs(fn, func(in ssa.Instruction) {
			ld, ok := in.(*ssa.UnOp)
			if !ok || ld.Op != token.MUL || cellOf(ld.X) != cell {
				return
			}
			// follow conversions to a NewNodeKey argument
			var walk func(v ssa.Value, d int)
			walk = func(v ssa.Value, d int) {
				if d > 4 {
					return
				}
				for _, r := range refs(v) {
					switch y := r.(type) {
					case *ssa.Convert:
						walk(y, d+1)
					case *ssa.ChangeType:
						walk(y, d+1)
					case *ssa.Call:
						if staticCallee(&y.Call) == newNodeKey {
							for i, a := range y.Call.Args {
								if a == v {
									role = []string{"version", "sequence"}[i]
								}
							}
						}
					}
				}
			}
			walk(ld, 0)
		})
	}
	return role
}

// ---------------------------------------------------------------------------
// the rules

func checkSQLRules(c *Ctx, l *Loaded, ruleSchema, ruleArity, ruleRoles string) {
	w := newSQLWorld(l)
	// 1. schema from CREATE TABLE
	for _, s := range w.sites {
		for _, sts := range s.stmts {
			for _, st := range sts {
				if st.kind != "create-table" {
					continue
				}
				if old, has := w.schema[st.table]; has {
					same := strings.Join(old, ",") == strings.Join(st.cols, ",")
					c.decide(ruleSchema, "two CREATE TABLE "+st.table+" agree ("+l.fname(s.fn)+")", l.ipos(s.in), same,
						"columns "+strings.Join(st.cols, ","), "columns "+strings.Join(st.cols, ",")+" here, "+strings.Join(old, ",")+" at "+w.schemaAt[st.table])
					continue
				}
				w.schema[st.table] = st.cols
				w.schemaAt[st.table] = l.ipos(s.in)
			}
		}
	}
	builtin := map[string]bool{"sqlite_master": true, "dbstat": true, "<subquery>": true}
	colOK := func(table, col string) (bool, string) {
		if builtin[table] || col == "rowid" {
			return true, ""
		}
		cols, has := w.schema[table]
		if !has {
			return false, "no CREATE TABLE for `" + table + "` in the module"
		}
		if !contains(cols, col) {
			return false, "table `" + table + "` (" + strings.Join(cols, ",") + ") has no column `" + col + "`"
		}
		return true, ""
	}
	// 2. per site: text resolved, parses, schema, arity at the call
	for _, s := range w.sites {
		fnN := l.fname(s.fn)
		if s.texts == nil {
			c.undecided(ruleSchema, "statement text of "+l.calleeName(s.in)+" in "+fnN+" is a compile-time text", l.ipos(s.in), "the SQL text is not a constant or a Sprintf of a constant format")
			continue
		}
		for _, sts := range s.stmts {
			for _, st := range sts {
				if st.kind == "other" {
					continue
				}
				key := st.head() + " in " + fnN
				ok, why := true, ""
				if len(st.errs) > 0 {
					ok, why = false, strings.Join(st.errs, "; ")
				}
				for _, r := range st.refs {
					if o, y := colOK(r[0], r[1]); !o && ok {
						ok, why = false, y
					}
				}
				if st.kind == "select" {
					for _, o := range st.out {
						if strings.HasPrefix(o, "*") && !builtin[o[1:]] {
							if _, has := w.schema[o[1:]]; !has && ok {
								ok, why = false, "SELECT * from unknown table "+o[1:]
							}
						}
					}
				}
				if (st.kind == "insert" || st.kind == "delete" || st.kind == "update" || st.kind == "create-index") && !builtin[st.table] {
					if _, has := w.schema[st.table]; !has && ok {
						ok, why = false, "no CREATE TABLE for `"+st.table+"` in the module"
					}
				}
				if st.kind == "insert" && len(st.cols) == 1 && strings.HasPrefix(st.cols[0], "<") && ok {
					if cols := w.schema[st.table]; fmt.Sprintf("<%d positional>", len(cols)) != st.cols[0] {
						ok, why = false, "positional INSERT supplies "+st.cols[0]+" values for "+fmt.Sprint(len(cols))+" columns"
					}
				}
				c.decide(ruleSchema, key, l.ipos(s.in), ok, "tables and columns exist; lists agree", why+" — `"+st.raw+"`")
			}
		}
		// arity at the call itself (Conn.Exec(sql, args...) / Conn.Prepare(sql, args...))
		if len(s.stmts) > 0 {
			nArgs, known := len(s.args), s.argsK || len(callCommon(s.in).Args) <= 2
			for _, sts := range s.stmts {
				np := 0
				var ctx []string
				for _, st := range sts {
					np += len(st.params)
					ctx = append(ctx, st.params...)
				}
				if np == 0 && nArgs == 0 {
					continue
				}
				if s.prep && nArgs == 0 {
					continue // bound later
				}
				head := sts[0].head()
				if !known {
					c.undecided(ruleArity, "values bound at "+l.calleeName(s.in)+" of `"+head+"` in "+fnN, l.ipos(s.in), "variadic arguments are not built at the call site")
					continue
				}
				c.decide(ruleArity, "values bound at "+l.calleeName(s.in)+" of `"+head+"` in "+fnN, l.ipos(s.in), np == nArgs,
					fmt.Sprintf("%d placeholders, %d values", np, nArgs), fmt.Sprintf("%d placeholders but %d values bound", np, nArgs))
				if np == nArgs {
					w.checkRoles(c, ruleRoles, s.in, fnN, head, ctx, s.args)
				}
			}
		}
	}
	// 3. prepared statements: Exec / Bind / Scan on a Stmt
	newNodeKey := l.Func("", "NewNodeKey")
	for _, fn := range w.fns {
		fnN := l.fname(fn)
		allInstrs(fn, func(in ssa.Instruction) {
			cc := callCommon(in)
			if cc == nil {
				return
			}
			var which string
			switch {
			case sqlMethod(cc, "Stmt", "Exec"):
				which = "Exec"
			case sqlMethod(cc, "Stmt", "Bind"):
				which = "Bind"
			case sqlMethod(cc, "Stmt", "Scan"):
				which = "Scan"
			default:
				return
			}
			what := "Stmt." + which + " on " + accessPathOr(cc.Args[0]) + " in " + fnN
			sites, ok := w.prepareSitesOf(cc.Args[0], map[ssa.Value]bool{})
			if !ok || len(sites) == 0 {
				c.undecided(ruleArity, what, l.ipos(in), "the prepared statement does not resolve to Prepare calls")
				return
			}
			vals, known := variadicValues(cc.Args[1])
			if !known {
				c.undecided(ruleArity, what, l.ipos(in), "variadic arguments are not built at the call site")
				return
			}
			good, why := true, ""
			var heads []string
			for _, s := range sites {
				if s.texts == nil {
					good, why = false, "statement text unresolved at "+l.ipos(s.in)
					continue
				}
				for _, sts := range s.stmts {
					if len(sts) != 1 {
						good, why = false, "prepared text holds more than one statement"
						continue
					}
					st := sts[0]
					heads = append(heads, st.head())
					if which == "Scan" {
						n := len(st.out)
						for _, o := range st.out {
							if strings.HasPrefix(o, "*") {
								n += len(w.schema[o[1:]]) - 1
							}
						}
						if st.kind != "select" {
							good, why = false, "Scan on a `"+st.head()+"` statement"
						} else if n != len(vals) {
							good, why = false, fmt.Sprintf("`%s` yields %d columns but %d destinations are scanned", st.head(), n, len(vals))
						} else if newNodeKey != nil {
							for i, d := range vals {
								role := w.scanRole(d, newNodeKey)
								if role != "" && i < len(st.out) {
									o := strings.HasSuffix(st.out[i], role)
									c.decide(ruleRoles, "scanned column feeding NewNodeKey's "+role+" in "+fnN+" (`"+st.head()+"`)", l.ipos(in), o,
										"column `"+st.out[i]+"`", "the value used as NodeKey "+role+" is scanned from column `"+st.out[i]+"`")
								}
							}
						}
						continue
					}
					// values bound by Stmt.Exec / Stmt.Bind; values already bound at Prepare are not re-bound
					if len(vals) == 0 && len(s.args) == len(st.params) {
						continue
					}
					if len(st.params) != len(vals) {
						good, why = false, fmt.Sprintf("`%s` has %d placeholders but %d values are bound", st.head(), len(st.params), len(vals))
					} else {
						w.checkRoles(c, ruleRoles, in, fnN, st.head(), st.params, vals)
					}
				}
			}
			sort.Strings(heads)
			c.decide(ruleArity, what, l.ipos(in), good, "agrees with "+strings.Join(dedupe(heads), " | "), why)
		})
	}
}

func accessPathOr(v ssa.Value) string {
	if p := accessPath(v); p != "" {
		return p
	}
	v = stripTrivial(v)
	if ld, ok := v.(*ssa.UnOp); ok {
		c := cellOf(ld.X)
		if a, ok := c.(*ssa.Alloc); ok && a.Comment != "" {
			return a.Comment
		}
		if n := c.Name(); n != "" {
			return n
		}
	}
	return "stmt"
}

func (w *sqlWorld) checkRoles(c *Ctx, rule string, in ssa.Instruction, fnN, head string, ctx []string, vals []ssa.Value) {
	for i, v := range vals {
		role := sqlBoundRole(v)
		if role == "" || i >= len(ctx) {
			continue
		}
		ok := strings.HasSuffix(ctx[i], role)
		c.decide(rule, fmt.Sprintf("NodeKey.%s() bound in %s (`%s`)", titleCase(role), fnN, head), w.l.ipos(in), ok,
			"bound to column `"+ctx[i]+"`", "NodeKey "+role+" is bound to the placeholder of column `"+ctx[i]+"`")
	}
}

func titleCase(s string) string {
	if s == "" {
		return s
	}
	return strings.ToUpper(s[:1]) + s[1:]
}

// fieldOfLoad: v is a load of a struct field; returns the field.
func fieldOfLoad(v ssa.Value) *types.Var {
	v = stripTrivial(v)
	if ld, ok := v.(*ssa.UnOp); ok && ld.Op == token.MUL {
		if fa, ok := ld.X.(*ssa.FieldAddr); ok {
			return fieldVar(fa.X.Type(), fa.Field)
		}
	}
	if f, ok := v.(*ssa.Field); ok {
		return fieldVar(f.X.Type(), f.Field)
	}
	return nil
}

var reTableListOrder = regexp.MustCompile(`(?i)order\s+by\s+(tbl_name|name)\b\s*(asc|desc)?\s*(,|limit|$)`)

// checkSQLTableListOrder: the families of tables whose names embed a decimal
// version (tree_<checkpoint>, snapshot_<version>) are listed from
// sqlite_master; their names do not sort like their versions (snapshot_10 <
// snapshot_9 as text).  A listing that is consumed in version order — the
// shard list must be added in ascending order, the snapshot search takes the
// first entry not above the target — must not be ordered by the bare name.
func checkSQLTableListOrder(c *Ctx, l *Loaded, rule string) {
	c.rule(rule, "listings of version-numbered tables are not ordered by the text of their names", 3)
	w := newSQLWorld(l)
	n := 0
	for _, s := range w.sites {
		for _, t := range s.texts {
			lt := strings.ToLower(t)
			if !strings.Contains(lt, "sqlite_master") || !strings.Contains(lt, "like '") {
				continue
			}
			n++
			bad := reTableListOrder.MatchString(strings.TrimSpace(t))
			c.decide(rule, l.fname(s.fn)+" lists a family of version-numbered tables: "+strings.TrimSpace(t), l.ipos(s.in), !bad,
				"not ordered by the bare table name",
				"the listing of tables whose names embed a decimal version is ordered by the name as text: `_10` sorts before `_9`, so the consumer — which needs version order — adds shards out of order (reload fails with `unordered insert`) or picks an older snapshot than the one requested")
		}
	}
	if n < 3 {
		c.anchorMissing(rule, "fewer than 3 table-family listings found")
	}
}
