package main

import (
	"go/token"
	"go/types"
	"strings"

	"golang.org/x/tools/go/ssa"
)

func init() {
	register(&propCheck{id: "C19", needV2: true, needRoot: true, run: checkC19,
		explanation: "Decided statically on module v2: (1) FORMAT — v2's hash pre-image (Node.writeHashBytes and its length-prefix primitive) emits the same token kinds in the same order with the same operand roles as the pinned IAVL+ layout and as v1's writer, which are compared with each other; (2) TYPESTATE use-after-put — after a node is handed back to the pool (NodePool.Put / Tree.returnNode) no path of the function reads or writes through it, returns it or stores it (the pool zeroes the node and may hand it out again); (3) TYPESTATE stale-hash — every structural write to a node (key, value, size, height, child links; directly or through setLeft/setRight/calcHeightAndSize) happens on a node fresh from the pool, or after mutateNode(node) in the same function, or behind the `hash != nil ⇒ error` guard — otherwise a memoised hash survives a mutation; (4) DOM — a nil value is rejected before any effect. Added in the build round: v2 node codec layouts (FORMAT-v2-codec); v2 balance / rotate / insert tables; the root is never recycled by leaf eviction (TYPESTATE-root-not-evicted); FindMemoized (shard lookup for lazily loaded nodes) is a pure memoisation of Find (SIB-memoize). NOT decided: equality of hashes, contents and iteration with v1 and the model over histories and option combinations; SQLite behaviour. Rules added in the later seeding rounds (each listed with what it decides in this file's rule table) are described in DESIGN.md §3 \"Third and fourth seeding rounds\" and Appendix C3–C5."})
}

func checkC19(c *Ctx) {
	l1, l := c.L, c.V2
	c.rule("FORMAT-v2-preimage", "v2 hash pre-image = v1 pre-image = pinned layout", 3)
	c.rule("TYPESTATE-use-after-put", "no use of a node after it was returned to the pool", 5)
	c.rule("TYPESTATE-stale-hash", "structural writes only to fresh or mutateNode'd nodes", 20)
	c.rule("DOM-nil-value", "nil value rejected before any effect (v2)", 3)
	if l == nil {
		c.fatal = append(c.fatal, "v2 module not loaded")
		return
	}
	checkV2NodeHolders(c, l, "OWN-node-holders")
	checkV2ShardResolution(c, l, "FLOW-shard-resolution")
	// ---- (1)
	want := []string{
		"V(subtreeHeight) V(size) V(Version(nodeKey)) ?leaf B(key) B(sha256.Sum256(value))",
		"V(subtreeHeight) V(size) V(Version(nodeKey)) ?inner B(leftNode.hash) B(rightNode.hash)",
	}
	whb2 := l.Func("", "*Node.writeHashBytes")
	checkFormat(c, l, "FORMAT-v2-preimage", "v2 Node.writeHashBytes", whb2, false, want)
	checkFormatX(c, l, "FORMAT-v2-preimage", "v2 EncodeBytes", l.Func("", "EncodeBytes"), false, true, []string{"U(len(arg1)) W(local) W(arg1)"})
	// kinds agree with v1 (H = length-prefixed 32 bytes = B on the wire)
	if whb1 := l1.Func("", "*Node.writeHashBytes"); whb1 != nil && whb2 != nil {
		k := func(ld *Loaded, fn *ssa.Function) []string {
			fx := &fmtExtractor{l: ld, condToken: leafCondToken(ld)}
			seqs, _ := fx.sequences(fn)
			var out []string
			for _, s := range seqs {
				var ks []string
				for _, t := range strings.Fields(s) {
					kind := t
					if i := strings.Index(t, "("); i >= 0 {
						kind = t[:i]
					}
					if kind == "H" {
						kind = "B"
					}
					ks = append(ks, kind)
				}
				out = append(out, strings.Join(ks, " "))
			}
			return out
		}
		a, b := k(l1, whb1), k(l, whb2)
		m, e := diffSets(a, b)
		c.decide("FORMAT-v2-preimage", "v1 and v2 pre-image token kinds agree", l.pos(whb2.Pos()), len(m) == 0 && len(e) == 0, "same kinds in the same order: "+strings.Join(b, " || "), "v1 emits "+strings.Join(a, " || ")+" but v2 emits "+strings.Join(b, " || "))
	} else {
		c.anchorMissing("FORMAT-v2-preimage", "v1/v2 writeHashBytes")
	}

	// ---- (1a) v2 node codec (what is re-read after eviction must be what was written)
	c.rule("FORMAT-v2-codec", "v2 node encoder / decoder layouts", 2)
	checkFormat(c, l, "FORMAT-v2-codec", "v2 Node.WriteBytes", l.Func("", "*Node.WriteBytes"), false, []string{
		"V(subtreeHeight) V(size) B(key) B(hash) ?leaf B(value)",
		"V(subtreeHeight) V(size) B(key) B(hash) ?inner B(leftNodeKey) B(rightNodeKey)",
	})
	checkFormat(c, l, "FORMAT-v2-codec", "v2 MakeNode", l.Func("", "MakeNode"), true, []string{
		"V(→Node.subtreeHeight) V(→Node.size) B(→Node.key) B(→Node.hash) ?leaf B(→Node.value)",
		"V(→Node.subtreeHeight) V(→Node.size) B(→Node.key) B(→Node.hash) ?inner B(→unstored) B(→unstored)",
	})

	// ---- (1b) same rebalancing decision as v1 (both are compared with the AVL rule)
	c.rule("TABLE-balance", "v2 rebalancing decision over balance factor × child balance factor", 15)
	checkBalanceTable(c, l, "TABLE-balance", "v2", l.Func("", "*Tree.balance"))

	checkV2TreeRules(c, l)
	checkV2RemoveLookup(c, l)
	checkV2IterTable(c, l)
	checkEvictGuards(c, l)
	c.rule("SIB-memoize", "FindMemoized (shard lookup for lazily loaded nodes) agrees with Find", 2)
	checkV2Memoize(c, l, "SIB-memoize")

	// ---- (2)
	put := l.Func("", "*NodePool.Put")
	ret := l.Func("", "*Tree.returnNode")
	if put == nil || ret == nil {
		c.anchorMissing("TYPESTATE-use-after-put", "NodePool.Put / Tree.returnNode")
	} else {
		n := 0
		for _, fn := range l.SrcFuncs {
			if fn == ret {
				continue
			}
			for _, in := range callsIn(fn, predStatic(put, ret)) {
				cc := callCommon(in)
				x := stripTrivial(cc.Args[1])
				n++
				key := l.fname(fn) + " after " + l.calleeName(in) + "(" + roleOf(l, x, "", 0) + ")"
				var bad ssa.Instruction
				what := ""
				xdef, _ := x.(ssa.Instruction)
				searchFrom([]point{after(in)}, func(u ssa.Instruction) bool {
					if bad != nil {
						return true
					}
					if xdef != nil && u == xdef {
						return true // the variable is re-defined (next loop iteration): a different node
					}
					switch t := u.(type) {
					case *ssa.FieldAddr:
						if sameValue(t.X, x) {
							bad, what = u, "field "+fieldName(t.X.Type(), t.Field)+" is accessed"
						}
					case *ssa.Return:
						for i := range t.Results {
							if sameValue(retVal(t, i), x) {
								bad, what = u, "the node is returned"
							}
						}
						return true
					case *ssa.Store:
						if sameValue(t.Val, x) {
							bad, what = u, "the node is stored"
						}
					case *ssa.Call:
						for _, a := range t.Call.Args {
							if sameValue(a, x) {
								bad, what = u, "the node is passed to "+l.calleeName(u)
							}
						}
					}
					return false
				})
				msg := ""
				if bad != nil {
					msg = "after the node went back to the pool (which zeroes it and may hand it out again), " + what + " at " + l.ipos(bad)
				}
				c.decide("TYPESTATE-use-after-put", key, l.ipos(in), bad == nil, "no access, return, store or call argument after the hand-back", msg)
			}
		}
		if n < 5 {
			c.anchorMissing("TYPESTATE-use-after-put", "fewer than 5 pool hand-back sites")
		}
	}

	// ---- (2b) the root is never handed back to the pool while it is the root
	c.rule("TYPESTATE-root-not-evicted", "leaf eviction after persisting never recycles the tree's root", 2)
	if sl := l.Func("", "*sqliteBatch.saveLeaves"); sl == nil || ret == nil {
		c.anchorMissing("TYPESTATE-root-not-evicted", "sqliteBatch.saveLeaves / returnNode")
	} else {
		fRootV2 := l.Field("", "Tree", "root")
		n := 0
		for _, in := range callsIn(sl, predStatic(ret)) {
			n++
			ok := false
			// dominated by `i != 0` (not the first leaf) or by `leaf.nodeKey != tree.root.nodeKey`
			for _, b := range sl.Blocks {
				iff := ifOf(b)
				if iff == nil {
					continue
				}
				bo, isB := stripTrivial(iff.Cond).(*ssa.BinOp)
				if !isB || (bo.Op != token.NEQ && bo.Op != token.EQL) {
					continue
				}
				pass := 0
				if bo.Op == token.EQL {
					pass = 1
				}
				if !edgeDominates(b, pass, in.Block()) {
					continue
				}
				if z, isC := constInt(bo.Y); isC && z == 0 {
					ok = true // loop index != 0
				}
				rx, ry := roleOf(l, bo.X, "", 0), roleOf(l, bo.Y, "", 0)
				if fRootV2 != nil && (strings.Contains(rx, "root.nodeKey") || strings.Contains(ry, "root.nodeKey")) {
					ok = true
				}
			}
			c.decide("TYPESTATE-root-not-evicted", "saveLeaves recycles a leaf only if it is not the root", l.ipos(in), ok, "behind `i != 0` or `leaf.nodeKey != root.nodeKey`", "a persisted leaf is returned to the pool without excluding the root: a single-leaf tree keeps pointing at a zeroed node")
		}
		if n == 0 {
			c.anchorMissing("TYPESTATE-root-not-evicted", "no leaf recycling in saveLeaves")
		}
	}

	// ---- (3)
	nodeT := l.NamedType("", "Node")
	mutate := l.Func("", "*Tree.mutateNode")
	poolGet := l.Func("", "*NodePool.Get")
	newLeaf := l.Func("", "*Tree.NewLeafNode")
	if nodeT == nil || mutate == nil || poolGet == nil || newLeaf == nil {
		c.anchorMissing("TYPESTATE-stale-hash", "v2 Node / mutateNode / NodePool.Get / NewLeafNode")
	} else {
		structural := map[string]bool{"key": true, "value": true, "size": true, "subtreeHeight": true, "leftNode": true, "rightNode": true, "leftNodeKey": true, "rightNodeKey": true}
		helpers := map[string]bool{"setLeft": true, "setRight": true, "calcHeightAndSize": true}
		fHash := l.Field("", "Node", "hash")
		exempt := map[string]string{
			"(*iavl.NodePool).Put":            "reset of a node that leaves the tree",
			"(*iavl.Node).setLeft":            "summarised at its call sites",
			"(*iavl.Node).setRight":           "summarised at its call sites",
			"(*iavl.Node).calcHeightAndSize":  "summarised at its call sites",
			"(*iavl.Node).getLeftNode":        "lazy load of the child pointer: does not change the pre-image",
			"(*iavl.Node).getRightNode":       "lazy load of the child pointer: does not change the pre-image",
			"(*iavl.Node).left":               "lazy load of the child pointer",
			"(*iavl.Node).right":              "lazy load of the child pointer",
			"(*iavl.Node).evictChildren":      "eviction after hashing: drops in-memory child pointers only",
			"(*iavl.Tree).deepHash":           "eviction after hashing: drops in-memory child pointers only",
			"(*iavl.SqliteDb).getLeftNode":    "lazy load of the child pointer from storage: does not change the pre-image",
			"(*iavl.SqliteDb).getRightNode":   "lazy load of the child pointer from storage: does not change the pre-image",
			"(*iavl.sqliteBatch).saveLeaves":  "drops the in-memory value of a leaf that has been hashed and is being persisted (storeLatestLeaves)",
		}
		makeNode := l.Func("", "MakeNode")
		isFresh := func(v ssa.Value) bool {
			v = stripTrivial(v)
			if call, ok := v.(*ssa.Call); ok {
				return predStatic(poolGet, newLeaf)(&call.Call)
			}
			if _, ok := v.(*ssa.Alloc); ok {
				return true
			}
			if e, ok := v.(*ssa.Extract); ok && e.Index == 0 {
				if call, ok := e.Tuple.(*ssa.Call); ok && makeNode != nil && predStatic(makeNode)(&call.Call) {
					return true // decoded into a node taken from the pool
				}
			}
			return false
		}
		n := 0
		for _, fn := range l.SrcFuncs {
			if l.pkgPathOf(fn) != l.ModPath {
				continue
			}
			name := l.fname(fn)
			type ev struct {
				in   ssa.Instruction
				x    ssa.Value
				what string
			}
			var evs []ev
			allInstrs(fn, func(in ssa.Instruction) {
				switch t := in.(type) {
				case *ssa.Store:
					fa, ok := t.Addr.(*ssa.FieldAddr)
					if !ok {
						return
					}
					nn := derefNamed(fa.X.Type())
					if nn == nil || nn.Obj() != nodeT.Obj() || !structural[fieldName(fa.X.Type(), fa.Field)] {
						return
					}
					evs = append(evs, ev{in, stripTrivial(fa.X), "store " + fieldName(fa.X.Type(), fa.Field)})
				case *ssa.Call:
					g := staticCallee(&t.Call)
					if g != nil && helpers[g.Name()] && g.Signature.Recv() != nil && derefNamed(g.Signature.Recv().Type()) != nil && derefNamed(g.Signature.Recv().Type()).Obj() == nodeT.Obj() {
						evs = append(evs, ev{in, stripTrivial(t.Call.Args[0]), g.Name()})
					}
				}
			})
			for _, e := range evs {
				n++
				key := name + " " + e.what + " on " + roleOf(l, e.x, "", 0)
				if why, ok := exempt[name]; ok {
					c.ok("TYPESTATE-stale-hash", key, l.ipos(e.in), "exempt: "+why)
					continue
				}
				if isFresh(e.x) {
					c.ok("TYPESTATE-stale-hash", key, l.ipos(e.in), "node fresh from the pool")
					continue
				}
				// dominated by mutateNode(x)
				ok := false
				for _, m := range callsIn(fn, predStatic(mutate)) {
					if sameValue(callCommon(m).Args[1], e.x) && instrDominates(m, e.in) {
						ok = true
					}
				}
				// hash != nil ⇒ error guard
				if !ok && fHash != nil {
					ok = hashIsNilGuard(e.x, e.in, fHash)
				}
				c.decide("TYPESTATE-stale-hash", key, l.ipos(e.in), ok, "after mutateNode(node) / behind the hash == nil guard", "a structural write to a possibly-hashed node is not preceded by mutateNode: the memoised hash (and node key) survive the mutation")
			}
		}
		if n < 20 {
			c.anchorMissing("TYPESTATE-stale-hash", "fewer than 20 structural write events")
		}
	}

	// ---- (4)
	set := l.Func("", "*Tree.set")
	if set == nil {
		c.anchorMissing("DOM-nil-value", "v2 Tree.set")
		return
	}
	gs := findGuards(set, nilTestMatcher(isParam(set, "value"), true))
	if len(gs) == 0 {
		c.bad("DOM-nil-value", "v2 Tree.set nil-value test", l.pos(set.Pos()), "no nil test of the value")
	}
	fRoot := l.Field("", "Tree", "root")
	isEff := func(in ssa.Instruction) bool {
		if isStoreToField(in, fRoot) {
			return true
		}
		cc := callCommon(in)
		if cc == nil {
			return false
		}
		g := staticCallee(cc)
		return g != nil && l.inModule(g)
	}
	for _, g := range gs {
		ok, why := failEdgeLeavesWithError(set, g, isEff)
		c.decide("DOM-nil-value", "v2 Tree.set nil-value exit", l.ipos(g.iff), ok, "nil ⇒ error, no effect", why)
	}
	allInstrs(set, func(in ssa.Instruction) {
		if isEff(in) {
			c.decide("DOM-nil-value", "v2 Tree.set effect "+describe(l, in), l.ipos(in), guardsEffect(gs, in), "behind the nil-value test", "effect reachable without the nil-value test")
		}
	})
}

// hashIsNilGuard: instruction is dominated by the `x.hash == nil` edge of a test.
func hashIsNilGuard(x ssa.Value, at ssa.Instruction, fHash *types.Var) bool {
	fn := at.Parent()
	for _, b := range fn.Blocks {
		iff := ifOf(b)
		if iff == nil {
			continue
		}
		v, nn, ok := nilCond(iff.Cond)
		if !ok {
			continue
		}
		ld, isLd := stripTrivial(v).(*ssa.UnOp)
		if !isLd {
			continue
		}
		fa, isFA := ld.X.(*ssa.FieldAddr)
		if !isFA || fieldVar(fa.X.Type(), fa.Field) != fHash || !sameValue(fa.X, x) {
			continue
		}
		if edgeDominates(b, 1-nn, at.Block()) {
			return true
		}
	}
	return false
}

// checkEvictGuards: a leaf written in this version is handed back to the node
// pool by saveLeaves whenever the height filter is on; deepHash must have
// detached that leaf from its parent under the SAME condition.  The two
// effects are compared by the set of Tree options their controlling
// conditions read: if the detach is additionally narrowed (eviction depth,
// recursion depth), some parents keep pointing at nodes the pool has reset and
// will hand out again.
func checkEvictGuards(c *Ctx, l *Loaded) {
	const R = "SIB-evict-guards"
	c.rule(R, "leaf detach in deepHash and leaf recycling in saveLeaves are controlled by the same tree options", 1)
	dh := l.Func("", "*Tree.deepHash")
	sl := l.Func("", "*sqliteBatch.saveLeaves")
	ret := l.Func("", "*Tree.returnNode")
	treeT := l.NamedType("", "Tree")
	fLeft, fRight := l.Field("", "Node", "leftNode"), l.Field("", "Node", "rightNode")
	if dh == nil || sl == nil || ret == nil || treeT == nil || fLeft == nil || fRight == nil {
		c.anchorMissing(R, "deepHash / saveLeaves / returnNode / Tree")
		return
	}
	optsOf := func(fn *ssa.Function, at ssa.Instruction) map[string]bool {
		out := map[string]bool{}
		var collect func(v ssa.Value, d int)
		collect = func(v ssa.Value, d int) {
			if d > 6 || v == nil {
				return
			}
			switch x := stripTrivial(v).(type) {
			case *ssa.UnOp:
				if fa, ok := x.X.(*ssa.FieldAddr); ok && x.Op == token.MUL {
					if n := derefNamed(fa.X.Type()); n != nil && n.Obj() == treeT.Obj() {
						if b, isB := x.Type().Underlying().(*types.Basic); isB && b.Info()&(types.IsInteger|types.IsBoolean) != 0 {
							out[fieldName(fa.X.Type(), fa.Field)] = true
						}
					}
					return
				}
				collect(x.X, d+1)
			case *ssa.BinOp:
				collect(x.X, d+1)
				collect(x.Y, d+1)
			case *ssa.Convert:
				collect(x.X, d+1)
			case *ssa.Parameter:
				if b, isB := x.Type().Underlying().(*types.Basic); isB && b.Info()&types.IsInteger != 0 {
					out["param:"+x.Name()] = true
				}
			}
		}
		for _, b := range fn.Blocks {
			iff := ifOf(b)
			if iff == nil {
				continue
			}
			for si := range b.Succs {
				if edgeDominates(b, si, at.Block()) {
					collect(iff.Cond, 0)
				}
			}
		}
		return out
	}
	join := func(m map[string]bool) string { return strings.Join(sortedKeys(m), ",") }
	var detach, recycle map[string]bool
	allInstrs(dh, func(in ssa.Instruction) {
		if st, ok := in.(*ssa.Store); ok && isStoreToField(st, fLeft, fRight) && isNilConst(stripTrivial(st.Val)) {
			o := optsOf(dh, st)
			if detach == nil || len(o) > len(detach) {
				detach = o
			}
		}
	})
	for _, in := range callsIn(sl, predStatic(ret)) {
		o := optsOf(sl, in)
		if recycle == nil || len(o) < len(recycle) {
			recycle = o
		}
	}
	if detach == nil || recycle == nil {
		c.anchorMissing(R, "leaf detach stores in deepHash / returnNode calls in saveLeaves")
		return
	}
	c.decide(R, "deepHash detaches a written leaf whenever saveLeaves recycles it", l.pos(dh.Pos()), join(detach) == join(recycle),
		"both controlled by {"+join(recycle)+"}", "deepHash detaches leaves under {"+join(detach)+"} but saveLeaves recycles them under {"+join(recycle)+"}: where the detach does not happen the parent keeps a pointer to a node the pool resets and hands out again")
}

// checkV2NodeHolders (C19): v2 recycles nodes through a pool and detaches
// (evicts) them at checkpoints; the structures that may hold a node across
// operations are the ones those mechanisms know about — the root and the two
// pending-write lists.  Any other field of Tree that holds a *Node (a "last
// leaf" memo, a cursor) keeps serving a node after it was detached or recycled.
func checkV2NodeHolders(c *Ctx, l *Loaded, rule string) {
	c.rule(rule, "no field of the v2 Tree retains nodes besides root / leaves / branches", 3)
	T := l.NamedType("", "Tree")
	N := l.NamedType("", "Node")
	if T == nil || N == nil {
		c.anchorMissing(rule, "v2 Tree / Node")
		return
	}
	st, ok := T.Underlying().(*types.Struct)
	if !ok {
		c.anchorMissing(rule, "v2 Tree is not a struct")
		return
	}
	allowed := map[string]bool{"root": true, "leaves": true, "branches": true}
	var holdsNode func(t types.Type, d int) bool
	holdsNode = func(t types.Type, d int) bool {
		if d > 4 {
			return false
		}
		switch x := t.(type) {
		case *types.Pointer:
			if n, ok := x.Elem().(*types.Named); ok && n.Obj() == N.Obj() {
				return true
			}
			return false // pointers to other structs (pool, sql) own their nodes under their own rules
		case *types.Slice:
			return holdsNode(x.Elem(), d+1)
		case *types.Array:
			return holdsNode(x.Elem(), d+1)
		case *types.Map:
			return holdsNode(x.Elem(), d+1) || holdsNode(x.Key(), d+1)
		case *types.Named:
			if x.Obj() == N.Obj() {
				return true
			}
		}
		return false
	}
	n := 0
	for i := 0; i < st.NumFields(); i++ {
		f := st.Field(i)
		if !holdsNode(f.Type(), 0) {
			continue
		}
		n++
		c.decide(rule, "Tree."+f.Name()+" holds nodes", l.pos(f.Pos()), allowed[f.Name()], "known to eviction and to the pool hand-back",
			"the v2 Tree has a field that retains a node across operations and that eviction (checkpoint: children detached) and the pool hand-back do not know about: a lookup answered from it returns the value of a node that was detached or recycled while the tree has moved on")
	}
	if n < 3 {
		c.anchorMissing(rule, "fewer than 3 node-holding fields in v2 Tree")
	}
}

// checkV2ShardResolution (C19, C20): with sharded trees the table a node lives
// in is the shard found for the node's version by the VersionRange search;
// getShard returns nothing else on that edge (no positional shortcut: a node
// written exactly at a checkpoint version belongs to that checkpoint's shard).
func checkV2ShardResolution(c *Ctx, l *Loaded, rule string) {
	c.rule(rule, "with sharded trees getShard answers only through the version-range search", 1)
	gs := l.Func("", "*SqliteDb.getShard")
	if gs == nil || len(gs.Params) < 2 {
		c.anchorMissing(rule, "v2 SqliteDb.getShard")
		return
	}
	ver := gs.Params[1]
	// the unsharded edge: guarded by opts.ShardTrees
	var unsharded []guard
	for _, b := range gs.Blocks {
		iff := ifOf(b)
		if iff == nil {
			continue
		}
		if strings.Contains(roleOf(l, iff.Cond, "", 0), "ShardTrees") {
			unsharded = append(unsharded, guard{iff, 1}) // `if !ShardTrees {…}`: SSA tests the flag, false edge = unsharded
		}
	}
	ok := true
	var bad ssa.Instruction
	n := 0
	for _, r := range returnsOf(gs) {
		if errNilness(retVal(r, 1), r.Block(), 0) > 0 {
			continue
		}
		if guardsEffect(unsharded, r) {
			continue
		}
		n++
		v := stripTrivial(retVal(r, 0))
		call, isCall := v.(*ssa.Call)
		good := false
		if isCall {
			if f := staticCallee(&call.Call); f != nil && (f.Name() == "FindMemoized" || f.Name() == "Find") {
				for _, a := range call.Call.Args {
					if stripTrivial(a) == ssa.Value(ver) {
						good = true
					}
				}
			}
		}
		if !good {
			ok, bad = false, r
		}
	}
	pos := l.pos(gs.Pos())
	if bad != nil {
		pos = l.ipos(bad)
	}
	c.decide(rule, "getShard (sharded) returns the result of the version-range search for its argument", pos, ok && n > 0, "every sharded success return is Find / FindMemoized(version)",
		"with sharded trees getShard can answer without the version-range search (a positional shortcut): a node written exactly at a checkpoint version is looked up in the wrong shard, the lazy load fails with `node not found` and Get / Set panic")
}
