package main

import "fmt"

func dumpFormats(l *Loaded, v2 *Loaded) {
	show := func(ld *Loaded, rel, name string, decode bool) {
		fn := ld.Func(rel, name)
		if fn == nil {
			fmt.Println("MISSING", name)
			return
		}
		fx := &fmtExtractor{l: ld, decode: decode, rawWrites: true, condToken: leafCondToken(ld)}
		got, tr := fx.sequences(fn)
		fmt.Printf("--- %s (decode=%v trunc=%v)\n", name, decode, tr)
		for _, s := range got {
			fmt.Printf("   %q,\n", s)
		}
	}
	if l != nil {
		show(l, "", "*Node.writeHashBytes", false)
		show(l, "", "ProofInnerNode.Hash", false)
		show(l, "", "ProofLeafNode.Hash", false)
		show(l, "", "*Node.writeBytes", false)
		show(l, "", "MakeNode", true)
		show(l, "", "MakeLegacyNode", true)
		show(l, "", "*NodeKey.GetKey", false)
		show(l, "", "GetNodeKey", false)
		show(l, "", "GetRootKey", false)
		show(l, "fastnode", "*Node.WriteBytes", false)
		show(l, "fastnode", "DeserializeNode", true)
	}
	if l != nil {
		show(l, "internal/encoding", "EncodeBytes", false)
		show(l, "internal/encoding", "Encode32BytesHash", false)
		show(l, "internal/encoding", "EncodeUvarint", false)
		show(l, "internal/encoding", "EncodeVarint", false)
		show(l, "internal/encoding", "fVarintEncode", false)
		show(l, "internal/encoding", "init", false)
	}
	if v2 != nil {
		show(v2, "", "EncodeBytes", false)
		show(v2, "", "*Node.writeHashBytes", false)
	}
}
