package main

import (
	"fmt"
	"strings"

	"golang.org/x/tools/go/ssa"
)

func dumpFormats(l *Loaded, v2 *Loaded) {
	show := func(ld *Loaded, rel, name string, decode bool) {
		fn := ld.Func(rel, name)
		if fn == nil {
			fmt.Println("MISSING", name)
			return
		}
		fx := &fmtExtractor{l: ld, decode: decode, rawWrites: true, condToken: leafCondToken(ld)}
		got, tr := fx.sequences(fn)
		fmt.Printf("--- %s (decode=%v trunc=%v)\n", name, decode, tr)
		for _, s := range got {
			fmt.Printf("   %q,\n", s)
		}
	}
	if l != nil {
		show(l, "", "*Node.writeHashBytes", false)
		show(l, "", "ProofInnerNode.Hash", false)
		show(l, "", "ProofLeafNode.Hash", false)
		show(l, "", "*Node.writeBytes", false)
		show(l, "", "MakeNode", true)
		show(l, "", "MakeLegacyNode", true)
		show(l, "", "*NodeKey.GetKey", false)
		show(l, "", "GetNodeKey", false)
		show(l, "", "GetRootKey", false)
		show(l, "fastnode", "*Node.WriteBytes", false)
		show(l, "fastnode", "DeserializeNode", true)
	}
	if l != nil {
		show(l, "internal/encoding", "EncodeBytes", false)
		show(l, "internal/encoding", "Encode32BytesHash", false)
		show(l, "internal/encoding", "EncodeUvarint", false)
		show(l, "internal/encoding", "EncodeVarint", false)
		show(l, "internal/encoding", "fVarintEncode", false)
		show(l, "internal/encoding", "init", false)
	}
	if v2 != nil {
		show(v2, "", "EncodeBytes", false)
		show(v2, "", "MakeNode", true)
		show(v2, "", "*Node.WriteBytes", false)
		show(v2, "", "*Node.writeHashBytes", false)
	}
}

func dumpTables(l *Loaded) {
	// recursiveSetLeaf
	fn := l.Func("", "*MutableTree.recursiveSetLeaf")
	for _, ord := range []int{-1, 0, 1} {
		env := &tableEnv{l: l, flag: map[string]int{"skipFastStorageUpgrade": 1}, cmp: func(a, b string) (int, bool) {
			if a == "param:key" && b == "param:node.key" {
				return ord, true
			}
			return 0, false
		}}
		run := runTable(fn, env, func(call *ssa.Call) string { return "" })
		if run.ret == nil {
			fmt.Println("setLeaf", ord, "stuck", l.ipos(run.stuck))
			continue
		}
		fmt.Println("setLeaf", ord, literalRoles(l, retVal(run.ret, 0), "tree"), roleOf(l, retVal(run.ret, 1), "tree", 0))
	}
	for _, name := range []string{"*Node.calcHeightAndSize", "*MutableTree.rotateRight", "*MutableTree.rotateLeft"} {
		f := l.Func("", name)
		allInstrs(f, func(in ssa.Instruction) {
			if st, ok := in.(*ssa.Store); ok {
				if fa, ok := st.Addr.(*ssa.FieldAddr); ok {
					fmt.Println(name, "store", roleOf(l, fa, f.Params[0].Name(), 0), "=", roleOf(l, st.Val, f.Params[0].Name(), 0))
				}
			}
		})
		for _, r := range returnsOf(f) {
			fmt.Println(name, "return", roleOf(l, retVal(r, 0), f.Params[0].Name(), 0))
		}
	}
}

func dumpV2Tables(l *Loaded) {
	ev := func(call *ssa.Call) string {
		f := staticCallee(&call.Call)
		if f == nil || !l.inModule(f) {
			return ""
		}
		switch f.Name() {
		case "IncrCounter", "MeasureSince", "sizeBytes", "isLeaf", "Version", "Sequence":
			return ""
		}
		var as []string
		for _, a := range call.Call.Args {
			as = append(as, roleOf(l, a, "", 0))
		}
		return f.Name() + "(" + strings.Join(as, ",") + ")"
	}
	for _, name := range []string{"*Tree.rotateRight", "*Tree.rotateLeft"} {
		fn := l.Func("", name)
		env := &tableEnv{l: l, flag: map[string]int{}, cmp: func(a, b string) (int, bool) { return 0, false }}
		run := runTable(fn, env, ev)
		fmt.Println("V2", name, strings.Join(run.events, " ; "), "=>", func() string {
			if run.ret == nil {
				return "stuck " + l.ipos(run.stuck)
			}
			return roleOf(l, retVal(run.ret, 0), "", 0)
		}())
	}
	rs := l.Func("", "*Tree.recursiveSet")
	for _, ord := range []int{-1, 0, 1} {
		for _, leaf := range []int{1, -1} {
			ord := ord
			env := &tableEnv{l: l, flag: map[string]int{"isLeaf()": leaf, "isReplaying": -1, "storeLeafValues": 1, "dirty": -1, "recursiveSet()#1": -1}, cmp: func(a, b string) (int, bool) {
				if a == "arg1" && strings.HasSuffix(b, ".key") {
					return ord, true
				}
				return 0, false
			}}
			run := runTable(rs, env, ev)
			fmt.Println("V2 recursiveSet", ord, leaf, strings.Join(run.events, " ; "), "=>", func() string {
				if run.ret == nil {
					return "stuck " + l.ipos(run.stuck)
				}
				return roleOf(l, retVal(run.ret, 0), "", 0) + " | " + roleOf(l, retVal(run.ret, 1), "", 0)
			}())
		}
	}
}

func dumpDiffTable(l *Loaded) {
	esc := l.Func("", "*nodeDB.extractStateChanges")
	for i, af := range esc.AnonFuncs {
		if len(af.Params) != 1 {
			continue
		}
		for _, nonEmpty := range []bool{true, false} {
			for _, ord := range []int{-1, 0, 1} {
				ord := ord
				env := &tableEnv{l: l, flag: map[string]int{}, cmp: func(a, b string) (int, bool) {
					if a == "arg0.key" {
						return ord, true
					}
					return 0, false
				}}
				env.ints = func(v ssa.Value, role string) (int64, bool) {
					if strings.HasPrefix(role, "len(") {
						if nonEmpty {
							return 1, true
						}
						return 0, true
					}
					return 0, false
				}
				run := runTableS(af, env, func(call *ssa.Call) string {
					if staticCallee(&call.Call) == nil {
						if _, isB := call.Call.Value.(*ssa.Builtin); isB {
							return ""
						}
						return valueName(call.Call.Value) + "(" + literalRoles(l, call.Call.Args[0], "") + ")"
					}
					return ""
				}, func(st *ssa.Store) string {
					if fv, ok := st.Addr.(*ssa.FreeVar); ok {
						return fv.Name() + ":=" + roleOf(l, st.Val, "", 0)
					}
					return ""
				})
				fmt.Println("DIFF", i, nonEmpty, ord, strings.Join(run.events, " ; "), run.ret != nil)
			}
		}
	}
}
