package main

import (
	"fmt"

	"golang.org/x/tools/go/ssa"
)

func init() {
	register(&propCheck{id: "C11", needRoot: true, run: checkC11,
		explanation: "Decided statically (cost clause only): the descent functions Node.get, has, getByIndex and pathToLeaf are loop-free, make at most ONE recursive descent on any CFG path, and read at most 1, 1, 2 and 2 stored nodes per level respectively; summing callee costs along the longest path of each API function gives at most 2 stored-node reads per level (+ at most 2 constant) for Get / GetWithIndex / GetByIndex / Has and at most 10 per level (+10) for GetProof — the property's 2h+2 and 10h+10 given that the recursion depth is the height (assumed: tree shape). Also PASS: every path of recursiveSet / recursiveRemove that installs a child pointer into the copied node and returns it passes calcHeightAndSize and balance, except the value-replacement exit. Added in the build round: TABLE — balance, rotate, lookup, insert and remove decision tables (size / height recomputation and routing decisions that the rank arithmetic depends on). NOT decided: the AVL bound h <= 1.4405 log2(n+2) (numeric, depends on rotation correctness) and that lookup by rank and by key are inverse. Rules added in the later seeding rounds (each listed with what it decides in this file's rule table) are described in DESIGN.md §3 \"Third and fourth seeding rounds\" and Appendix C3–C5."})
}

type costInfo struct {
	perLevel int
	konst    int
	ok       bool
	why      string
}

func checkC11(c *Ctx) {
	l := c.L
	c.rule("COST-descent", "descent functions: loop-free, one descent per path, bounded reads per level", 12)
	c.rule("COST-api", "API functions: reads per level and constant within the property's bounds", 5)
	c.rule("PASS-rebalance", "structural changes are followed by height/size update and rebalancing", 4)

	getNode := l.Func("", "*nodeDB.GetNode")
	getFast := l.Func("", "*nodeDB.GetFastNode")
	if getNode == nil || getFast == nil {
		c.anchorMissing("COST-descent", "nodeDB.GetNode / GetFastNode")
		return
	}
	readReach := l.newReach(predStatic(getNode, getFast))
	descentBound := map[string]int{"get": 1, "has": 1, "getByIndex": 2, "pathToLeaf": 2}
	descent := map[*ssa.Function]int{} // perLevel
	for name, bound := range descentBound {
		fn := l.Func("", "*Node."+name)
		if fn == nil {
			c.anchorMissing("COST-descent", "Node."+name)
			continue
		}
		cyc := hasCycle(fn)
		c.decide("COST-descent", "Node."+name+" loop-free", l.pos(fn.Pos()), !cyc, "CFG is acyclic", "the descent function contains a loop")
		if cyc {
			continue
		}
		self := longestPath(fn, func(in ssa.Instruction) int {
			if cc := callCommon(in); cc != nil && staticCallee(cc) == fn {
				return 1
			}
			return 0
		})
		c.decide("COST-descent", "Node."+name+" descents per path", l.pos(fn.Pos()), self <= 1, fmt.Sprintf("at most %d recursive descent on any path", self), fmt.Sprintf("%d recursive descents on one path: lookup cost is no longer linear in the height", self))
		reads := longestPath(fn, func(in ssa.Instruction) int {
			cc := callCommon(in)
			if cc == nil || staticCallee(cc) == fn {
				return 0
			}
			if readReach.Instr(in) {
				return 1
			}
			return 0
		})
		descent[fn] = reads
		c.decide("COST-descent", "Node."+name+" stored-node reads per level", l.pos(fn.Pos()), reads <= bound, fmt.Sprintf("%d <= %d", reads, bound), fmt.Sprintf("%d stored-node reads per level, bound is %d", reads, bound))
	}

	// API cost by summation
	memo := map[*ssa.Function]*costInfo{}
	var costOf func(fn *ssa.Function, depth int) *costInfo
	costOf = func(fn *ssa.Function, depth int) *costInfo {
		if ci, ok := memo[fn]; ok {
			if ci == nil {
				return &costInfo{ok: false, why: "recursion through " + l.fname(fn)}
			}
			return ci
		}
		if pl, isD := descent[fn]; isD {
			return &costInfo{perLevel: pl, ok: true}
		}
		if fn == getNode || fn == getFast {
			return &costInfo{konst: 1, ok: true}
		}
		if fn.Blocks == nil || !l.inModule(fn) || !readReach.Fn(fn) {
			return &costInfo{ok: true}
		}
		memo[fn] = nil
		res := &costInfo{ok: true}
		if hasCycle(fn) {
			res.ok, res.why = false, "loop in "+l.fname(fn)
			memo[fn] = res
			return res
		}
		w := func(sel func(ci *costInfo) int) func(in ssa.Instruction) int {
			return func(in ssa.Instruction) int {
				cc := callCommon(in)
				if cc == nil || !readReach.Instr(in) {
					return 0
				}
				g := staticCallee(cc)
				if g == nil {
					res.ok, res.why = false, "dynamic call that may read storage in "+l.fname(fn)
					return 0
				}
				ci := costOf(g, depth+1)
				if !ci.ok {
					res.ok, res.why = false, ci.why
				}
				return sel(ci)
			}
		}
		res.perLevel = longestPath(fn, w(func(ci *costInfo) int { return ci.perLevel }))
		res.konst = longestPath(fn, w(func(ci *costInfo) int { return ci.konst }))
		memo[fn] = res
		return res
	}
	apis := []struct {
		name      string
		perLevel  int
		konst     int
	}{
		{"*ImmutableTree.Get", 2, 2}, {"*ImmutableTree.GetWithIndex", 2, 2}, {"*ImmutableTree.GetByIndex", 2, 2}, {"*ImmutableTree.Has", 2, 2}, {"*ImmutableTree.GetProof", 10, 10},
	}
	for _, a := range apis {
		fn := l.Func("", a.name)
		if fn == nil {
			c.anchorMissing("COST-api", a.name)
			continue
		}
		ci := costOf(fn, 0)
		key := l.fname(fn) + " stored-node reads"
		switch {
		case !ci.ok:
			c.undecided("COST-api", key, l.pos(fn.Pos()), "cost not computable: "+ci.why)
		case ci.perLevel > a.perLevel || ci.konst > a.konst:
			c.bad("COST-api", key, l.pos(fn.Pos()), fmt.Sprintf("%d reads per level + %d constant on the longest path; the property allows %d per level + %d", ci.perLevel, ci.konst, a.perLevel, a.konst))
		default:
			c.ok("COST-api", key, l.pos(fn.Pos()), fmt.Sprintf("%d per level + %d constant (allowed %d·h + %d)", ci.perLevel, ci.konst, a.perLevel, a.konst))
		}
	}

	// lookups read the nodes of THIS history: a re-used node key must not keep serving a cached node of an erased future
	checkCacheRefresh(c)
	// existence / rank answers for the working tree come from the tree, never from the index of the last commit
	checkIndexReaders(c)

	// AVL decision table
	c.rule("TABLE-balance", "rebalancing decision over balance factor × child balance factor", 15)
	checkBalanceTable(c, l, "TABLE-balance", "v1", l.Func("", "*MutableTree.balance"))

	checkTreeRules(c, l, map[string]bool{"lookup": true, "rotate": true, "insert": true, "remove": true})

	// PASS rebalance
	calc := l.Func("", "*Node.calcHeightAndSize")
	bal := l.Func("", "*MutableTree.balance")
	fL, fR := l.Field("", "Node", "leftNode"), l.Field("", "Node", "rightNode")
	for _, name := range []string{"*MutableTree.recursiveSet", "*MutableTree.recursiveRemove"} {
		fn := l.Func("", name)
		if fn == nil || calc == nil || bal == nil || fL == nil {
			c.anchorMissing("PASS-rebalance", name)
			continue
		}
		passCalc := mustState(fn, false, func(in ssa.Instruction) bool { cc := callCommon(in); return cc != nil && predStatic(calc)(cc) }, func(in ssa.Instruction) bool { return isStoreToField(in, fL, fR) })
		passBal := mustState(fn, false, func(in ssa.Instruction) bool { cc := callCommon(in); return cc != nil && predStatic(bal)(cc) }, func(in ssa.Instruction) bool { return isStoreToField(in, fL, fR) })
		stores := append(storesToField(fn, fL), storesToField(fn, fR)...)
		if len(stores) == 0 {
			c.anchorMissing("PASS-rebalance", l.fname(fn)+" stores no child pointer")
			continue
		}
		for _, st := range stores {
			var bad *ssa.Return
			searchFrom([]point{after(st)}, func(in ssa.Instruction) bool {
				r, ok := in.(*ssa.Return)
				if !ok {
					return false
				}
				if errNilness(retVal(r, errResultIndex(fn.Signature)), r.Block(), 0) > 0 {
					return true // error exit
				}
				if passCalc(r) && passBal(r) {
					return true
				}
				// value-replacement exit: dominated by the true edge of `updated`
				for _, b := range fn.Blocks {
					iff := ifOf(b)
					if iff == nil {
						continue
					}
					if _, isBool := stripTrivial(iff.Cond).(*ssa.Phi); isBool || isBoolExtract(iff.Cond) {
						if edgeDominates(b, 0, r.Block()) && sameValue(retVal(r, 1), iff.Cond) {
							return true
						}
					}
				}
				if bad == nil {
					bad = r
				}
				return true
			})
			msg := ""
			if bad != nil {
				msg = "after installing a child pointer the function can return success at " + l.ipos(bad) + " without calcHeightAndSize and balance: height/size go stale and the tree is not rebalanced"
			}
			c.decide("PASS-rebalance", l.fname(fn)+" "+describe(l, st)+" ⇒ recompute + balance", l.ipos(st), bad == nil, "every success return after the store passes calcHeightAndSize and balance (value replacement excepted)", msg)
		}
	}
}

func isBoolExtract(v ssa.Value) bool {
	_, ok := stripTrivial(v).(*ssa.Extract)
	return ok
}

// longestPath: maximum over acyclic CFG paths of the summed weights.
func longestPath(fn *ssa.Function, w func(in ssa.Instruction) int) int {
	memo := map[*ssa.BasicBlock]int{}
	var visit func(b *ssa.BasicBlock) int
	visit = func(b *ssa.BasicBlock) int {
		if v, ok := memo[b]; ok {
			return v
		}
		memo[b] = 0 // cycle guard
		own := 0
		for _, in := range b.Instrs {
			own += w(in)
		}
		best := 0
		for _, s := range b.Succs {
			if v := visit(s); v > best {
				best = v
			}
		}
		memo[b] = own + best
		return own + best
	}
	if len(fn.Blocks) == 0 {
		return 0
	}
	return visit(fn.Blocks[0])
}
