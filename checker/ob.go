package main

import (
	"encoding/json"
	"fmt"
	"os"
	"path/filepath"
	"sort"
	"strings"
	"time"
)

// Status of an obligation.
const (
	Discharged = "discharged"
	Refuted    = "refuted"
	Undecided  = "undecided"
	Known      = "known-finding"
)

// Ob is one rule instance decided on the current tree.  Key never contains a
// position: it is rule + resolved construct, so refactors that keep the shape
// keep the key.
type Ob struct {
	Property string `json:"property"`
	Rule     string `json:"rule"`
	Key      string `json:"key"`
	Pos      string `json:"pos"`
	Status   string `json:"status"`
	Reason   string `json:"reason"`
	Path     string `json:"path,omitempty"`
}

type RuleStats struct {
	Rule        string   `json:"rule"`
	Decides     string   `json:"decides"`
	Obligations int      `json:"obligations"`
	Discharged  int      `json:"discharged"`
	Refuted     int      `json:"refuted"`
	Undecided   int      `json:"undecided"`
	Known       int      `json:"known_findings"`
	Floor       int      `json:"floor"`
	Instances   []string `json:"instances,omitempty"`
}

// Ctx is the per-property check context.
type Ctx struct {
	Prop    string
	Tier    string
	L       *Loaded // root module
	V2      *Loaded // v2 module (C19 only)
	obs     []*Ob
	rules   map[string]*RuleStats
	order   []string
	notes   []string
	info    []string
	seen    map[string]bool
	trusted []string
	fatal   []string
}

func newCtx(prop, tier string, l *Loaded) *Ctx {
	return &Ctx{Prop: prop, Tier: tier, L: l, rules: map[string]*RuleStats{}, seen: map[string]bool{}}
}

// rule declares a rule with its minimum obligation count (floor confirmed by
// reading today's tree: a rule matching fewer sites than that fails).
func (c *Ctx) rule(name, decides string, floor int) {
	if _, ok := c.rules[name]; ok {
		return
	}
	c.rules[name] = &RuleStats{Rule: name, Decides: decides, Floor: floor}
	c.order = append(c.order, name)
}

func (c *Ctx) add(rule, key, pos, status, reason string) *Ob {
	if _, ok := c.rules[rule]; !ok {
		c.rule(rule, "", 0)
	}
	k := rule + "|" + key
	if c.seen[k] {
		// keep keys unique: same construct reached twice (e.g. two call
		// sites of one callee in one function) gets an ordinal
		for i := 2; ; i++ {
			k2 := fmt.Sprintf("%s#%d", k, i)
			if !c.seen[k2] {
				key = fmt.Sprintf("%s#%d", key, i)
				k = k2
				break
			}
		}
	}
	c.seen[k] = true
	o := &Ob{Property: c.Prop, Rule: rule, Key: key, Pos: pos, Status: status, Reason: reason}
	c.obs = append(c.obs, o)
	return o
}

func (c *Ctx) ok(rule, key, pos, reason string) *Ob { return c.add(rule, key, pos, Discharged, reason) }
func (c *Ctx) bad(rule, key, pos, reason string) *Ob {
	return c.add(rule, key, pos, Refuted, reason)
}
func (c *Ctx) undecided(rule, key, pos, reason string) *Ob {
	return c.add(rule, key, pos, Undecided, reason)
}

// decide adds a discharged or refuted obligation.
func (c *Ctx) decide(rule, key, pos string, holds bool, okReason, badReason string) *Ob {
	if holds {
		return c.ok(rule, key, pos, okReason)
	}
	return c.bad(rule, key, pos, badReason)
}

// anchorMissing records an unresolved anchor: the check fails.
func (c *Ctx) anchorMissing(rule, what string) {
	c.add(rule, "anchor:"+what, "-", Undecided, "anchor no longer resolves: "+what+" (table must be re-confirmed against the source)")
}

func (c *Ctx) note(format string, a ...any) { c.notes = append(c.notes, fmt.Sprintf(format, a...)) }
func (c *Ctx) infof(format string, a ...any) {
	c.info = append(c.info, fmt.Sprintf(format, a...))
}
func (c *Ctx) trust(s ...string) { c.trusted = append(c.trusted, s...) }

// ---------------------------------------------------------------------------

type knownFinding struct {
	Property string `json:"property"`
	Rule     string `json:"rule"`
	Key      string `json:"key"`
	What     string `json:"what_fails"`
	Repro    string `json:"reproduction,omitempty"`
}

type knownFile struct {
	Findings []knownFinding `json:"findings"`
	Fixed    []string       `json:"fixed"`
}

func loadKnown(path string) (*knownFile, error) {
	var kf knownFile
	b, err := os.ReadFile(path)
	if err != nil {
		if os.IsNotExist(err) {
			return &kf, nil
		}
		return nil, err
	}
	if err := json.Unmarshal(b, &kf); err != nil {
		return nil, fmt.Errorf("%s: %w", path, err)
	}
	return &kf, nil
}

// finish matches refuted obligations against the known-findings file, checks
// floors, writes evidence and violation files, prints the verdict lines and
// returns the process exit code.
func (c *Ctx) finish(kf *knownFile, evidencePath string, explanation string, start time.Time, seed int, extra map[string]any) int {
	violDir := filepath.Join(filepath.Dir(evidencePath), "violations")
	// clear old violation files of this property
	if ents, err := os.ReadDir(violDir); err == nil {
		for _, e := range ents {
			if strings.HasPrefix(e.Name(), c.Prop+"-") {
				os.Remove(filepath.Join(violDir, e.Name()))
			}
		}
	}
	known := map[string]knownFinding{}
	for _, k := range kf.Findings {
		if k.Property == c.Prop {
			known[k.Rule+"|"+k.Key] = k
		}
	}
	usedKnown := map[string]bool{}
	for _, o := range c.obs {
		if o.Status == Refuted {
			if k, ok := known[o.Rule+"|"+o.Key]; ok {
				o.Status = Known
				usedKnown[o.Rule+"|"+o.Key] = true
				fmt.Printf("KNOWN-FINDING: property=%s rule=%s %s — %s\n", c.Prop, o.Rule, o.Key, k.What)
			}
		}
	}
	for k, f := range known {
		if !usedKnown[k] {
			// a listed finding that no longer reproduces is not an alarm, but say so
			fmt.Printf("note: known finding no longer refuted on this tree: %s %s (%s)\n", f.Rule, f.Key, f.What)
		}
	}
	for _, o := range c.obs {
		r := c.rules[o.Rule]
		r.Obligations++
		switch o.Status {
		case Discharged:
			r.Discharged++
		case Refuted:
			r.Refuted++
		case Undecided:
			r.Undecided++
		case Known:
			r.Known++
		}
	}
	var failures []*Ob
	for _, o := range c.obs {
		if o.Status == Refuted || o.Status == Undecided {
			failures = append(failures, o)
		}
	}
	for _, name := range c.order {
		r := c.rules[name]
		if r.Obligations < r.Floor {
			failures = append(failures, &Ob{Property: c.Prop, Rule: name, Key: "floor", Pos: "-", Status: Undecided,
				Reason: fmt.Sprintf("rule matched %d obligations, fewer than the %d confirmed by hand: the rule would pass vacuously", r.Obligations, r.Floor)})
		}
	}
	for _, f := range c.fatal {
		failures = append(failures, &Ob{Property: c.Prop, Rule: "checker", Key: "fatal", Pos: "-", Status: Undecided, Reason: f})
	}

	// evidence
	total, disch, kn := 0, 0, 0
	var stats []*RuleStats
	for _, name := range c.order {
		r := c.rules[name]
		stats = append(stats, r)
		total += r.Obligations
		disch += r.Discharged
		kn += r.Known
	}
	samples := []any{}
	perRule := map[string]int{}
	for _, o := range c.obs {
		if perRule[o.Rule] < 2 {
			perRule[o.Rule]++
			samples = append(samples, o)
		}
	}
	for _, o := range failures {
		samples = append(samples, o)
	}
	keys := map[string]bool{}
	for _, o := range c.obs {
		keys[o.Rule+"|"+o.Key] = true
	}
	cov := map[string]any{
		"explanation":         explanation,
		"obligations":         total,
		"discharged":          disch,
		"known_findings":      kn,
		"refuted_or_undecided": len(failures),
		"evaluations":         total,
		"distinct_nontrivial": len(keys),
		"rule":                "one obligation per (rule, resolved construct); distinct = distinct keys; all are non-trivial (each names a construct of the analysed program)",
		"rules":               stats,
		"samples":             samples,
		"exhaustive":          true,
		"checker_cmd":         fmt.Sprintf("bin/check %s %s", c.Prop, c.Tier),
		"trusted_base": append([]string{
			"Go type checker and go/ssa construction (x/tools v0.29.0)",
			"VTA call graph over CHA for dynamic calls (no points-to analysis available)",
		}, c.trusted...),
		"analysed": map[string]any{
			"module":           c.L.ModPath,
			"packages":         modulePkgs(c.L),
			"source_functions": len(c.L.SrcFuncs),
			"callgraph_edges":  c.L.NumEdges,
			"goarch":           c.L.GOARCH,
		},
		"notes":         c.notes,
		"informational": c.info,
	}
	if c.V2 != nil {
		cov["analysed_v2"] = map[string]any{
			"module":           c.V2.ModPath,
			"packages":         modulePkgs(c.V2),
			"source_functions": len(c.V2.SrcFuncs),
			"callgraph_edges":  c.V2.NumEdges,
		}
	}
	for k, v := range extra {
		cov[k] = v
	}
	ev := map[string]any{
		"property_id": c.Prop,
		"tier":        c.Tier,
		"seed":        seed,
		"level":       "other",
		"coverage":    cov,
		"assumptions": []string{
			"static analysis only: no iavl code, test or model is executed by this check",
			"the behavioural part of the property (see explanation) is NOT decided; only the named structural clauses are",
			"standard-library contracts as listed in trusted_base",
		},
		"wall_s":     time.Since(start).Seconds(),
		"violations": len(failures),
	}
	os.MkdirAll(filepath.Dir(evidencePath), 0o755)
	b, _ := json.MarshalIndent(ev, "", " ")
	if err := os.WriteFile(evidencePath, b, 0o644); err != nil {
		fmt.Fprintln(os.Stderr, "cannot write evidence:", err)
		return 2
	}

	// report
	fmt.Printf("== %s (%s): %d obligations, %d discharged, %d known findings, %d failing\n", c.Prop, c.Tier, total, disch, kn, len(failures))
	for _, name := range c.order {
		r := c.rules[name]
		fmt.Printf("   %-22s obligations=%-4d discharged=%-4d known=%-2d refuted=%-2d undecided=%-2d floor=%d\n", r.Rule, r.Obligations, r.Discharged, r.Known, r.Refuted, r.Undecided, r.Floor)
	}
	for _, s := range c.info {
		fmt.Printf("   info: %s\n", s)
	}
	if len(failures) == 0 {
		return 0
	}
	os.MkdirAll(violDir, 0o755)
	sort.SliceStable(failures, func(i, j int) bool { return failures[i].Rule+failures[i].Key < failures[j].Rule+failures[j].Key })
	for i, o := range failures {
		p := filepath.Join(violDir, fmt.Sprintf("%s-%d.json", c.Prop, i+1))
		b, _ := json.MarshalIndent(o, "", " ")
		os.WriteFile(p, b, 0o644)
		fmt.Printf("  %s [%s] %s at %s: %s\n", strings.ToUpper(o.Status), o.Rule, o.Key, o.Pos, o.Reason)
		if o.Path != "" {
			fmt.Printf("      path: %s\n", o.Path)
		}
		fmt.Printf("VIOLATION property=%s replay=%s\n", c.Prop, p)
	}
	return 1
}

func modulePkgs(l *Loaded) []string {
	var out []string
	for path := range l.byPkg {
		if path == l.ModPath || strings.HasPrefix(path, l.ModPath+"/") {
			out = append(out, path)
		}
	}
	sort.Strings(out)
	return out
}
