package main

import (
	"fmt"
	"sort"
	"strings"

	"golang.org/x/tools/go/ssa"
)

// lock pairing: abstract state per mutex access path on every path.

type lkState int8

const (
	lkBottom lkState = iota // unreached
	lkFree
	lkHeld
	lkTop // differs between paths
)

type lockOp struct {
	key    string // access path of the mutex (+":r" for read mode)
	lock   bool
	unlock bool
}

// lockOpOf decodes a call to sync.(RW)Mutex methods.
func lockOpOf(cc *ssa.CallCommon) (op lockOp, ok bool) {
	f := staticCallee(cc)
	if f == nil || len(cc.Args) == 0 {
		return op, false
	}
	s := f.String()
	var mode string
	switch s {
	case "(*sync.Mutex).Lock", "(*sync.RWMutex).Lock":
		op.lock = true
	case "(*sync.Mutex).Unlock", "(*sync.RWMutex).Unlock":
		op.unlock = true
	case "(*sync.RWMutex).RLock":
		op.lock, mode = true, ":r"
	case "(*sync.RWMutex).RUnlock":
		op.unlock, mode = true, ":r"
	default:
		return op, false
	}
	p := accessPath(cc.Args[0])
	if p == "" {
		p = "?" + cc.Args[0].Name()
	}
	op.key = p + mode
	return op, true
}

type lockFlow struct {
	st  map[string]lkState
	def map[string]int // pending deferred unlocks
}

func (a lockFlow) clone() lockFlow {
	b := lockFlow{st: map[string]lkState{}, def: map[string]int{}}
	for k, v := range a.st {
		b.st[k] = v
	}
	for k, v := range a.def {
		b.def[k] = v
	}
	return b
}

func joinLock(a, b lockFlow) (lockFlow, bool) {
	changed := false
	out := a.clone()
	for k, v := range b.st {
		av, ok := out.st[k]
		if !ok {
			av = lkBottom
		}
		nv := av
		switch {
		case av == lkBottom:
			nv = v
		case v == lkBottom || v == av:
		default:
			nv = lkTop
		}
		if nv != av || !ok {
			out.st[k] = nv
			changed = true
		}
	}
	for k, v := range b.def {
		if out.def[k] < v {
			// deferred on one path only: keep max but mark as conditional with negative? keep max
			out.def[k] = v
			changed = true
		}
	}
	return out, changed
}

type lockIssue struct {
	key  string
	what string
	at   ssa.Instruction
}

// checkLockPairing analyses fn; handoff lists mutex keys that fn legitimately
// returns holding (released by a goroutine it started).
func checkLockPairing(l *Loaded, fn *ssa.Function, handoff map[string]bool) (keys []string, issues []lockIssue) {
	keys, issues, _ = checkLockPairingQ(l, fn, handoff)
	return
}

// lockQuery reports the abstract state of mutex key k right before instruction at.
type lockQuery func(at ssa.Instruction, k string) lkState

func checkLockPairingQ(l *Loaded, fn *ssa.Function, handoff map[string]bool) (keys []string, issues []lockIssue, q lockQuery) {
	q = func(ssa.Instruction, string) lkState { return lkFree }
	keyset := map[string]bool{}
	allInstrs(fn, func(in ssa.Instruction) {
		if cc := callCommon(in); cc != nil {
			if op, ok := lockOpOf(cc); ok {
				keyset[op.key] = true
			}
		}
	})
	if len(keyset) == 0 {
		return nil, nil, q
	}
	for k := range keyset {
		keys = append(keys, k)
	}
	sort.Strings(keys)

	in := map[*ssa.BasicBlock]lockFlow{}
	entry := lockFlow{st: map[string]lkState{}, def: map[string]int{}}
	for _, k := range keys {
		entry.st[k] = lkFree
	}
	in[fn.Blocks[0]] = entry
	issueSeen := map[string]bool{}
	report := func(k, what string, at ssa.Instruction) {
		id := k + "|" + what + "|" + l.ipos(at)
		if issueSeen[id] {
			return
		}
		issueSeen[id] = true
		issues = append(issues, lockIssue{k, what, at})
	}
	transfer := func(b *ssa.BasicBlock, s lockFlow, final bool) lockFlow {
		s = s.clone()
		for _, x := range b.Instrs {
			switch t := x.(type) {
			case *ssa.Defer:
				if op, ok := lockOpOf(&t.Call); ok && op.unlock {
					s.def[op.key]++
				}
			case *ssa.Call:
				op, ok := lockOpOf(&t.Call)
				if !ok {
					continue
				}
				cur := s.st[op.key]
				if op.lock {
					if final && cur == lkHeld && !strings.HasSuffix(op.key, ":r") {
						report(op.key, "Lock while already held on this path (self-deadlock)", x)
					}
					s.st[op.key] = lkHeld
				} else {
					if final && cur == lkFree {
						report(op.key, "Unlock of a mutex that is not held on this path", x)
					}
					s.st[op.key] = lkFree
				}
			case *ssa.Return:
				if !final {
					continue
				}
				for _, k := range keys {
					cur := s.st[k]
					d := s.def[k]
					switch {
					case handoff[k]:
						// conditional hand-off between a function and the goroutine it starts
					case d > 0 && cur == lkFree:
						report(k, "deferred Unlock runs at this return although the mutex was already released on this path (fatal: unlock of unlocked mutex)", x)
					case d > 1:
						report(k, "more than one deferred Unlock pending", x)
					case d == 0 && cur == lkHeld && !handoff[k]:
						report(k, "function returns with the mutex still held and no deferred Unlock", x)
					case cur == lkTop && d == 0 && !handoff[k]:
						report(k, "lock state differs between paths reaching this return", x)
					}
				}
			case *ssa.Panic:
				// deferred unlocks run; nothing to check
			}
		}
		return s
	}
	// fixpoint
	work := []*ssa.BasicBlock{fn.Blocks[0]}
	out := map[*ssa.BasicBlock]lockFlow{}
	iter := 0
	for len(work) > 0 && iter < 10000 {
		iter++
		b := work[0]
		work = work[1:]
		o := transfer(b, in[b], false)
		out[b] = o
		for _, s := range b.Succs {
			cur, ok := in[s]
			if !ok {
				in[s] = o.clone()
				work = append(work, s)
				continue
			}
			j, ch := joinLock(cur, o)
			if ch {
				in[s] = j
				work = append(work, s)
			}
		}
	}
	for _, b := range fn.Blocks {
		if s, ok := in[b]; ok {
			transfer(b, s, true)
		}
	}
	q = func(at ssa.Instruction, k string) lkState {
		b := at.Block()
		s, ok := in[b]
		if !ok {
			return lkBottom
		}
		s = s.clone()
		for _, x := range b.Instrs {
			if x == at {
				break
			}
			if call, isCall := x.(*ssa.Call); isCall {
				if op, ok := lockOpOf(&call.Call); ok {
					if op.lock {
						s.st[op.key] = lkHeld
					} else {
						s.st[op.key] = lkFree
					}
				}
			}
		}
		return s.st[k]
	}
	return keys, issues, q
}

// runLockPairing adds one obligation per (function, mutex) in scope.
func runLockPairing(c *Ctx, l *Loaded, rule string, scope func(fn *ssa.Function) bool, handoff map[string]map[string]bool) {
	for _, fn := range l.SrcFuncs {
		if scope != nil && !scope(fn) {
			continue
		}
		keys, issues := checkLockPairing(l, fn, handoff[l.fname(fn)])
		byKey := map[string][]lockIssue{}
		for _, is := range issues {
			byKey[is.key] = append(byKey[is.key], is)
		}
		for _, k := range keys {
			key := l.fname(fn) + " mutex " + k
			if strings.HasPrefix(k, "?") {
				c.undecided(rule, key, l.pos(fn.Pos()), "mutex operand has no stable access path")
				continue
			}
			if is := byKey[k]; len(is) > 0 {
				o := c.bad(rule, key, l.ipos(is[0].at), is[0].what)
				var all []string
				for _, x := range is {
					all = append(all, fmt.Sprintf("%s @%s", x.what, l.ipos(x.at)))
				}
				o.Path = strings.Join(all, "; ")
			} else {
				c.ok(rule, key, l.pos(fn.Pos()), "acquire/release paired on every path, deferred releases included")
			}
		}
	}
}
