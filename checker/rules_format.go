package main

import (
	"fmt"
	"go/token"
	"regexp"
	"go/types"
	"sort"
	"strings"

	"golang.org/x/tools/go/ssa"
)

// FORMAT: token sequences emitted / consumed along every success path of a
// codec function, with the role of each operand.

// roleOf renders the operand v of an emission as a compact expression rooted
// at the receiver/parameters (receiver name dropped).
func roleOf(l *Loaded, v ssa.Value, recv string, d int) string {
	if d > 10 || v == nil {
		return "?"
	}
	switch x := v.(type) {
	case *ssa.Const:
		if x.Value == nil {
			return "nil"
		}
		return x.Value.ExactString()
	case *ssa.Parameter:
		if x.Name() == recv {
			return ""
		}
		// positional, so that renaming a parameter does not change a role
		if fn := x.Parent(); fn != nil {
			for i, p := range fn.Params {
				if p == x {
					if fn.Signature.Recv() != nil {
						if i == 0 {
							return "recv"
						}
						return fmt.Sprintf("arg%d", i-1)
					}
					return fmt.Sprintf("arg%d", i)
				}
			}
		}
		return "param:" + x.Name()
	case *ssa.FreeVar:
		if fn := x.Parent(); fn != nil {
			for i, fv := range fn.FreeVars {
				if fv == x {
					return fmt.Sprintf("free%d", i)
				}
			}
		}
		return "free:" + x.Name()
	case *ssa.Convert:
		return roleOf(l, x.X, recv, d+1)
	case *ssa.ChangeType:
		return roleOf(l, x.X, recv, d+1)
	case *ssa.MakeInterface:
		return roleOf(l, x.X, recv, d+1)
	case *ssa.ChangeInterface:
		return roleOf(l, x.X, recv, d+1)
	case *ssa.TypeAssert:
		return roleOf(l, x.X, recv, d+1)
	case *ssa.UnOp:
		if x.Op == token.MUL {
			if al, ok := x.X.(*ssa.Alloc); ok {
				if s := storedInto(al); s != nil {
					return roleOf(l, s, recv, d+1)
				}
			}
			return roleOf(l, x.X, recv, d+1)
		}
	case *ssa.FieldAddr:
		b := roleOf(l, x.X, recv, d+1)
		f := fieldName(x.X.Type(), x.Field)
		if b == "" {
			return f
		}
		return b + "." + f
	case *ssa.Field:
		b := roleOf(l, x.X, recv, d+1)
		f := fieldName(x.X.Type(), x.Field)
		if b == "" {
			return f
		}
		return b + "." + f
	case *ssa.IndexAddr:
		if roleShowIndex {
			return roleOf(l, x.X, recv, d+1) + "[" + roleOf(l, x.Index, recv, d+1) + "]"
		}
		return roleOf(l, x.X, recv, d+1) + "[i]"
	case *ssa.Index:
		if roleShowIndex {
			return roleOf(l, x.X, recv, d+1) + "[" + roleOf(l, x.Index, recv, d+1) + "]"
		}
		return roleOf(l, x.X, recv, d+1) + "[i]"
	case *ssa.Slice:
		if al, ok := x.X.(*ssa.Alloc); ok {
			if s := storedInto(al); s != nil {
				return roleOf(l, s, recv, d+1)
			}
			// array literal (e.g. variadic arguments): render its elements
			if _, isArr := arrayLenOf(al.Type()); isArr {
				type el struct {
					i int64
					r string
				}
				var els []el
				for _, r := range refs(al) {
					if ia, ok := r.(*ssa.IndexAddr); ok {
						idx, _ := constInt(ia.Index)
						for _, rr := range refs(ia) {
							if st, ok := rr.(*ssa.Store); ok {
								els = append(els, el{idx, roleOf(l, st.Val, recv, d+1)})
							}
						}
					}
				}
				if len(els) > 0 {
					sort.Slice(els, func(i, j int) bool { return els[i].i < els[j].i })
					var ps []string
					for _, e := range els {
						ps = append(ps, e.r)
					}
					return "[" + strings.Join(ps, ",") + "]"
				}
			}
			return "local"
		}
		return roleOf(l, x.X, recv, d+1)
	case *ssa.Alloc:
		if s := storedInto(x); s != nil {
			return roleOf(l, s, recv, d+1)
		}
		return "local"
	case *ssa.Call:
		name := "call"
		if b, ok := x.Call.Value.(*ssa.Builtin); ok {
			name = b.Name()
		} else if f := staticCallee(&x.Call); f != nil {
			name = f.Name()
			if f.Pkg != nil && !l.inModule(f) {
				name = f.Pkg.Pkg.Name() + "." + name
			}
		} else if x.Call.IsInvoke() {
			name = x.Call.Method.Name()
		}
		var as []string
		args := x.Call.Args
		if x.Call.IsInvoke() {
			as = append(as, roleOf(l, x.Call.Value, recv, d+1))
		}
		for _, a := range args {
			as = append(as, roleOf(l, a, recv, d+1))
		}
		return name + "(" + strings.Join(as, ",") + ")"
	case *ssa.Extract:
		return roleOf(l, x.Tuple, recv, d+1) + fmt.Sprintf("#%d", x.Index)
	case *ssa.Phi:
		var alts []string
		seen := map[string]bool{}
		for _, e := range x.Edges {
			r := roleOf(l, e, recv, d+1)
			if !seen[r] {
				seen[r] = true
				alts = append(alts, r)
			}
		}
		sort.Strings(alts)
		return "φ(" + strings.Join(alts, "|") + ")"
	case *ssa.BinOp:
		return "(" + roleOf(l, x.X, recv, d+1) + x.Op.String() + roleOf(l, x.Y, recv, d+1) + ")"
	case *ssa.Global:
		return "global:" + x.Name()
	}
	return "?" + fmt.Sprintf("%T", v)
}

// roleShowIndex makes roleOf render index expressions instead of "[i]"
// (used by the rules that must tell stack[len-1] from stack[len-2]).
var roleShowIndex bool

// roleOfIdx is roleOf with index expressions rendered.
func roleOfIdx(l *Loaded, v ssa.Value) string {
	roleShowIndex = true
	defer func() { roleShowIndex = false }()
	return roleOf(l, v, "", 0)
}

// structStoresAll is structLiteralStores keeping every store per field.
func structStoresAll(fn *ssa.Function, T *types.Named) []map[string][]ssa.Value {
	var out []map[string][]ssa.Value
	allInstrs(fn, func(in ssa.Instruction) {
		al, ok := in.(*ssa.Alloc)
		if !ok {
			return
		}
		n := derefNamed(al.Type())
		if n == nil || n.Obj() != T.Obj() {
			return
		}
		m := map[string][]ssa.Value{}
		for _, r := range refs(al) {
			if fa, ok := r.(*ssa.FieldAddr); ok {
				for _, rr := range refs(fa) {
					if st, ok := rr.(*ssa.Store); ok && st.Addr == fa {
						f := fieldName(fa.X.Type(), fa.Field)
						m[f] = append(m[f], st.Val)
					}
				}
			}
		}
		out = append(out, m)
	})
	return out
}

// storedInto returns the unique value stored directly into alloc al.
func storedInto(al *ssa.Alloc) ssa.Value {
	var v ssa.Value
	n := 0
	for _, r := range refs(al) {
		if st, ok := r.(*ssa.Store); ok && st.Addr == al {
			v = st.Val
			n++
		}
	}
	if n == 1 {
		return v
	}
	return nil
}

type fmtTok struct {
	kind string // V U B H RAW ?cond
	role string
}

func (t fmtTok) String() string {
	if t.role == "" {
		return t.kind
	}
	return t.kind + "(" + t.role + ")"
}

func seqString(s []fmtTok) string {
	var p []string
	for _, t := range s {
		p = append(p, t.String())
	}
	return strings.Join(p, " ")
}

// emitTokenOf recognises an encoder primitive call.
func (fx *fmtExtractor) emitTokenOf(in ssa.Instruction) (fmtTok, bool) {
	call, ok := in.(*ssa.Call)
	if !ok {
		return fmtTok{}, false
	}
	if fx.rawWrites && call.Call.IsInvoke() && call.Call.Method.Name() == "Write" && len(call.Call.Args) == 1 {
		return fmtTok{"W", roleOf(fx.l, call.Call.Args[0], fx.recv, 0)}, true
	}
	if fx.rawWrites && call.Call.IsInvoke() && call.Call.Method.Name() == "WriteByte" && len(call.Call.Args) == 1 {
		return fmtTok{"WB", roleOf(fx.l, call.Call.Args[0], fx.recv, 0)}, true
	}
	f := staticCallee(&call.Call)
	if f == nil {
		return fmtTok{}, false
	}
	full := f.String()
	// v2 keeps the same primitives in package path …/v2/internal (package encoding)
	full = strings.Replace(full, "/v2/internal.", "/v2/internal/encoding.", 1)
	args := call.Call.Args
	r := func(i int) string {
		s := roleOf(fx.l, args[i], fx.recv, 0)
		if computedRole.MatchString(s) && strings.Contains(s, "φ") {
			return "computed"
		}
		return s
	}
	switch {
	case strings.HasSuffix(full, "internal/encoding.EncodeVarint"):
		return fmtTok{"V", r(1)}, true
	case strings.HasSuffix(full, "internal/encoding.EncodeUvarint"):
		return fmtTok{"U", r(1)}, true
	case strings.HasSuffix(full, "internal/encoding.EncodeBytes"), strings.HasSuffix(full, "iavl/v2.EncodeBytes"):
		return fmtTok{"B", r(1)}, true
	case strings.HasSuffix(full, "internal/encoding.Encode32BytesHash"):
		return fmtTok{"H", r(1)}, true
	case full == "encoding/binary.PutVarint":
		return fmtTok{"V", r(1)}, true
	case full == "encoding/binary.PutUvarint":
		return fmtTok{"U", r(1)}, true
	case full == "(encoding/binary.bigEndian).PutUint64":
		return fmtTok{"BE64@" + sliceOffset(args[1]), r(2)}, true
	case full == "(encoding/binary.bigEndian).PutUint32":
		return fmtTok{"BE32@" + sliceOffset(args[1]), r(2)}, true
	case full == "(encoding/binary.bigEndian).Uint64":
		return fmtTok{"BE64@" + sliceOffset(args[1]), "→" + destRoleOr(call)}, true
	case full == "(encoding/binary.bigEndian).Uint32":
		return fmtTok{"BE32@" + sliceOffset(args[1]), "→" + destRoleOr(call)}, true
	}
	return fmtTok{}, false
}

func destRoleOr(call *ssa.Call) string {
	if d := destRole(call, 0); d != "" {
		return d
	}
	return "unstored"
}

// sliceOffset: constant low bound of the slice expression handed to a
// fixed-width codec ("0" if the whole slice).
func sliceOffset(v ssa.Value) string {
	if sl, ok := stripTrivial(v).(*ssa.Slice); ok && sl.Low != nil {
		if n, ok := constInt(sl.Low); ok {
			return fmt.Sprint(n)
		}
		return "?"
	}
	return "0"
}

var computedRole = regexp.MustCompile(`^[φ()0-9+|]+$`)

// consumeTokenOf recognises a decoder primitive call; role = where the
// decoded value ends up.
func (fx *fmtExtractor) consumeTokenOf(in ssa.Instruction) (fmtTok, bool) {
	call, ok := in.(*ssa.Call)
	if !ok {
		return fmtTok{}, false
	}
	f := staticCallee(&call.Call)
	if f == nil {
		return fmtTok{}, false
	}
	full := strings.Replace(f.String(), "/v2/internal.", "/v2/internal/encoding.", 1)
	var kind string
	switch {
	case strings.HasSuffix(full, "internal/encoding.DecodeVarint"):
		kind = "V"
	case strings.HasSuffix(full, "internal/encoding.DecodeUvarint"):
		kind = "U"
	case strings.HasSuffix(full, "internal/encoding.DecodeBytes"):
		kind = "B"
	default:
		return fmtTok{}, false
	}
	dest := "unstored"
	if e := extractOf(call, 0); e != nil {
		if d := destRole(e, 0); d != "" {
			dest = d
		}
	}
	return fmtTok{kind, "→" + dest}, true
}

// destRole: the field the value is (eventually) stored into.
func destRole(v ssa.Value, d int) string {
	if d > 6 {
		return ""
	}
	var out []string
	for _, r := range refs(v) {
		switch x := r.(type) {
		case *ssa.Store:
			if x.Val != v {
				continue
			}
			if fa, ok := x.Addr.(*ssa.FieldAddr); ok {
				n := derefNamed(fa.X.Type())
				tn := ""
				if n != nil {
					tn = n.Obj().Name() + "."
				}
				if al, ok := fa.X.(*ssa.Alloc); ok && al.Comment != "" && al.Comment != "complit" && al.Comment != "new" {
					tn = al.Comment + "."
				}
				out = append(out, tn+fieldName(fa.X.Type(), fa.Field))
			}
		case *ssa.Convert:
			if s := destRole(x, d+1); s != "" {
				out = append(out, s)
			}
		case *ssa.ChangeType:
			if s := destRole(x, d+1); s != "" {
				out = append(out, s)
			}
		case *ssa.Phi:
			if s := destRole(x, d+1); s != "" {
				out = append(out, s)
			}
		}
	}
	sort.Strings(out)
	if len(out) == 0 {
		return ""
	}
	return out[0]
}

type fmtExtractor struct {
	l         *Loaded
	recv      string
	decode    bool
	rawWrites bool // also tokenise io.Writer.Write calls (for the byte-level primitives)
	// condToken classifies a branch condition; returns token text for the
	// true and false edges ("" = not interesting)
	condToken func(cond ssa.Value, recv string) (string, string)
}

// sequences enumerates token sequences along acyclic paths to success returns.
func (fx *fmtExtractor) sequences(fn *ssa.Function) (seqs []string, truncated bool) {
	if len(fn.Params) > 0 && fn.Signature.Recv() != nil {
		fx.recv = fn.Params[0].Name()
	}
	errIdx := errResultIndex(fn.Signature)
	set := map[string]bool{}
	onPath := map[*ssa.BasicBlock]bool{}
	count := 0
	var walk func(b *ssa.BasicBlock, acc []fmtTok)
	walk = func(b *ssa.BasicBlock, acc []fmtTok) {
		if count > 20000 {
			truncated = true
			return
		}
		if onPath[b] {
			return
		}
		onPath[b] = true
		defer func() { onPath[b] = false }()
		for _, in := range b.Instrs {
			var t fmtTok
			var ok bool
			if fx.decode {
				t, ok = fx.consumeTokenOf(in)
			} else {
				t, ok = fx.emitTokenOf(in)
			}
			if ok {
				acc = append(acc[:len(acc):len(acc)], t)
			}
			if al, isAl := in.(*ssa.Alloc); isAl && al.Comment == "makeslice" && !fx.decode {
				if at, ok := al.Type().Underlying().(*types.Pointer).Elem().Underlying().(*types.Array); ok {
					acc = append(acc[:len(acc):len(acc)], fmtTok{"MAKE", fmt.Sprint(at.Len())})
				}
			}
			if ms, isMake := in.(*ssa.MakeSlice); isMake && !fx.decode {
				if n, ok := constInt(ms.Len); ok {
					acc = append(acc[:len(acc):len(acc)], fmtTok{"MAKE", fmt.Sprint(n)})
				} else {
					acc = append(acc[:len(acc):len(acc)], fmtTok{"MAKE", "dyn"})
				}
			}
			switch x := in.(type) {
			case *ssa.Return:
				count++
				if isRecoverReturn(x) {
					return
				}
				if errIdx >= 0 && errNilness(retVal(x, errIdx), b, 0) > 0 {
					return
				}
				set[seqString(acc)] = true
				return
			case *ssa.Panic:
				return
			case *ssa.If:
				// error test: follow only the nil edge
				if v, nn, isNil := nilCond(x.Cond); isNil && isErrorType(v.Type()) {
					walk(b.Succs[1-nn], acc)
					return
				}
				tt, tf := "", ""
				if fx.condToken != nil {
					tt, tf = fx.condToken(x.Cond, fx.recv)
				}
				has := func(t string) bool {
					for _, k := range acc {
						if k.kind == "?"+t {
							return true
						}
					}
					return false
				}
				a0, a1 := acc, acc
				ok0, ok1 := true, true
				if tt != "" && tf != "" {
					if has(tf) {
						ok0 = false // contradicts an earlier outcome on this path
					} else if !has(tt) {
						a0 = append(acc[:len(acc):len(acc)], fmtTok{"?" + tt, ""})
					}
					if has(tt) {
						ok1 = false
					} else if !has(tf) {
						a1 = append(acc[:len(acc):len(acc)], fmtTok{"?" + tf, ""})
					}
				}
				if ok0 {
					walk(b.Succs[0], a0)
				}
				if ok1 {
					walk(b.Succs[1], a1)
				}
				return
			case *ssa.Jump:
				walk(b.Succs[0], acc)
				return
			}
		}
	}
	if len(fn.Blocks) > 0 {
		walk(fn.Blocks[0], nil)
	}
	for s := range set {
		seqs = append(seqs, s)
	}
	sort.Strings(seqs)
	return
}

// leafCond: condition is `isLeaf()` of the receiver, or `subtreeHeight == 0`.
func leafCondToken(l *Loaded) func(cond ssa.Value, recv string) (string, string) {
	return func(cond ssa.Value, recv string) (string, string) {
		cond = stripTrivial(cond)
		if call, ok := cond.(*ssa.Call); ok {
			if f := staticCallee(&call.Call); f != nil && f.Name() == "isLeaf" {
				return "leaf", "inner"
			}
		}
		if bo, ok := cond.(*ssa.BinOp); ok {
			// height == 0
			if z, isC := constInt(bo.Y); isC && z == 0 && (bo.Op == token.EQL || bo.Op == token.NEQ) {
				r := roleOf(l, bo.X, recv, 0)
				if strings.HasSuffix(r, "subtreeHeight") || strings.HasSuffix(r, "Height") {
					if bo.Op == token.EQL {
						return "leaf", "inner"
					}
					return "inner", "leaf"
				}
				// mode & k != 0
				if and, ok := stripTrivial(bo.X).(*ssa.BinOp); ok && and.Op == token.AND {
					if k, isK := constInt(and.Y); isK {
						t, f := fmt.Sprintf("mode&%d", k), fmt.Sprintf("!mode&%d", k)
						if bo.Op == token.NEQ {
							return t, f
						}
						return f, t
					}
				}
			}
			// len(x) > 0 tests on proof sides
			if bo.Op == token.GTR || bo.Op == token.EQL {
				if z, isC := constInt(bo.Y); isC && z == 0 {
					if call, ok := stripTrivial(bo.X).(*ssa.Call); ok {
						if b, ok := call.Call.Value.(*ssa.Builtin); ok && b.Name() == "len" {
							r := roleOf(l, call.Call.Args[0], recv, 0)
							if bo.Op == token.GTR {
								return "len(" + r + ")>0", "len(" + r + ")=0"
							}
							return "len(" + r + ")=0", "len(" + r + ")>0"
						}
					}
				}
			}
		}
		return "", ""
	}
}

// checkFormat compares extracted sequences with the pinned set.
func checkFormat(c *Ctx, l *Loaded, rule, name string, fn *ssa.Function, decode bool, want []string) {
	checkFormatX(c, l, rule, name, fn, decode, false, want)
}

func checkFormatX(c *Ctx, l *Loaded, rule, name string, fn *ssa.Function, decode, raw bool, want []string) {
	if fn == nil {
		c.anchorMissing(rule, name)
		return
	}
	fx := &fmtExtractor{l: l, decode: decode, rawWrites: raw, condToken: leafCondToken(l)}
	got, trunc := fx.sequences(fn)
	if trunc {
		c.undecided(rule, name+" token sequences", l.pos(fn.Pos()), "path enumeration truncated")
		return
	}
	w := append([]string(nil), want...)
	sort.Strings(w)
	missing, extra := diffSets(w, got)
	if len(missing) == 0 && len(extra) == 0 {
		c.ok(rule, name+" token sequences", l.pos(fn.Pos()), fmt.Sprintf("%d success-path sequences equal the pinned layout, e.g. %s", len(got), first(got)))
		return
	}
	o := c.bad(rule, name+" token sequences", l.pos(fn.Pos()), fmt.Sprintf("layout differs from the pinned format: unexpected %q; missing %q", extra, missing))
	o.Path = "extracted: " + strings.Join(got, " || ")
}

func first(s []string) string {
	if len(s) == 0 {
		return ""
	}
	return s[0]
}

func diffSets(want, got []string) (missing, extra []string) {
	ws, gs := map[string]bool{}, map[string]bool{}
	for _, x := range want {
		ws[x] = true
	}
	for _, x := range got {
		gs[x] = true
	}
	for _, x := range want {
		if !gs[x] {
			missing = append(missing, x)
		}
	}
	for _, x := range got {
		if !ws[x] {
			extra = append(extra, x)
		}
	}
	return
}

// ---------------------------------------------------------------------------
// backward byte-string builder evaluation (append chains), for the ics23 ops

// buildSeqs returns the alternative token sequences a []byte value is built
// from (append chains, varint helper, constants, fields).
func buildSeqs(l *Loaded, v ssa.Value, varintHelper *ssa.Function, d int) [][]fmtTok {
	v = stripTrivial(v)
	if d > 40 {
		return [][]fmtTok{{{"?deep", ""}}}
	}
	switch x := v.(type) {
	case *ssa.Const:
		if x.IsNil() {
			return [][]fmtTok{{}}
		}
	case *ssa.Phi:
		var out [][]fmtTok
		for _, e := range x.Edges {
			out = append(out, buildSeqs(l, e, varintHelper, d+1)...)
		}
		return out
	case *ssa.Call:
		if b, ok := x.Call.Value.(*ssa.Builtin); ok && b.Name() == "append" {
			heads := buildSeqs(l, x.Call.Args[0], varintHelper, d+1)
			tails := buildSeqs(l, x.Call.Args[1], varintHelper, d+1)
			var out [][]fmtTok
			for _, h := range heads {
				for _, t := range tails {
					s := append(append([]fmtTok{}, h...), t...)
					out = append(out, s)
				}
			}
			return out
		}
		if f := staticCallee(&x.Call); f != nil && f == varintHelper {
			return [][]fmtTok{{{"V", roleOf(l, x.Call.Args[0], "", 0)}}}
		}
	case *ssa.Slice:
		if al, ok := x.X.(*ssa.Alloc); ok {
			// array literal: constants stored at indices
			var toks []fmtTok
			type el struct {
				idx int64
				v   ssa.Value
			}
			var els []el
			for _, r := range refs(al) {
				if ia, ok := r.(*ssa.IndexAddr); ok {
					idx, _ := constInt(ia.Index)
					for _, rr := range refs(ia) {
						if st, ok := rr.(*ssa.Store); ok {
							els = append(els, el{idx, st.Val})
						}
					}
				}
			}
			sort.Slice(els, func(i, j int) bool { return els[i].idx < els[j].idx })
			for _, e := range els {
				if cv, ok := constInt(stripTrivial(e.v)); ok {
					toks = append(toks, fmtTok{"RAW", fmt.Sprintf("0x%02x", cv)})
				} else {
					toks = append(toks, fmtTok{"RAWV", roleOf(l, e.v, "", 0)})
				}
			}
			return [][]fmtTok{toks}
		}
		return buildSeqs(l, x.X, varintHelper, d+1)
	}
	return [][]fmtTok{{{"BYTES", roleOf(l, v, "", 0)}}}
}

func seqsToStrings(ss [][]fmtTok) []string {
	set := map[string]bool{}
	for _, s := range ss {
		set[seqString(s)] = true
	}
	var out []string
	for s := range set {
		out = append(out, s)
	}
	sort.Strings(out)
	return out
}

// structFieldStores: values stored into the fields of composite literal
// allocations of named type T in fn: field name → stored values.
func structLiteralStores(fn *ssa.Function, T *types.Named) []map[string]ssa.Value {
	var out []map[string]ssa.Value
	allInstrs(fn, func(in ssa.Instruction) {
		al, ok := in.(*ssa.Alloc)
		if !ok {
			return
		}
		n := derefNamed(al.Type())
		if n == nil || n.Obj() != T.Obj() {
			return
		}
		m := map[string]ssa.Value{}
		for _, r := range refs(al) {
			if fa, ok := r.(*ssa.FieldAddr); ok {
				for _, rr := range refs(fa) {
					if st, ok := rr.(*ssa.Store); ok {
						m[fieldName(fa.X.Type(), fa.Field)] = st.Val
					}
				}
			}
		}
		out = append(out, m)
	})
	return out
}
