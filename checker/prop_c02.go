package main

import (
	"go/token"
	"go/types"
	"sort"
	"strings"

	"golang.org/x/tools/go/ssa"
)

func init() {
	register(&propCheck{id: "C02", needRoot: true, run: checkC02,
		explanation: "Decided statically: (1) FORMAT — the hash pre-image emitted on every success path of Node.writeHashBytes, ProofInnerNode.Hash and ProofLeafNode.Hash equals the pinned IAVL+ layout (height, size, version, then key+sha256(value) for a leaf or left-hash+right-hash for an inner node), which is data in the checker; (2) FLOW — the version fed into every memoising hash computation (and into the proof path builder) is the result of WorkingVersion(), a node's own stored version, or a parameter that is itself such a sink; a version recomputed as `tree.version+1` is NOT accepted because it disagrees with WorkingVersion() when an initial version is configured and the memo then survives into the commit — today two read-only entry points do that: KNOWN FINDINGS; (3) EFFECT — no function reachable from the read-only API writes any field of a node that is not freshly allocated there, except the hash memo under its `hash == nil` guard. Added in the build round: TYPESTATE — pre-image fields are written only on freshly copied nodes; DOM — Remove of an absent key changes nothing; TABLE — balance / insert / rotate / remove decision tables; OWN-node-version — a node key (whose version is hashed into the node) is assigned only to a node created in that function, to a node that has none yet, or as a re-keying that copies the node's own version. NOT decided: that insertion, removal and rebalancing produce the reference shape, hence the hash VALUES; equality across reopen/prune/import. Rules added in the later seeding rounds (each listed with what it decides in this file's rule table) are described in DESIGN.md §3 \"Third and fourth seeding rounds\" and Appendix C3–C5."})
}

var pinnedHashPreimage = []string{
	"V(subtreeHeight) V(size) V(arg1) ?leaf B(key) H(sha256.Sum256(value))",
	"V(subtreeHeight) V(size) V(arg1) ?inner H(leftNode.hash) H(rightNode.hash)",
}

func checkC02(c *Ctx) {
	l := c.L
	checkIndexReaders(c)
	c.rule("PASS-root-record", "existence and identity of a version come from its stored root record, not from the node cache or the working tree", 2)
	checkRootRecord(c, "PASS-root-record")
	c.rule("FORMAT-hash-preimage", "hash pre-image layout equals the pinned IAVL+ layout in every writer", 3)
	c.rule("FLOW-hash-version", "the version hashed into a memoised node hash originates from WorkingVersion() or the node's own key", 8)
	c.rule("EFFECT-readonly", "read-only API writes no field of a shared node except the guarded hash memo", 2)

	checkFormat(c, l, "FORMAT-hash-preimage", "Node.writeHashBytes", l.Func("", "*Node.writeHashBytes"), false, pinnedHashPreimage)
	checkFormat(c, l, "FORMAT-hash-preimage", "ProofInnerNode.Hash", l.Func("", "ProofInnerNode.Hash"), false, []string{
		"V(Height) V(Size) V(Version) ?len(Left)=0 B(arg0) B(Right)",
		"V(Height) V(Size) V(Version) ?len(Left)>0 ?len(Right)=0 B(Left) B(arg0)",
	})
	checkFormat(c, l, "FORMAT-hash-preimage", "ProofLeafNode.Hash", l.Func("", "ProofLeafNode.Hash"), false, []string{"V(0) V(1) V(Version) B(Key) B(ValueHash)"})

	// ---- (2)
	wv := l.Func("", "*MutableTree.WorkingVersion")
	fNKver := l.Field("", "NodeKey", "version")
	sinkNames := map[string]int{"_hash": 1, "hashWithCount": 1, "writeHashBytes": 2, "writeHashBytesRecursively": 2, "PathToLeaf": 3, "pathToLeaf": 3}
	sinks := map[*ssa.Function]int{}
	for n, idx := range sinkNames {
		f := l.Func("", "*Node."+n)
		if f == nil {
			c.anchorMissing("FLOW-hash-version", "Node."+n)
			continue
		}
		sinks[f] = idx
	}
	if wv == nil || fNKver == nil {
		c.anchorMissing("FLOW-hash-version", "WorkingVersion / NodeKey.version")
	}
	var okSource func(v ssa.Value, fn *ssa.Function, d int) (bool, string)
	okSource = func(v ssa.Value, fn *ssa.Function, d int) (bool, string) {
		v = stripTrivial(v)
		if d > 6 {
			return false, "too deep"
		}
		switch x := v.(type) {
		case *ssa.Call:
			if predStatic(wv)(&x.Call) {
				return true, ""
			}
		case *ssa.UnOp:
			if isLoadOfField(fNKver)(x) {
				return true, ""
			}
			// load of a captured variable: look at what the enclosing function bound
			if x.Op == token.MUL {
				if fv, ok := x.X.(*ssa.FreeVar); ok {
					return freeVarSource(l, fn, fv, func(b ssa.Value, pf *ssa.Function) (bool, string) { return okSource(b, pf, d+1) })
				}
			}
		case *ssa.FreeVar:
			return freeVarSource(l, fn, x, func(b ssa.Value, pf *ssa.Function) (bool, string) { return okSource(b, pf, d+1) })
		case *ssa.Parameter:
			// a parameter that is itself a version sink of a hashing function
			if idx, isSink := sinks[fn]; isSink && idx < len(fn.Params) && fn.Params[idx] == x {
				return true, ""
			}
			// otherwise: every caller must pass an acceptable value
			pi := -1
			for i, p := range fn.Params {
				if p == x {
					pi = i
				}
			}
			callers := l.callersOf(fn)
			if pi < 0 || len(callers) == 0 {
				return false, "parameter " + x.Name() + " of " + l.fname(fn) + " has no analysable callers"
			}
			for _, e := range callers {
				if e.Site == nil || !l.inModule(e.Caller.Func) {
					continue
				}
				args := e.Site.Common().Args
				if pi >= len(args) {
					return false, "caller arity"
				}
				if ok, why := okSource(args[pi], e.Caller.Func, d+1); !ok {
					return false, "via " + l.fname(e.Caller.Func) + ": " + why
				}
			}
			return true, ""
		case *ssa.Phi:
			for _, e := range x.Edges {
				if ok, why := okSource(e, fn, d+1); !ok {
					return false, why
				}
			}
			return true, ""
		}
		return false, "value `" + roleOf(l, v, "", 0) + "` is neither WorkingVersion() nor a node's stored version"
	}
	nsites := 0
	for _, fn := range l.SrcFuncs {
		if isPrintingUtility(fn) || strings.HasPrefix(l.fname(fn), "iavl.WriteDot") {
			continue
		}
		allInstrs(fn, func(in ssa.Instruction) {
			cc := callCommon(in)
			if cc == nil {
				return
			}
			f := staticCallee(cc)
			idx, isSink := sinks[f]
			if !isSink || idx >= len(cc.Args) {
				return
			}
			nsites++
			ok, why := okSource(cc.Args[idx], fn, 0)
			c.decide("FLOW-hash-version", l.fname(fn)+" → "+f.Name()+" version", l.ipos(in), ok,
				"the hashed version is WorkingVersion(), a stored node version, or a forwarded sink parameter",
				"a memoised hash can be computed for a version that is not the working version ("+why+"): with a configured initial version a read-only call changes the next commit's root hash")
		})
	}
	if nsites == 0 {
		c.anchorMissing("FLOW-hash-version", "no hashing call sites found")
	}

	// ---- (2b) a memoised hash never survives a structural change
	c.rule("TYPESTATE-stale-hash", "fields that enter the hash pre-image are written only on freshly copied nodes", 15)
	checkStaleHashV1(c)
	// the pre-image is expressed in these byte-level primitives (length prefix for every slice length, 32-byte hash form)
	c.rule("FORMAT-primitives", "length-prefixed bytes and 32-byte hash primitives", 2)
	checkFormatX(c, l, "FORMAT-primitives", "encoding.EncodeBytes", l.Func("internal/encoding", "EncodeBytes"), false, true, []string{"U(len(arg1)) W(arg1)"})
	checkVarintBoundaries(c, "FORMAT-primitives")
	checkFormatX(c, l, "FORMAT-primitives", "encoding.Encode32BytesHash", l.Func("internal/encoding", "Encode32BytesHash"), false, true, []string{"W(global:hashLenBz) W(arg1)"})
	c.rule("OWN-node-version", "a node's version (hashed into it) is fixed when the node is created or first keyed; re-keying keeps it", 1)
	checkNodeVersionOwner(c)
	// a Remove of an absent key must not replace the (persisted) root by an unsaved copy: the next commit would re-stamp it
	checkRemoveAbsent(c)

	// ---- (2c) documented rebalancing: which rotations, on which node, in which order
	c.rule("TABLE-balance", "rebalancing decision over balance factor × child balance factor", 15)
	checkBalanceTable(c, l, "TABLE-balance", "v1", l.Func("", "*MutableTree.balance"))

	checkTreeRules(c, l, map[string]bool{"insert": true, "remove": true, "rotate": true})

	// ---- (3)
	nodeT := l.NamedType("", "Node")
	nkT := l.NamedType("", "NodeKey")
	fHash := l.Field("", "Node", "hash")
	if nodeT == nil || nkT == nil || fHash == nil {
		c.anchorMissing("EFFECT-readonly", "Node / NodeKey / Node.hash")
		return
	}
	var entries []*ssa.Function
	addMethods := func(rel, tname string, only map[string]bool, exportedOnly bool) {
		n := l.NamedType(rel, tname)
		if n == nil {
			c.anchorMissing("EFFECT-readonly", tname)
			return
		}
		for _, m := range methodsOf(l, n) {
			if exportedOnly && !m.Object().Exported() {
				continue
			}
			if only != nil && !only[m.Name()] {
				continue
			}
			entries = append(entries, m)
		}
	}
	addMethods("", "ImmutableTree", nil, true)
	addMethods("", "Iterator", nil, true)
	addMethods("", "FastIterator", nil, true)
	addMethods("", "UnsavedFastIterator", nil, true)
	addMethods("", "NodeIterator", nil, true)
	addMethods("", "Exporter", nil, false)
	addMethods("", "MutableTree", map[string]bool{"Get": true, "Has": true, "Iterate": true, "Iterator": true, "GetVersioned": true, "GetImmutable": true,
		"Hash": true, "WorkingHash": true, "VersionExists": true, "AvailableVersions": true, "GetVersionedProof": true, "IsEmpty": true, "GetLatestVersion": true,
		"WorkingVersion": true, "IsUpgradeable": true}, true)
	reach := l.reachableFrom(entries...)
	type wr struct {
		fn *ssa.Function
		st *ssa.Store
		f  *types.Var
	}
	var writes []wr
	for fn := range reach {
		if !l.inModule(fn) || fn.Blocks == nil || strings.Contains(l.pkgPathOf(fn), "/mock") {
			continue
		}
		allInstrs(fn, func(in ssa.Instruction) {
			st, ok := in.(*ssa.Store)
			if !ok {
				return
			}
			fa, ok := st.Addr.(*ssa.FieldAddr)
			if !ok {
				return
			}
			n := derefNamed(fa.X.Type())
			if n == nil || (n.Obj() != nodeT.Obj() && n.Obj() != nkT.Obj()) {
				return
			}
			if _, fresh := stripTrivial(fa.X).(*ssa.Alloc); fresh {
				return
			}
			writes = append(writes, wr{fn, st, fieldVar(fa.X.Type(), fa.Field)})
		})
	}
	sort.Slice(writes, func(i, j int) bool {
		return l.fname(writes[i].fn)+writes[i].f.Name() < l.fname(writes[j].fn)+writes[j].f.Name()
	})
	c.note("read-only entry set: %d methods; %d functions reachable", len(entries), len(reach))
	if len(writes) == 0 {
		c.anchorMissing("EFFECT-readonly", "no node write reachable from the read-only API (the hash memo was expected)")
	}
	for _, w := range writes {
		key := "read-only API reaches " + l.fname(w.fn) + " store " + w.f.Name()
		if w.f == fHash {
			// guarded memo: the store is dominated by `hash == nil` (early return when hash != nil)
			fa := w.st.Addr.(*ssa.FieldAddr)
			guarded := false
			for _, b := range w.fn.Blocks {
				iff := ifOf(b)
				if iff == nil {
					continue
				}
				v, nn, ok := nilCond(iff.Cond)
				if !ok {
					continue
				}
				ld, isLd := stripTrivial(v).(*ssa.UnOp)
				if !isLd {
					continue
				}
				fa2, isFA := ld.X.(*ssa.FieldAddr)
				if !isFA || fieldVar(fa2.X.Type(), fa2.Field) != fHash || !sameValue(fa2.X, fa.X) {
					continue
				}
				if edgeDominates(b, 1-nn, w.st.Block()) {
					guarded = true
				}
			}
			c.decide("EFFECT-readonly", key, l.ipos(w.st), guarded, "hash memo written only when it is still nil", "the hash memo is overwritten without a `hash == nil` guard")
			continue
		}
		c.bad("EFFECT-readonly", key, l.ipos(w.st), "a read-only call can write field "+w.f.Name()+" of a node it did not allocate: reads perturb later hashing and race with other readers")
	}
}

// freeVarSource evaluates pred on the value bound to free variable fv in the
// enclosing function's MakeClosure.
func freeVarSource(l *Loaded, fn *ssa.Function, fv *ssa.FreeVar, pred func(b ssa.Value, parent *ssa.Function) (bool, string)) (bool, string) {
	parent := fn.Parent()
	if parent == nil {
		return false, "free variable without parent"
	}
	found := false
	res, why := true, ""
	allInstrs(parent, func(in ssa.Instruction) {
		mc, ok := in.(*ssa.MakeClosure)
		if !ok || mc.Fn != fn {
			return
		}
		for i, v := range fn.FreeVars {
			if v != fv {
				continue
			}
			found = true
			b := mc.Bindings[i]
			// captured by reference: binding is an Alloc; take what is stored into it
			if al, isAl := b.(*ssa.Alloc); isAl {
				for _, r := range refs(al) {
					if st, isSt := r.(*ssa.Store); isSt && st.Addr == al {
						if ok, w := pred(st.Val, parent); !ok {
							res, why = false, w
						}
					}
				}
				continue
			}
			if ok, w := pred(b, parent); !ok {
				res, why = false, w
			}
		}
	})
	if !found {
		return false, "closure binding not found"
	}
	return res, why
}

// checkStaleHashV1: key, value, size, height and the child pointers determine a
// node's hash.  A node's hash is memoised (WorkingHash, proofs), so these
// fields may be written only on a node whose memo is known to be empty: one
// allocated here or returned by a fresh-constructor (clone() resets the
// hash), or a parameter that is such at every caller.  `nodeKey == nil` is NOT
// enough: an unsaved node may already carry a memoised hash.
func checkStaleHashV1(c *Ctx) {
	l := c.L
	fa := &freshAnalysis{l: l, nodeT: l.NamedType("", "Node"), nkT: l.NamedType("", "NodeKey"), fNodeKey: l.Field("", "Node", "nodeKey"), fHash: l.Field("", "Node", "hash"),
		ctor: map[*ssa.Function]int{}, paramMemo: map[*ssa.Parameter]int{}, noUnsavedGuard: true}
	if fa.nodeT == nil || fa.fHash == nil {
		c.anchorMissing("TYPESTATE-stale-hash", "Node / Node.hash")
		return
	}
	structural := map[string]bool{"key": true, "value": true, "size": true, "subtreeHeight": true, "leftNode": true, "rightNode": true}
	exceptions := map[string]string{
		"(*iavl.MutableTree).saveNewNodes": "drops the in-memory child pointers after the node was hashed and queued (the pre-image uses the child hashes, already final)",
		"(*iavl.Importer).Add":             "drops the child pointers of importer-private nodes after they were hashed and written",
	}
	n := 0
	for _, fn := range l.SrcFuncs {
		if l.pkgPathOf(fn) != l.ModPath || isPrintingUtility(fn) {
			continue
		}
		top := fn
		for top.Parent() != nil {
			top = top.Parent()
		}
		allInstrs(fn, func(in ssa.Instruction) {
			st, ok := in.(*ssa.Store)
			if !ok {
				return
			}
			fad, ok := st.Addr.(*ssa.FieldAddr)
			if !ok {
				return
			}
			nn := derefNamed(fad.X.Type())
			if nn == nil || nn.Obj() != fa.nodeT.Obj() || !structural[fieldName(fad.X.Type(), fad.Field)] {
				return
			}
			n++
			key := l.fname(fn) + " store Node." + fieldName(fad.X.Type(), fad.Field)
			base := stripTrivial(fad.X)
			switch {
			case fa.freshValue(base, fn, 0, true):
				c.ok("TYPESTATE-stale-hash", key, l.ipos(st), "node allocated here / returned by a fresh-constructor (hash memo empty), or such at every caller")
			case hashNilGuard(base, st, fa.fHash):
				c.ok("TYPESTATE-stale-hash", key, l.ipos(st), "behind a `hash == nil` test")
			default:
				if why, ok := exceptions[l.fname(top)]; ok && (fieldName(fad.X.Type(), fad.Field) == "leftNode" || fieldName(fad.X.Type(), fad.Field) == "rightNode") && isNilConst(stripTrivial(st.Val)) {
					c.ok("TYPESTATE-stale-hash", key, l.ipos(st), "exception: "+why)
					return
				}
				c.bad("TYPESTATE-stale-hash", key, l.ipos(st), "a field that enters the hash pre-image is written on a node whose memoised hash may be set (base `"+roleOf(l, base, "", 0)+"` is not a fresh copy): the stale hash is committed, and the root hash then depends on whether a read-only hash query ran before")
			}
		})
	}
	if n == 0 {
		c.anchorMissing("TYPESTATE-stale-hash", "no structural node stores found")
	}
}

// checkNodeVersionOwner: the version a node is hashed with is the version in
// its node key.  That key may be assigned (a) to a node created in the same
// function, (b) to a node that has no key yet (guarded by `nodeKey == nil` /
// early return on `nodeKey != nil`), or (c) as a re-keying that copies an
// existing node's version.  Any other assignment gives a stored node a
// version different from the one its hash (and its parents' hashes) were
// computed with — e.g. an importer that files an inherited root under the
// import version.
func checkNodeVersionOwner(c *Ctx) {
	l := c.L
	const R = "OWN-node-version"
	fNK := l.Field("", "Node", "nodeKey")
	fVer := l.Field("", "NodeKey", "version")
	nkT := l.NamedType("", "NodeKey")
	if fNK == nil || fVer == nil || nkT == nil {
		c.anchorMissing(R, "Node.nodeKey / NodeKey.version")
		return
	}
	freshBase := func(v ssa.Value) bool {
		v = stripTrivial(v)
		if _, ok := v.(*ssa.Alloc); ok {
			return true
		}
		if ld, ok := v.(*ssa.UnOp); ok && ld.Op == token.MUL {
			if al, ok := ld.X.(*ssa.Alloc); ok {
				if s := storedInto(al); s != nil {
					_, isAl := stripTrivial(s).(*ssa.Alloc)
					return isAl
				}
			}
		}
		return false
	}
	n := 0
	for _, fn := range l.SrcFuncs {
		if l.pkgPathOf(fn) != l.ModPath {
			continue
		}
		allInstrs(fn, func(in ssa.Instruction) {
			st, ok := in.(*ssa.Store)
			if !ok {
				return
			}
			fa, ok := st.Addr.(*ssa.FieldAddr)
			if !ok {
				return
			}
			fv := fieldVar(fa.X.Type(), fa.Field)
			switch fv {
			case fVer:
				if freshBase(fa.X) {
					return // part of a NodeKey literal; judged where the literal is attached to a node
				}
				n++
				c.bad(R, l.fname(fn)+" writes NodeKey.version of an existing key", l.ipos(st), "the version of an existing node key is overwritten: the node's hash was computed with the old version")
			case fNK:
				if freshBase(fa.X) || isNilConst(st.Val) {
					return
				}
				n++
				key := l.fname(fn) + " assigns a node key to an existing node"
				// (b) node had no key: the store is not reachable with nodeKey != nil
				guarded := false
				for _, b := range fn.Blocks {
					iff := ifOf(b)
					if iff == nil {
						continue
					}
					v, nn, isNil := nilCond(iff.Cond)
					if !isNil || !isLoadOfField(fNK)(stripTrivial(v)) {
						continue
					}
					if edgeDominates(b, 1-nn, st.Block()) {
						guarded = true
					}
				}
				if guarded {
					c.ok(R, key, l.ipos(st), "only on the `nodeKey == nil` edge (first keying)")
					return
				}
				// (c) re-keying that copies an existing version
				role := "?"
				if al, ok := stripTrivial(st.Val).(*ssa.Alloc); ok {
					for _, rr := range refs(al) {
						if fa2, ok := rr.(*ssa.FieldAddr); ok && fieldVar(fa2.X.Type(), fa2.Field) == fVer {
							for _, r3 := range refs(fa2) {
								if s2, ok := r3.(*ssa.Store); ok {
									role = roleOf(l, s2.Val, "", 0)
								}
							}
						}
					}
				}
				c.decide(R, key, l.ipos(st), strings.HasSuffix(role, "nodeKey.version"), "re-keyed with the node's own version", "an existing (possibly inherited) node is given a key with version `"+role+"`: it is stored and hashed under a version it was not created in, so the root hash differs from the source tree / the reference")
			}
		})
	}
	if n < 1 {
		c.anchorMissing(R, "no node-key assignment to an existing node found (saveNewNodes)")
	}
}
