package main

import (
	"fmt"
	"go/token"
	"strings"

	"golang.org/x/tools/go/ssa"
)

func init() {
	register(&propCheck{id: "C16", needRoot: true, run: checkC16,
		explanation: "Decided statically (narrow; necessary conditions of reading a legacy database): (1) DOM — the dual-format node fetch dispatches consistently: the legacy decoder and the legacy key-space ('n' + hash) are used exactly on the `len(key) == 32` edge, the new decoder and key-space ('s' + version,nonce) on the other; a node's storage key is its hash iff it is marked legacy; (2) FORMAT — the legacy decoder marks the node legacy, takes its hash from the storage key and its version from the body (pinned legacy layout is decided under C13); (3) PASS — the root lookup falls back to the legacy root key-space before reporting that a version does not exist; (4) ORDER — pruning across the boundary deletes the legacy versions once and then marks the legacy range as gone. Added in the build round: TABLE-legacy-root — missing legacy root entry = version does not exist, empty entry = empty tree, else the root hash; TABLE-legacy-orphans — the legacy orphan callback walked for all 9 orderings of (from, L) × (to, L): node deleted iff (from <= L and to < L) or from > L; the cached first version leaves the legacy range after the legacy delete, and getFirstNonLegacyVersion stores what it found. NOT decided: that legacy contents, hashes, orphan records and the versions meant to remain are preserved over histories (depends on what the legacy database contains). Rules added in the later seeding rounds (each listed with what it decides in this file's rule table) are described in DESIGN.md §3 \"Third and fourth seeding rounds\" and Appendix C3–C5."})
}

func checkC16(c *Ctx) {
	l := c.L
	checkLegacyPruneAfterReaderScan(c, "DOM-legacy-prune-guards")
	checkMemoAfterIteratorVerdict(c, "ORDER-memo-after-verdict")
	c.rule("DOM-format-dispatch", "legacy / new decoder and key-space are selected by the key length consistently", 5)
	c.rule("FLOW-legacy-node", "legacy decoder: isLegacy set, hash from the storage key, version from the body", 3)
	c.rule("PASS-legacy-root-fallback", "root lookup consults the legacy root key-space before 'version does not exist'", 1)
	c.rule("ORDER-legacy-prune", "legacy versions are deleted before the legacy range is marked gone; the cached first version leaves the legacy range", 4)
	c.rule("TABLE-legacy-root", "legacy root lookup: missing entry = version does not exist, empty entry = empty tree, else the root hash", 3)
	c.rule("TABLE-legacy-orphans", "legacy orphan record (from, to) vs. latest legacy version L: node deleted iff (from <= L and to < L) or from > L", 9)

	getNode := l.Func("", "*nodeDB.GetNode")
	mk, mkLegacy := l.Func("", "MakeNode"), l.Func("", "MakeLegacyNode")
	nodeKeyF, legacyKeyF := l.Func("", "*nodeDB.nodeKey"), l.Func("", "*nodeDB.legacyNodeKey")
	if getNode == nil || mk == nil || mkLegacy == nil || nodeKeyF == nil || legacyKeyF == nil {
		c.anchorMissing("DOM-format-dispatch", "GetNode / MakeNode / MakeLegacyNode / nodeKey / legacyNodeKey")
	} else {
		// the dispatch flag: len(nk) == 32
		isFlag := func(v ssa.Value) bool {
			bo, ok := stripTrivial(v).(*ssa.BinOp)
			if !ok || bo.Op != token.EQL {
				return false
			}
			k, isC := constInt(bo.Y)
			if !isC || k != 32 {
				return false
			}
			call, ok := stripTrivial(bo.X).(*ssa.Call)
			if !ok {
				return false
			}
			b, ok := call.Call.Value.(*ssa.Builtin)
			return ok && b.Name() == "len" && isParam(getNode, "nk")(stripTrivial(call.Call.Args[0]))
		}
		legacyG := findGuards(getNode, func(cond ssa.Value) (bool, int) {
			if isFlag(cond) {
				return true, 0
			}
			return false, 0
		})
		newG := findGuards(getNode, func(cond ssa.Value) (bool, int) {
			if isFlag(cond) {
				return true, 1
			}
			if u, ok := stripTrivial(cond).(*ssa.UnOp); ok && u.Op == token.NOT && isFlag(u.X) {
				return true, 0
			}
			return false, 0
		})
		if len(legacyG) == 0 {
			c.bad("DOM-format-dispatch", "GetNode dispatch flag", l.pos(getNode.Pos()), "no branch on `len(nk) == 32` found")
		}
		check := func(f *ssa.Function, gs []guard, what string) {
			calls := callsIn(getNode, predStatic(f))
			if len(calls) == 0 {
				c.bad("DOM-format-dispatch", "GetNode uses "+f.Name(), l.pos(getNode.Pos()), f.Name()+" is no longer called")
			}
			for _, in := range calls {
				// `!isLegacy && buf == nil` style: accept domination by any guard of the right polarity, directly or through a conjunction
				ok := guardsEffect(gs, in)
				if !ok {
					// conjunction `buf == nil && !isLegcyNode`: the flag is tested in a block that dominates the call with the right edge
					for _, g := range gs {
						if g.iff.Block().Dominates(in.Block()) && !reachesWithout(g.iff.Block().Succs[1-g.pass], in.Block()) {
							ok = true
						}
					}
				}
				c.decide("DOM-format-dispatch", "GetNode "+f.Name()+" on the "+what+" edge", l.ipos(in), ok, "selected by `len(nk) == 32` with the right polarity", f.Name()+" is reachable on the wrong side of the key-length test: "+what+" nodes are decoded / addressed with the other format")
			}
		}
		check(mkLegacy, legacyG, "legacy")
		check(legacyKeyF, legacyG, "legacy")
		check(mk, newG, "new-format")
		check(nodeKeyF, newG, "new-format")
	}
	// Node.GetKey
	gk := l.Func("", "*Node.GetKey")
	fLegacy, fHash, fNK := l.Field("", "Node", "isLegacy"), l.Field("", "Node", "hash"), l.Field("", "Node", "nodeKey")
	if gk == nil || fLegacy == nil || fHash == nil || fNK == nil {
		c.anchorMissing("DOM-format-dispatch", "Node.GetKey / isLegacy / hash / nodeKey")
	} else {
		gs := findGuards(gk, func(cond ssa.Value) (bool, int) {
			if isLoadOfField(fLegacy)(stripTrivial(cond)) {
				return true, 0
			}
			return false, 0
		})
		ok := len(gs) > 0
		for _, r := range returnsOf(gk) {
			v := stripTrivial(retVal(r, 0))
			if isLoadOfField(fHash)(v) {
				ok = ok && guardsEffect(gs, r)
			} else if len(gs) > 0 && edgeDominates(gs[0].iff.Block(), 0, r.Block()) {
				ok = false
			}
		}
		c.decide("DOM-format-dispatch", "Node.GetKey = hash iff legacy", l.pos(gk.Pos()), ok, "the hash is the storage key exactly on the isLegacy edge", "Node.GetKey returns the wrong kind of key for the node's format")
	}
	// legacy decoder literal
	nodeT := l.NamedType("", "Node")
	if mkLegacy != nil && nodeT != nil {
		lits := structLiteralStores(mkLegacy, nodeT)
		if len(lits) != 1 {
			c.bad("FLOW-legacy-node", "MakeLegacyNode literal", l.pos(mkLegacy.Pos()), "expected one Node literal")
		} else {
			m := lits[0]
			isTrue := false
			if k, ok := stripTrivial(m["isLegacy"]).(*ssa.Const); ok && k.Value != nil && k.Value.String() == "true" {
				isTrue = true
			}
			c.decide("FLOW-legacy-node", "MakeLegacyNode marks the node legacy", l.pos(mkLegacy.Pos()), isTrue, "isLegacy: true", "a decoded legacy node is not marked legacy: its children are fetched from the wrong key-space")
			c.decide("FLOW-legacy-node", "MakeLegacyNode hash = storage key", l.pos(mkLegacy.Pos()), m["hash"] != nil && isParam(mkLegacy, "hash")(stripTrivial(m["hash"])), "hash: the key it was stored under", "the legacy node's hash is not the key it was stored under")
			verRole := roleOf(l, m["nodeKey"], "", 0)
			if nkT := l.NamedType("", "NodeKey"); nkT != nil {
				for _, km := range structLiteralStores(mkLegacy, nkT) {
					if v, ok := km["version"]; ok {
						verRole = roleOf(l, v, "", 0)
					}
				}
			}
			c.decide("FLOW-legacy-node", "MakeLegacyNode version from the body", l.pos(mkLegacy.Pos()), strings.Contains(verRole, "DecodeVarint"), "nodeKey.version is the decoded version", "legacy node version is `"+verRole+"`")
		}
	}
	// root fallback
	getRoot := l.Func("", "*nodeDB.GetRoot")
	lrk := l.Func("", "*nodeDB.legacyRootKey")
	if getRoot == nil || lrk == nil {
		c.anchorMissing("PASS-legacy-root-fallback", "GetRoot / legacyRootKey")
	} else {
		// every return of ErrVersionDoesNotExist that is not inside the reference-root branch passes legacyRootKey
		q := mustState(getRoot, false, func(in ssa.Instruction) bool { cc := callCommon(in); return cc != nil && predStatic(lrk)(cc) }, nil)
		isRefF := l.Func("", "isReferenceRoot")
		refPassed := mustState(getRoot, false, func(in ssa.Instruction) bool { cc := callCommon(in); return cc != nil && isRefF != nil && predStatic(isRefF)(cc) }, nil)
		ok, n := true, 0
		for _, r := range returnsOf(getRoot) {
			ev := stripTrivial(retVal(r, 1))
			ld, isLd := ev.(*ssa.UnOp)
			if !isLd {
				continue
			}
			g, isG := ld.X.(*ssa.Global)
			if !isG || g.Name() != "ErrVersionDoesNotExist" || refPassed(r) {
				continue
			}
			n++
			ok = ok && q(r)
		}
		c.decide("PASS-legacy-root-fallback", "GetRoot tries the legacy root key before 'version does not exist'", l.pos(getRoot.Pos()), ok && n > 0, "the not-found exit outside the reference-root branch passes the legacy lookup", "a version can be reported missing without consulting the legacy root key-space")
	}
	if getRoot != nil && lrk != nil {
		checkLegacyRootTable(c, getRoot, lrk)
	}
	c.rule("OWN-resolve-inputs", "node / root lookups depend on the key and the stored bytes only", 4)
	checkResolveInputs(c, "OWN-resolve-inputs")
	// across the boundary the same node is known by its hash (legacy) and by a node key (re-saved copy): shared subtrees are recognised by hash
	c.rule("DOM-shared-by-hash", "the change-set diff skips a subtree as shared only on pointer or hash equality", 1)
	if escF := l.Func("", "*nodeDB.extractStateChanges"); escF == nil {
		c.anchorMissing("DOM-shared-by-hash", "extractStateChanges")
	} else {
		checkSharedByHash(c, "DOM-shared-by-hash", escF, func(v ssa.Value) bool {
			return strings.Contains(roleOf(l, v, "", 0), "NewNodeIterator(arg1")
		})
	}
	if tow := l.Func("", "*nodeDB.traverseOrphansWithRootkeyCache"); tow != nil {
		checkSharedByHash(c, "DOM-shared-by-hash", tow, func(v ssa.Value) bool {
			return strings.Contains(roleOf(l, v, "", 0), ",arg1)#0")
		})
	}
	checkLegacyRootResave(c)
	checkLegacySyntheticKey(c)
	// a rollback into the legacy range also removes what later commits re-saved in the new key-space
	checkRollbackRange(c)
	checkLegacyRootConsumers(c, "DOM-legacy-empty-root")
	checkLegacyOrphanTable(c)
	// pruning across the boundary
	dvt := l.Func("", "*nodeDB.deleteVersionsTo")
	dlv := l.Func("", "*nodeDB.deleteLegacyVersions")
	rll := l.Func("", "*nodeDB.resetLegacyLatestVersion")
	if dvt == nil || dlv == nil || rll == nil {
		c.anchorMissing("ORDER-legacy-prune", "deleteVersionsTo / deleteLegacyVersions / resetLegacyLatestVersion")
	} else {
		dl := callsIn(dvt, predStatic(dlv))
		rs := callsIn(dvt, predStatic(rll))
		c.decide("ORDER-legacy-prune", "deleteVersionsTo deletes legacy versions", l.pos(dvt.Pos()), len(dl) == 1, "one call", "legacy pruning call missing or duplicated")
		ok := len(dl) == 1 && len(rs) >= 1
		for _, r := range rs {
			if len(dl) == 1 {
				if cl, isCall := dl[0].(*ssa.Call); isCall && !(instrDominates(cl, r) && okEdgeDominates(cl, r)) {
					ok = false
				}
			}
		}
		// once the legacy versions are gone the cached first version must leave the legacy range,
		// also when the per-version loop that follows does not run (pruning exactly to the boundary)
		rfv := l.Func("", "*nodeDB.resetFirstVersion")
		gfn := l.Func("", "*nodeDB.getFirstNonLegacyVersion")
		if rfv == nil || gfn == nil || len(dl) != 1 {
			c.anchorMissing("ORDER-legacy-prune", "resetFirstVersion / getFirstNonLegacyVersion")
		} else {
			isRefresh := func(in ssa.Instruction) bool { cc := callCommon(in); return cc != nil && predStatic(rfv, gfn)(cc) }
			escapes := reachableAfter(dl[0], func(x ssa.Instruction) bool {
				r, isRet := x.(*ssa.Return)
				return isRet && !isRecoverReturn(r) && errNilness(retVal(r, 0), r.Block(), 0) <= 0
			}, isRefresh)
			c.decide("ORDER-legacy-prune", "first version refreshed after the legacy range was deleted", l.ipos(dl[0]), len(escapes) == 0, "every success path after deleteLegacyVersions passes getFirstNonLegacyVersion / resetFirstVersion",
				"deleteVersionsTo can succeed after deleting the legacy versions without refreshing the cached first version")
			pass := mustState(gfn, false, func(in ssa.Instruction) bool { cc := callCommon(in); return cc != nil && predStatic(rfv)(cc) }, nil)
			okG := true
			for _, r := range successReturns(gfn) {
				okG = okG && pass(r)
			}
			c.decide("ORDER-legacy-prune", "getFirstNonLegacyVersion stores the version it found", l.pos(gfn.Pos()), okG, "every success return passes resetFirstVersion",
				"the first non-legacy version is computed but not cached: after a prune exactly at the boundary the handle keeps reporting the deleted legacy versions as available")
		}
		c.decide("ORDER-legacy-prune", "legacy range marked gone only after a successful legacy delete", l.pos(dvt.Pos()), ok, "resetLegacyLatestVersion is dominated by the nil-error edge of deleteLegacyVersions", "the legacy boundary is reset although the legacy versions were not (successfully) deleted")
	}
}

// reachesWithout: can control reach block `to` starting at `from`?
func reachesWithout(from, to *ssa.BasicBlock) bool {
	seen := map[*ssa.BasicBlock]bool{}
	var dfs func(b *ssa.BasicBlock) bool
	dfs = func(b *ssa.BasicBlock) bool {
		if b == to {
			return true
		}
		if seen[b] {
			return false
		}
		seen[b] = true
		for _, s := range b.Succs {
			if dfs(s) {
				return true
			}
		}
		return false
	}
	return dfs(from)
}

// checkLegacyRootTable: three outcomes of the legacy root lookup.
func checkLegacyRootTable(c *Ctx, getRoot, lrk *ssa.Function) {
	l := c.L
	const R = "TABLE-legacy-root"
	// the Get whose key comes from legacyRootKey
	var v ssa.Value
	var at ssa.Instruction
	allInstrs(getRoot, func(in ssa.Instruction) {
		cc := callCommon(in)
		if cc == nil || !cc.IsInvoke() || cc.Method.Name() != "Get" || len(cc.Args) == 0 {
			return
		}
		if isResultOf(predStatic(lrk), -1)(stripTrivial(cc.Args[0])) {
			if e := extractOf(in.(ssa.Value), 0); e != nil {
				v, at = e, in
			}
		}
	})
	if v == nil {
		c.anchorMissing(R, "legacy root Get in GetRoot")
		return
	}
	isErrNotExist := func(r *ssa.Return) bool {
		ld, ok := stripTrivial(retVal(r, 1)).(*ssa.UnOp)
		if !ok {
			return false
		}
		g, ok := ld.X.(*ssa.Global)
		return ok && g.Name() == "ErrVersionDoesNotExist"
	}
	// nil test on v
	var nilG []guard // pass = non-nil edge
	for _, b := range getRoot.Blocks {
		iff := ifOf(b)
		if iff == nil {
			continue
		}
		if x, nn, ok := nilCond(iff.Cond); ok && stripTrivial(x) == v {
			nilG = append(nilG, guard{iff, nn})
		}
	}
	okNil := len(nilG) > 0
	for _, g := range nilG {
		// the nil edge leads to ErrVersionDoesNotExist only
		searchFrom([]point{blockStart(g.iff.Block().Succs[1-g.pass])}, func(in ssa.Instruction) bool {
			if r, ok := in.(*ssa.Return); ok {
				if !isErrNotExist(r) {
					okNil = false
				}
				return true
			}
			return false
		})
	}
	c.decide(R, "legacy root entry missing ⇒ ErrVersionDoesNotExist", l.ipos(at), okNil, "the nil edge returns ErrVersionDoesNotExist", "no `entry == nil ⇒ version does not exist` decision on the legacy root lookup")
	// after the legacy lookup, 'does not exist' only on the nil edge (an EMPTY entry is an empty tree, not a missing version)
	okOnly := true
	searchFrom([]point{after(at)}, func(in ssa.Instruction) bool {
		if r, ok := in.(*ssa.Return); ok {
			if isErrNotExist(r) {
				onNil := false
				for _, g := range nilG {
					if edgeDominates(g.iff.Block(), 1-g.pass, r.Block()) {
						onNil = true
					}
				}
				if !onNil {
					okOnly = false
				}
			}
			return true
		}
		return false
	})
	c.decide(R, "legacy root entry present but empty is not 'version does not exist'", l.ipos(at), okOnly, "'does not exist' is returned only on the nil edge", "an empty legacy root entry (the legacy encoding of an empty tree) is reported as a missing version: such versions cannot be loaded and a database whose latest legacy version is empty cannot be opened")
	// empty ⇒ (nil, nil)
	okEmpty := false
	for _, b := range getRoot.Blocks {
		iff := ifOf(b)
		if iff == nil {
			continue
		}
		bo, ok := stripTrivial(iff.Cond).(*ssa.BinOp)
		if !ok || bo.Op != token.EQL {
			continue
		}
		k, isK := constInt(bo.Y)
		call, isCall := stripTrivial(bo.X).(*ssa.Call)
		if !isK || k != 0 || !isCall {
			continue
		}
		if bi, ok := call.Call.Value.(*ssa.Builtin); !ok || bi.Name() != "len" || stripTrivial(call.Call.Args[0]) != v {
			continue
		}
		good := true
		searchFrom([]point{blockStart(b.Succs[0])}, func(in ssa.Instruction) bool {
			if r, ok := in.(*ssa.Return); ok {
				if !isNilConst(stripTrivial(retVal(r, 0))) || !isNilConst(stripTrivial(retVal(r, 1))) {
					good = false
				}
				return true
			}
			return false
		})
		okEmpty = good
	}
	c.decide(R, "legacy root entry empty ⇒ empty tree (nil root, no error)", l.ipos(at), okEmpty, "len == 0 edge returns (nil, nil)", "no `len(entry) == 0 ⇒ (nil, nil)` decision on the legacy root lookup")
}

// checkLegacyOrphanTable walks the legacy-orphan callback of
// deleteLegacyVersions for every ordering of (from, L) and (to, L).  `to` is
// the LAST version in which the node is live, so a node with to == L is still
// used by the latest legacy version (and by the new-format versions on top).
func checkLegacyOrphanTable(c *Ctx) {
	l := c.L
	const R = "TABLE-legacy-orphans"
	dlv := l.Func("", "*nodeDB.deleteLegacyVersions")
	dfp := l.Func("", "*nodeDB.deleteFromPruning")
	if dlv == nil || dfp == nil {
		c.anchorMissing(R, "deleteLegacyVersions / deleteFromPruning")
		return
	}
	// the callback that scans an orphan key into two locals
	var cb *ssa.Function
	var aTo, aFrom ssa.Value
	for _, af := range dlv.AnonFuncs {
		allInstrs(af, func(in ssa.Instruction) {
			cc := callCommon(in)
			if cc == nil {
				return
			}
			f := staticCallee(cc)
			if f == nil || f.Name() != "Scan" || len(cc.Args) < 3 {
				return
			}
			vals, ok := variadicValues(cc.Args[2])
			if !ok || len(vals) != 2 {
				return
			}
			un := func(v ssa.Value) ssa.Value {
				if mi, ok := v.(*ssa.MakeInterface); ok {
					return mi.X
				}
				return v
			}
			cb, aTo, aFrom = af, un(vals[0]), un(vals[1])
		})
	}
	if cb == nil {
		c.anchorMissing(R, "legacy orphan callback (Scan of to / from)")
		return
	}
	classify := func(v ssa.Value) string {
		v = stripTrivial(v)
		if ld, ok := v.(*ssa.UnOp); ok && ld.Op == token.MUL {
			if ld.X == aTo {
				return "to"
			}
			if ld.X == aFrom {
				return "from"
			}
		}
		if _, ok := v.(*ssa.Const); ok {
			return ""
		}
		return "L"
	}
	for _, fromOrd := range []int{-1, 0, 1} {
		for _, toOrd := range []int{-1, 0, 1} {
			ord := map[string]int{"from": fromOrd, "to": toOrd}
			env := &walkEnv{evalAtom: func(w *walker, v ssa.Value) int {
				bo, ok := v.(*ssa.BinOp)
				if !ok {
					return 0
				}
				a, b := classify(bo.X), classify(bo.Y)
				switch {
				case a != "" && a != "L" && b == "L":
					return cmpHolds(bo.Op, ord[a])
				case a == "L" && b != "" && b != "L":
					return cmpHolds(bo.Op, -ord[b])
				}
				if bo.Op == token.AND || bo.Op == token.OR || bo.Op == token.NEQ || bo.Op == token.EQL {
					// nil tests of err etc.: not decided here
				}
				return 0
			}}
			w := &walker{env: env, vals: map[ssa.Value]int{}}
			deleted := false
			w.onCall = func(w *walker, call *ssa.Call) {
				if predStatic(dfp)(&call.Call) {
					deleted = true
				}
			}
			// start after the Scan: the callback begins with a decode / error check we do not model;
			// walk from the block containing the first comparison of from/to
			var start *ssa.BasicBlock
			for _, b := range cb.Blocks {
				if start != nil {
					break
				}
				for _, in := range b.Instrs {
					if bo, ok := in.(*ssa.BinOp); ok && (classify(bo.X) == "from" || classify(bo.X) == "to" || classify(bo.Y) == "from" || classify(bo.Y) == "to") {
						start = b
						break
					}
				}
			}
			names := map[int]string{-1: "<", 0: "=", 1: ">"}
			key := fmt.Sprintf("legacy orphan from %s L, to %s L", names[fromOrd], names[toOrd])
			if start == nil {
				c.bad(R, key, l.pos(cb.Pos()), "no comparison of the orphan's from/to versions with the latest legacy version found")
				continue
			}
			ret, stuck := w.runFrom(start, nil)
			want := (fromOrd <= 0 && toOrd < 0) || fromOrd > 0
			if ret == nil {
				pos := l.pos(cb.Pos())
				if stuck != nil {
					pos = l.ipos(stuck)
				}
				c.undecided(R, key, pos, "the walk of the callback could not decide a branch")
				continue
			}
			got := "kept"
			if deleted {
				got = "deleted"
			}
			exp := "kept"
			if want {
				exp = "deleted"
			}
			c.decide(R, key, l.pos(cb.Pos()), deleted == want, "node "+got, "node is "+got+", must be "+exp+": `to` is the last version in which the node is live, so to == L means the latest legacy version (and the new-format versions built on it) still use it")
		}
	}
}

// checkLegacyRootResave: a commit whose root is an already stored LEGACY node
// (no new nodes: `root.nodeKey != nil`) writes a reference to (version, nonce)
// of that node — a key-space in which the legacy node does not exist.  The
// node is therefore re-saved in the new format on EVERY such commit: on the
// `isLegacy` edge every success return passes SaveNode(root), and the edge is
// not narrowed by a further condition (a legacy subtree promoted to root by a
// removals-only commit is such a root too).
func checkLegacyRootResave(c *Ctx) {
	l := c.L
	const R = "PASS-legacy-root-resave"
	c.rule(R, "a commit that references a legacy root re-saves that root in the new format", 1)
	sv := l.Func("", "*MutableTree.SaveVersion")
	saveRoot := l.Func("", "*nodeDB.SaveRoot")
	saveNode := l.Func("", "*nodeDB.SaveNode")
	fLegacy := l.Field("", "Node", "isLegacy")
	if sv == nil || saveRoot == nil || saveNode == nil || fLegacy == nil {
		c.anchorMissing(R, "SaveVersion / SaveRoot / SaveNode / Node.isLegacy")
		return
	}
	// edges on which the root is known NOT to be legacy
	notLegacy := func(from *ssa.BasicBlock, si int) bool {
		iff := ifOf(from)
		if iff == nil {
			return false
		}
		v := stripTrivial(iff.Cond)
		return isLoadOfField(fLegacy)(v) && si == 1
	}
	isSave := func(in ssa.Instruction) bool { cc := callCommon(in); return cc != nil && predStatic(saveNode)(cc) }
	isRef := func(in ssa.Instruction) bool { cc := callCommon(in); return cc != nil && predStatic(saveRoot)(cc) }
	// "no reference root pending a re-save": true at entry, false after SaveRoot, true again after SaveNode / on the not-legacy edge
	// the statements may live in a helper method SaveVersion delegates to (one level)
	if len(callsIn(sv, predStatic(saveRoot))) == 0 {
		for _, in := range callsIn(sv, func(cc *ssa.CallCommon) bool {
			g := staticCallee(cc)
			return g != nil && l.inModule(g) && len(g.Blocks) > 0 && len(callsIn(g, predStatic(saveRoot))) > 0
		}) {
			sv = staticCallee(callCommon(in))
		}
	}
	q := mustStateE(sv, true, isSave, isRef, notLegacy)
	n := 0
	for _, in := range callsIn(sv, predStatic(saveRoot)) {
		n++
		// every success return reachable after the reference was queued has passed SaveNode or the not-legacy edge
		ok := true
		var bad ssa.Instruction
		searchFrom([]point{after(in)}, func(x ssa.Instruction) bool {
			if r, isRet := x.(*ssa.Return); isRet {
				if errNilness(retVal(r, errResultIndex(sv.Signature)), r.Block(), 0) <= 0 && !q(r) {
					ok, bad = false, r
				}
				return true
			}
			return false
		})
		pos := l.ipos(in)
		if bad != nil {
			pos = l.ipos(bad)
		}
		c.decide(R, "SaveVersion: reference root ⇒ a legacy root is re-saved", pos, ok, "every success path passes SaveNode(root) or the `not legacy` edge", "a commit can reference a legacy root without re-saving it in the new format (the legacy test is narrowed by another condition or the save is skipped): the reference points at a node key under which nothing is stored, and the committed version cannot be loaded")
	}
	if n == 0 {
		c.anchorMissing(R, "SaveVersion no longer calls SaveRoot")
	}
}

// checkLegacySyntheticKey: a node decoded from the legacy format carries the
// synthetic node key (its legacy version, nonce 0); that key is the same for
// EVERY legacy node of that version.  Writing such a node under that key is
// only collision-free if at most one node per legacy version is ever re-saved.
// Decided: no SaveNode call is reachable on the `isLegacy` edge of its
// argument.  (Today SaveVersion does exactly that for a legacy root: known
// finding — two legacy nodes of one version promoted to root by successive
// commits overwrite each other.)
func checkLegacySyntheticKey(c *Ctx) {
	l := c.L
	const R = "OWN-legacy-synthetic-key"
	c.rule(R, "a node decoded from the legacy format is not stored under its synthetic (legacy version, 0) node key", 1)
	saveNode := l.Func("", "*nodeDB.SaveNode")
	fLegacy := l.Field("", "Node", "isLegacy")
	if saveNode == nil || fLegacy == nil {
		c.anchorMissing(R, "nodeDB.SaveNode / Node.isLegacy")
		return
	}
	n := 0
	for _, fn := range l.SrcFuncs {
		if l.pkgPathOf(fn) != l.ModPath {
			continue
		}
		for _, in := range callsIn(fn, predStatic(saveNode)) {
			arg := stripTrivial(callCommon(in).Args[1])
			path := accessPath(arg)
			onLegacy := false
			for _, b := range fn.Blocks {
				iff := ifOf(b)
				if iff == nil {
					continue
				}
				v := stripTrivial(iff.Cond)
				if !isLoadOfField(fLegacy)(v) {
					continue
				}
				ld := v.(*ssa.UnOp)
				fa := ld.X.(*ssa.FieldAddr)
				if (accessPath(stripTrivial(fa.X)) == path || stripTrivial(fa.X) == arg) && edgeDominates(b, 0, in.Block()) {
					onLegacy = true
				}
			}
			n++
			key := l.fname(fn) + " saves " + path
			if onLegacy {
				key = "SaveNode(" + path + ") on the isLegacy edge of the saved node" // independent of the function the statements live in
			}
			c.decide(R, key, l.ipos(in), !onLegacy, "not on an `isLegacy` edge of the saved node",
				"a node known to come from the legacy format is saved under its own node key, which is (legacy version, 0) for every legacy node of that version: a second such node of the same version overwrites the first, and the version that referenced the first silently gets another root")
		}
	}
	if n < 2 {
		c.anchorMissing(R, "fewer than 2 SaveNode call sites")
	}
}

// nonEmptyGuards: Ifs of fn testing len(x) against zero for an x accepted by
// isX; pass is the edge on which x is non-empty.
func nonEmptyGuards(fn *ssa.Function, isX func(ssa.Value) bool) []guard {
	return findGuards(fn, func(cond ssa.Value) (bool, int) {
		b, ok := cond.(*ssa.BinOp)
		if !ok {
			return false, 0
		}
		lenOf := func(v ssa.Value) bool {
			call, ok := stripTrivial(v).(*ssa.Call)
			if !ok || len(call.Call.Args) != 1 {
				return false
			}
			bi, ok := call.Call.Value.(*ssa.Builtin)
			return ok && bi.Name() == "len" && isX(stripTrivial(call.Call.Args[0]))
		}
		if lenOf(b.X) {
			if z, isC := constInt(b.Y); isC {
				switch {
				case z == 0 && b.Op == token.EQL:
					return true, 1
				case z == 0 && (b.Op == token.NEQ || b.Op == token.GTR):
					return true, 0
				case z == 1 && b.Op == token.GEQ:
					return true, 0
				case z == 1 && b.Op == token.LSS:
					return true, 1
				}
			}
		}
		if lenOf(b.Y) {
			if z, isC := constInt(b.X); isC && z == 0 {
				switch b.Op {
				case token.EQL:
					return true, 1
				case token.NEQ, token.LSS:
					return true, 0
				}
			}
		}
		return false, 0
	})
}

// checkLegacyRootConsumers (shared by C16, C09): a legacy root record with an
// empty value is the root of an EMPTY version (GetRoot says so).  Whoever walks
// the legacy root records and hands a record's value on as a node key must
// leave the empty one out: there is no node to read, and the node reader fails
// (it used to index the key) on a zero-length key.
func checkLegacyRootConsumers(c *Ctx, rule string) {
	l := c.L
	c.rule(rule, "walks over legacy root records do not read a node for the empty root", 1)
	dvf := l.Func("", "*nodeDB.DeleteVersionsFrom")
	getNode := l.Func("", "*nodeDB.GetNode")
	if dvf == nil || getNode == nil {
		c.anchorMissing(rule, "nodeDB.DeleteVersionsFrom / GetNode")
		return
	}
	reach := l.reachableFrom
	n := 0
	for _, cb := range dvf.AnonFuncs {
		if len(cb.Params) < 2 {
			continue
		}
		val := cb.Params[1]
		gs := nonEmptyGuards(cb, func(v ssa.Value) bool { return v == ssa.Value(val) })
		allInstrs(cb, func(in ssa.Instruction) {
			cc := callCommon(in)
			if cc == nil {
				return
			}
			f := staticCallee(cc)
			if f == nil || !l.inModule(f) {
				return
			}
			argIdx := -1
			for i, a := range cc.Args {
				if stripTrivial(a) == ssa.Value(val) {
					argIdx = i
				}
			}
			if argIdx < 0 || !reach(f)[getNode] && f != getNode {
				return
			}
			n++
			ok := guardsEffect(gs, in)
			if !ok && argIdx < len(f.Params) {
				// or the callee leaves on an empty key before anything else
				p := f.Params[argIdx]
				for _, g := range nonEmptyGuards(f, func(v ssa.Value) bool { return v == ssa.Value(p) }) {
					if g.iff.Block() == f.Blocks[0] {
						ok = true
					}
				}
			}
			c.decide(rule, l.fname(cb)+" hands a legacy root value to "+l.fname(f), l.ipos(in), ok,
				"behind a non-empty test of the record's value",
				"the value of a legacy root record is handed on as a node key without a non-empty test: the record of an empty version has an empty value, the node read fails on it, and a rollback across an empty legacy version fails (it panicked before GetNode checked the key length)")
		})
	}
	if n == 0 {
		c.anchorMissing(rule, "no legacy root record consumer found in DeleteVersionsFrom")
	}
	// ... and whatever it does with the nodes, the callback deletes the root RECORD of every version it is handed
	// (also the record of an empty version: an erased version whose record stays is still listed, and re-committing
	// its number is checked against the stale record)
	for _, cb := range dvf.AnonFuncs {
		if len(cb.Params) < 2 {
			continue
		}
		key := cb.Params[0]
		var delOf func(f *ssa.Function, p *ssa.Parameter, depth int) func(ssa.Instruction) bool
		delOf = func(f *ssa.Function, p *ssa.Parameter, depth int) func(ssa.Instruction) bool {
			return func(in ssa.Instruction) bool {
				cc := callCommon(in)
				if cc == nil {
					return false
				}
				if cc.IsInvoke() && cc.Method.Name() == "Delete" && len(cc.Args) == 1 && stripTrivial(cc.Args[0]) == ssa.Value(p) {
					return true
				}
				g := staticCallee(cc)
				if g == nil || !l.inModule(g) || depth >= 2 || len(g.Blocks) == 0 {
					return false
				}
				for i, a := range cc.Args {
					if stripTrivial(a) == ssa.Value(p) && i < len(g.Params) {
						q := mustState(g, false, delOf(g, g.Params[i], depth+1), nil)
						all := true
						for _, r := range successReturns(g) {
							all = all && q(r)
						}
						if all {
							return true
						}
					}
				}
				return false
			}
		}
		isDel := delOf(cb, key, 0)
		q := mustState(cb, false, isDel, nil)
		ok := true
		var bad ssa.Instruction
		for _, r := range returnsOf(cb) {
			v := stripTrivial(retVal(r, 0))
			if call, isCall := v.(*ssa.Call); isCall && isDel(call) {
				continue
			}
			if errNilness(v, r.Block(), 0) > 0 {
				continue
			}
			if !q(r) {
				ok, bad = false, r
			}
		}
		pos := l.pos(cb.Pos())
		if bad != nil {
			pos = l.ipos(bad)
		}
		c.decide(rule, l.fname(cb)+" deletes the root record of every erased legacy version", pos, ok, "every success return passes a Delete of the record's key",
			"the rollback's legacy walk can leave the root record of an erased version in place (e.g. an early return for the empty version): the version is still listed, the latest legacy version points above the rollback target, and re-committing its number is compared with the stale record")
	}
}

// checkLegacyPruneAfterReaderScan (C16; the same obligation is part of C04's
// DOM-prune-guards): the bulk deletion of the legacy versions in
// deleteVersionsTo runs only after the scan of open version readers, whose
// range still covers the legacy versions at that point (the scan uses `first`,
// which the legacy block moves to the first new-format version afterwards).
func checkLegacyPruneAfterReaderScan(c *Ctx, rule string) {
	l := c.L
	c.rule(rule, "legacy versions are deleted only after the scan of open readers", 1)
	dvt := l.Func("", "*nodeDB.deleteVersionsTo")
	dlv := l.Func("", "*nodeDB.deleteLegacyVersions")
	fReaders := l.Field("", "nodeDB", "versionReaders")
	if dvt == nil || dlv == nil || fReaders == nil {
		c.anchorMissing(rule, "deleteVersionsTo / deleteLegacyVersions / versionReaders")
		return
	}
	rng, errExit := readerScan(l, dvt, fReaders)
	n := 0
	for _, in := range callsIn(dvt, predStatic(dlv)) {
		n++
		c.decide(rule, "deleteVersionsTo deletes the legacy versions after the reader scan", l.ipos(in), rng != nil && errExit && instrDominates(rng, in),
			"dominated by the scan of versionReaders (which has an error exit)",
			"the legacy versions are deleted before (or without) the scan of open version readers: an export pinned on a legacy version loses its nodes while it runs")
	}
	if n == 0 {
		c.anchorMissing(rule, "deleteVersionsTo no longer calls deleteLegacyVersions")
	}
}
