package main

import (
	"go/token"
	"strings"

	"golang.org/x/tools/go/ssa"
)

func init() {
	register(&propCheck{id: "C16", needRoot: true, run: checkC16,
		explanation: "Decided statically (narrow; necessary conditions of reading a legacy database): (1) DOM — the dual-format node fetch dispatches consistently: the legacy decoder and the legacy key-space ('n' + hash) are used exactly on the `len(key) == 32` edge, the new decoder and key-space ('s' + version,nonce) on the other; a node's storage key is its hash iff it is marked legacy; (2) FORMAT — the legacy decoder marks the node legacy, takes its hash from the storage key and its version from the body (pinned legacy layout is decided under C13); (3) PASS — the root lookup falls back to the legacy root key-space before reporting that a version does not exist; (4) ORDER — pruning across the boundary deletes the legacy versions once and then marks the legacy range as gone. NOT decided: that legacy contents, hashes, orphan records and the versions meant to remain are preserved over histories (depends on what the legacy database contains)."})
}

func checkC16(c *Ctx) {
	l := c.L
	c.rule("DOM-format-dispatch", "legacy / new decoder and key-space are selected by the key length consistently", 5)
	c.rule("FLOW-legacy-node", "legacy decoder: isLegacy set, hash from the storage key, version from the body", 3)
	c.rule("PASS-legacy-root-fallback", "root lookup consults the legacy root key-space before 'version does not exist'", 1)
	c.rule("ORDER-legacy-prune", "legacy versions are deleted before the legacy range is marked gone", 2)

	getNode := l.Func("", "*nodeDB.GetNode")
	mk, mkLegacy := l.Func("", "MakeNode"), l.Func("", "MakeLegacyNode")
	nodeKeyF, legacyKeyF := l.Func("", "*nodeDB.nodeKey"), l.Func("", "*nodeDB.legacyNodeKey")
	if getNode == nil || mk == nil || mkLegacy == nil || nodeKeyF == nil || legacyKeyF == nil {
		c.anchorMissing("DOM-format-dispatch", "GetNode / MakeNode / MakeLegacyNode / nodeKey / legacyNodeKey")
	} else {
		// the dispatch flag: len(nk) == 32
		isFlag := func(v ssa.Value) bool {
			bo, ok := stripTrivial(v).(*ssa.BinOp)
			if !ok || bo.Op != token.EQL {
				return false
			}
			k, isC := constInt(bo.Y)
			if !isC || k != 32 {
				return false
			}
			call, ok := stripTrivial(bo.X).(*ssa.Call)
			if !ok {
				return false
			}
			b, ok := call.Call.Value.(*ssa.Builtin)
			return ok && b.Name() == "len" && isParam(getNode, "nk")(stripTrivial(call.Call.Args[0]))
		}
		legacyG := findGuards(getNode, func(cond ssa.Value) (bool, int) {
			if isFlag(cond) {
				return true, 0
			}
			return false, 0
		})
		newG := findGuards(getNode, func(cond ssa.Value) (bool, int) {
			if isFlag(cond) {
				return true, 1
			}
			if u, ok := stripTrivial(cond).(*ssa.UnOp); ok && u.Op == token.NOT && isFlag(u.X) {
				return true, 0
			}
			return false, 0
		})
		if len(legacyG) == 0 {
			c.bad("DOM-format-dispatch", "GetNode dispatch flag", l.pos(getNode.Pos()), "no branch on `len(nk) == 32` found")
		}
		check := func(f *ssa.Function, gs []guard, what string) {
			calls := callsIn(getNode, predStatic(f))
			if len(calls) == 0 {
				c.bad("DOM-format-dispatch", "GetNode uses "+f.Name(), l.pos(getNode.Pos()), f.Name()+" is no longer called")
			}
			for _, in := range calls {
				// `!isLegacy && buf == nil` style: accept domination by any guard of the right polarity, directly or through a conjunction
				ok := guardsEffect(gs, in)
				if !ok {
					// conjunction `buf == nil && !isLegcyNode`: the flag is tested in a block that dominates the call with the right edge
					for _, g := range gs {
						if g.iff.Block().Dominates(in.Block()) && !reachesWithout(g.iff.Block().Succs[1-g.pass], in.Block()) {
							ok = true
						}
					}
				}
				c.decide("DOM-format-dispatch", "GetNode "+f.Name()+" on the "+what+" edge", l.ipos(in), ok, "selected by `len(nk) == 32` with the right polarity", f.Name()+" is reachable on the wrong side of the key-length test: "+what+" nodes are decoded / addressed with the other format")
			}
		}
		check(mkLegacy, legacyG, "legacy")
		check(legacyKeyF, legacyG, "legacy")
		check(mk, newG, "new-format")
		check(nodeKeyF, newG, "new-format")
	}
	// Node.GetKey
	gk := l.Func("", "*Node.GetKey")
	fLegacy, fHash, fNK := l.Field("", "Node", "isLegacy"), l.Field("", "Node", "hash"), l.Field("", "Node", "nodeKey")
	if gk == nil || fLegacy == nil || fHash == nil || fNK == nil {
		c.anchorMissing("DOM-format-dispatch", "Node.GetKey / isLegacy / hash / nodeKey")
	} else {
		gs := findGuards(gk, func(cond ssa.Value) (bool, int) {
			if isLoadOfField(fLegacy)(stripTrivial(cond)) {
				return true, 0
			}
			return false, 0
		})
		ok := len(gs) > 0
		for _, r := range returnsOf(gk) {
			v := stripTrivial(retVal(r, 0))
			if isLoadOfField(fHash)(v) {
				ok = ok && guardsEffect(gs, r)
			} else if len(gs) > 0 && edgeDominates(gs[0].iff.Block(), 0, r.Block()) {
				ok = false
			}
		}
		c.decide("DOM-format-dispatch", "Node.GetKey = hash iff legacy", l.pos(gk.Pos()), ok, "the hash is the storage key exactly on the isLegacy edge", "Node.GetKey returns the wrong kind of key for the node's format")
	}
	// legacy decoder literal
	nodeT := l.NamedType("", "Node")
	if mkLegacy != nil && nodeT != nil {
		lits := structLiteralStores(mkLegacy, nodeT)
		if len(lits) != 1 {
			c.bad("FLOW-legacy-node", "MakeLegacyNode literal", l.pos(mkLegacy.Pos()), "expected one Node literal")
		} else {
			m := lits[0]
			isTrue := false
			if k, ok := stripTrivial(m["isLegacy"]).(*ssa.Const); ok && k.Value != nil && k.Value.String() == "true" {
				isTrue = true
			}
			c.decide("FLOW-legacy-node", "MakeLegacyNode marks the node legacy", l.pos(mkLegacy.Pos()), isTrue, "isLegacy: true", "a decoded legacy node is not marked legacy: its children are fetched from the wrong key-space")
			c.decide("FLOW-legacy-node", "MakeLegacyNode hash = storage key", l.pos(mkLegacy.Pos()), m["hash"] != nil && isParam(mkLegacy, "hash")(stripTrivial(m["hash"])), "hash: the key it was stored under", "the legacy node's hash is not the key it was stored under")
			verRole := roleOf(l, m["nodeKey"], "", 0)
			if nkT := l.NamedType("", "NodeKey"); nkT != nil {
				for _, km := range structLiteralStores(mkLegacy, nkT) {
					if v, ok := km["version"]; ok {
						verRole = roleOf(l, v, "", 0)
					}
				}
			}
			c.decide("FLOW-legacy-node", "MakeLegacyNode version from the body", l.pos(mkLegacy.Pos()), strings.Contains(verRole, "DecodeVarint"), "nodeKey.version is the decoded version", "legacy node version is `"+verRole+"`")
		}
	}
	// root fallback
	getRoot := l.Func("", "*nodeDB.GetRoot")
	lrk := l.Func("", "*nodeDB.legacyRootKey")
	if getRoot == nil || lrk == nil {
		c.anchorMissing("PASS-legacy-root-fallback", "GetRoot / legacyRootKey")
	} else {
		// every return of ErrVersionDoesNotExist that is not inside the reference-root branch passes legacyRootKey
		q := mustState(getRoot, false, func(in ssa.Instruction) bool { cc := callCommon(in); return cc != nil && predStatic(lrk)(cc) }, nil)
		isRefF := l.Func("", "isReferenceRoot")
		refPassed := mustState(getRoot, false, func(in ssa.Instruction) bool { cc := callCommon(in); return cc != nil && isRefF != nil && predStatic(isRefF)(cc) }, nil)
		ok, n := true, 0
		for _, r := range returnsOf(getRoot) {
			ev := stripTrivial(retVal(r, 1))
			ld, isLd := ev.(*ssa.UnOp)
			if !isLd {
				continue
			}
			g, isG := ld.X.(*ssa.Global)
			if !isG || g.Name() != "ErrVersionDoesNotExist" || refPassed(r) {
				continue
			}
			n++
			ok = ok && q(r)
		}
		c.decide("PASS-legacy-root-fallback", "GetRoot tries the legacy root key before 'version does not exist'", l.pos(getRoot.Pos()), ok && n > 0, "the not-found exit outside the reference-root branch passes the legacy lookup", "a version can be reported missing without consulting the legacy root key-space")
	}
	// pruning across the boundary
	dvt := l.Func("", "*nodeDB.deleteVersionsTo")
	dlv := l.Func("", "*nodeDB.deleteLegacyVersions")
	rll := l.Func("", "*nodeDB.resetLegacyLatestVersion")
	if dvt == nil || dlv == nil || rll == nil {
		c.anchorMissing("ORDER-legacy-prune", "deleteVersionsTo / deleteLegacyVersions / resetLegacyLatestVersion")
	} else {
		dl := callsIn(dvt, predStatic(dlv))
		rs := callsIn(dvt, predStatic(rll))
		c.decide("ORDER-legacy-prune", "deleteVersionsTo deletes legacy versions", l.pos(dvt.Pos()), len(dl) == 1, "one call", "legacy pruning call missing or duplicated")
		ok := len(dl) == 1 && len(rs) >= 1
		for _, r := range rs {
			if len(dl) == 1 {
				if cl, isCall := dl[0].(*ssa.Call); isCall && !(instrDominates(cl, r) && okEdgeDominates(cl, r)) {
					ok = false
				}
			}
		}
		c.decide("ORDER-legacy-prune", "legacy range marked gone only after a successful legacy delete", l.pos(dvt.Pos()), ok, "resetLegacyLatestVersion is dominated by the nil-error edge of deleteLegacyVersions", "the legacy boundary is reset although the legacy versions were not (successfully) deleted")
	}
}

// reachesWithout: can control reach block `to` starting at `from`?
func reachesWithout(from, to *ssa.BasicBlock) bool {
	seen := map[*ssa.BasicBlock]bool{}
	var dfs func(b *ssa.BasicBlock) bool
	dfs = func(b *ssa.BasicBlock) bool {
		if b == to {
			return true
		}
		if seen[b] {
			return false
		}
		seen[b] = true
		for _, s := range b.Succs {
			if dfs(s) {
				return true
			}
		}
		return false
	}
	return dfs(from)
}
