package main

import (
	"go/token"
	"go/types"
	"sort"
	"strings"

	"golang.org/x/tools/go/ssa"
)

func init() {
	register(&propCheck{id: "C06", needRoot: true, run: checkC06,
		explanation: "Decided statically: (1) FRESH — every store into a field of Node / NodeKey has a base that is provably not shared: allocated in the function, returned by a verified fresh-constructor, guarded by a dominating `nodeKey == nil` (never persisted) or, for the hash memo, `hash == nil`, or a parameter that is fresh at every caller; stores into persisted (cached, reader-visible) nodes are refuted — the writer's path-copy discipline is what lets readers of committed versions run without locks; (2) LOCK-lockset — every field of nodeDB that is written after construction is accessed with ndb.mtx held, unless no other thread role (reader / writer / pruner, by call-graph reachability from the role entry points) can conflict; (3) LOCK-pairing — acquire/release paired on all paths for every mutex of the package; (4) ORDER/DOM — an export pins its version before its goroutine starts and unpins only after the channel is drained; deletions are dominated by the open-reader scan. Added in the build round: LOCK-atomic-fill — a read-through cache fill holds ndb.mtx from the storage read to the cache insert; ORDER-root-probe — the lock-free root lookup probes the original key first and the re-keyed (version,0) key only on its miss edge (mirror image of the writer's save-new-then-delete-old). NOT decided: that a read returns the contents as of its commit under every interleaving (linearisability), nor races the lockset discipline cannot express (e.g. publication order of latestVersion vs Commit). Rules added in the later seeding rounds (each listed with what it decides in this file's rule table) are described in DESIGN.md §3 \"Third and fourth seeding rounds\" and Appendix C3–C5."})
}

func checkC06(c *Ctx) {
	l := c.L
	c.rule("FRESH-node-write", "stores into Node/NodeKey fields only through unshared bases", 40)
	c.rule("LOCK-lockset", "guarded nodeDB fields accessed under ndb.mtx unless no other role conflicts", 30)
	c.rule("LOCK-pairing", "mutex acquire/release paired on every path", 25)
	c.rule("ORDER-pinning", "export pins before start, unpins after drain; deletions after the reader scan", 4)

	checkFresh(c)
	checkLockset(c)
	c.rule("LOCK-atomic-fill", "read-through cache fill: storage read and cache insert happen in one critical section", 3)
	checkAtomicFill(c)
	c.rule("OWN-index-cache", "the fast-node cache is changed only by the read-through lookup and by Commit after the write", 3)
	checkIndexCacheOwner(c, "OWN-index-cache")
	// the writer's half of the lock-free re-keying protocol: new key saved before the old key is deleted
	checkRekeyOrder(c)
	c.rule("ORDER-root-probe", "lock-free root lookup probes the old key before the re-keyed key (mirror of the writer's save-new-then-delete-old)", 2)
	checkRootProbeOrder(c)
	scope := func(fn *ssa.Function) bool { return l.pkgPathOf(fn) == l.ModPath }
	runLockPairing(c, l, "LOCK-pairing", scope, lockHandoffs)

	// ---- (4)
	newExp := l.Func("", "newExporter")
	incr := l.Func("", "*nodeDB.incrVersionReaders")
	decr := l.Func("", "*nodeDB.decrVersionReaders")
	cls := l.Func("", "*Exporter.Close")
	if newExp == nil || incr == nil || decr == nil || cls == nil {
		c.anchorMissing("ORDER-pinning", "newExporter / incrVersionReaders / decrVersionReaders / Exporter.Close")
		return
	}
	var goI ssa.Instruction
	allInstrs(newExp, func(in ssa.Instruction) {
		if _, ok := in.(*ssa.Go); ok {
			goI = in
		}
	})
	incs := callsIn(newExp, predStatic(incr))
	ok := goI != nil && len(incs) == 1 && instrDominates(incs[0], goI)
	c.decide("ORDER-pinning", "newExporter pins the version before starting the export goroutine", l.pos(newExp.Pos()), ok, "incrVersionReaders dominates the go statement", "the export goroutine can start reading before the version is pinned: a concurrent DeleteVersionsTo may delete it")
	// every success return of newExporter passes the pin
	pinned := mustState(newExp, false, func(in ssa.Instruction) bool { cc := callCommon(in); return cc != nil && predStatic(incr)(cc) }, nil)
	allPinned := true
	for _, r := range successReturns(newExp) {
		allPinned = allPinned && pinned(r)
	}
	c.decide("ORDER-pinning", "newExporter success ⇒ pinned", l.pos(newExp.Pos()), allPinned, "every success return passes incrVersionReaders", "an exporter can be returned without pinning its version")
	// Close: decr after drain
	var recv ssa.Instruction
	allInstrs(cls, func(in ssa.Instruction) {
		if u, ok := in.(*ssa.UnOp); ok && u.Op == token.ARROW {
			recv = in
		}
	})
	decs := callsIn(cls, predStatic(decr))
	ok = recv != nil && len(decs) >= 1
	for _, d := range decs {
		if recv == nil || !recv.Block().Dominates(d.Block()) {
			ok = false
		}
	}
	c.decide("ORDER-pinning", "Exporter.Close unpins after draining the channel", l.pos(cls.Pos()), ok, "decrVersionReaders is dominated by the drain loop", "the version is unpinned while the export goroutine may still be reading")
	checkCloseOnce(c, "ORDER-pinning")
	dvt := l.Func("", "*nodeDB.deleteVersionsTo")
	fReaders := l.Field("", "nodeDB", "versionReaders")
	if dvt != nil && fReaders != nil {
		rng, errExit := readerScan(l, dvt, fReaders)
		c.decide("ORDER-pinning", "deleteVersionsTo rejects versions with active readers", l.pos(dvt.Pos()), rng != nil && errExit, "reader scan with an error exit present (dominance over deletions is decided under C04)", "no reader scan: a pinned version can be deleted")
	}
}

// ---------------------------------------------------------------------------
// FRESH

type freshAnalysis struct {
	l        *Loaded
	nodeT    *types.Named
	nkT      *types.Named
	fNodeKey *types.Var
	fHash    *types.Var
	ctor     map[*ssa.Function]int // 1 fresh-constructor, 2 not, 3 in progress
	paramMemo map[*ssa.Parameter]int
	noUnsavedGuard bool // do not accept the `nodeKey == nil` guard at call sites (hash-memo freshness)
}

func (fa *freshAnalysis) isCtor(fn *ssa.Function) bool {
	switch fa.ctor[fn] {
	case 1:
		return true
	case 2, 3:
		return false
	}
	if fn == nil || fn.Blocks == nil || !fa.l.inModule(fn) {
		return false
	}
	fa.ctor[fn] = 3
	ok := len(returnsOf(fn)) > 0
	for _, r := range returnsOf(fn) {
		if len(r.Results) == 0 {
			ok = false
			break
		}
		for _, root := range roots(retVal(r, 0)) {
			if isNilConst(root) {
				continue
			}
			if !fa.freshValue(root, fn, 0, false) {
				ok = false
			}
		}
	}
	if ok {
		fa.ctor[fn] = 1
	} else {
		fa.ctor[fn] = 2
	}
	return ok
}

// freshValue: v denotes an object no other goroutine can reach yet.
func (fa *freshAnalysis) freshValue(v ssa.Value, fn *ssa.Function, depth int, allowParams bool) bool {
	v = stripTrivial(v)
	if depth > 6 {
		return false
	}
	switch x := v.(type) {
	case *ssa.Alloc:
		return true
	case *ssa.Call:
		if g := staticCallee(&x.Call); g != nil {
			return fa.isCtor(g)
		}
	case *ssa.Extract:
		if call, ok := x.Tuple.(*ssa.Call); ok && x.Index == 0 {
			if g := staticCallee(&call.Call); g != nil {
				return fa.isCtor(g)
			}
		}
	case *ssa.Phi:
		for _, e := range x.Edges {
			if isNilConst(stripTrivial(e)) {
				continue
			}
			if !fa.freshValue(e, fn, depth+1, allowParams) {
				return false
			}
		}
		return true
	case *ssa.Parameter:
		if !allowParams {
			return false
		}
		switch fa.paramMemo[x] {
		case 1:
			return true
		case 2, 3:
			return false
		}
		fa.paramMemo[x] = 3
		pi := -1
		for i, p := range fn.Params {
			if p == x {
				pi = i
			}
		}
		callers := fa.l.callersOf(fn)
		ok := pi >= 0 && len(callers) > 0
		n := 0
		for _, e := range callers {
			if e.Site == nil || !fa.l.inModule(e.Caller.Func) {
				continue
			}
			n++
			args := e.Site.Common().Args
			if pi >= len(args) {
				ok = false
				continue
			}
			if !fa.freshAt(args[pi], e.Site, depth+1) {
				ok = false
			}
		}
		if n == 0 {
			ok = false
		}
		if ok {
			fa.paramMemo[x] = 1
		} else {
			fa.paramMemo[x] = 2
		}
		return ok
	}
	return false
}

// freshAt: value is fresh at instruction `at`, also using the dominating
// `nodeKey == nil` guard (a node that was never persisted is not shared).
func (fa *freshAnalysis) freshAt(v ssa.Value, at ssa.Instruction, depth int) bool {
	if fa.freshValue(v, at.Parent(), depth, true) {
		return true
	}
	if fa.noUnsavedGuard {
		return false
	}
	return fa.unsavedGuard(v, at.Block())
}

// unsavedGuard: block is dominated by the nil edge of a test of v.nodeKey.
func (fa *freshAnalysis) unsavedGuard(v ssa.Value, blk *ssa.BasicBlock) bool {
	fn := blk.Parent()
	for _, b := range fn.Blocks {
		iff := ifOf(b)
		if iff == nil {
			continue
		}
		tv, nn, ok := nilCond(iff.Cond)
		if !ok {
			continue
		}
		ld, isLd := stripTrivial(tv).(*ssa.UnOp)
		if !isLd || ld.Op != token.MUL {
			continue
		}
		fad, isFA := ld.X.(*ssa.FieldAddr)
		if !isFA || fieldVar(fad.X.Type(), fad.Field) != fa.fNodeKey || !sameValue(fad.X, v) {
			continue
		}
		if edgeDominates(b, 1-nn, blk) {
			return true
		}
	}
	return false
}

// freshExceptions: one line of reason each, keyed by function + field.
var freshExceptions = map[string]string{
	"(*iavl.MutableTree).saveNewNodes leftNode":  "clears the in-memory child pointers of nodes it has just keyed and queued; their keys belong to the version being committed, which no reader can reference before it is published",
	"(*iavl.MutableTree).saveNewNodes rightNode": "same",
	"(*iavl.Importer).Add leftNode":              "importer nodes are private to the importer and never enter the node cache",
	"(*iavl.Importer).Add rightNode":             "same",
	"(*iavl.Importer).Commit nonce":              "same (root of the import stack)",
	"(*iavl.MutableTree).SaveVersion isLegacy":   "legacy-format root re-save: legacy-only path (C16 is not claimed); outside this property's histories",
}

func checkFresh(c *Ctx) {
	l := c.L
	fa := &freshAnalysis{l: l, nodeT: l.NamedType("", "Node"), nkT: l.NamedType("", "NodeKey"), fNodeKey: l.Field("", "Node", "nodeKey"), fHash: l.Field("", "Node", "hash"),
		ctor: map[*ssa.Function]int{}, paramMemo: map[*ssa.Parameter]int{}}
	if fa.nodeT == nil || fa.nkT == nil || fa.fNodeKey == nil || fa.fHash == nil {
		c.anchorMissing("FRESH-node-write", "Node / NodeKey / Node.nodeKey / Node.hash")
		return
	}
	for _, n := range []string{"NewNode", "MakeNode", "MakeLegacyNode", "GetNodeKey"} {
		f := l.Func("", n)
		c.decide("FRESH-node-write", "fresh-constructor "+n, "node.go", f != nil && fa.isCtor(f), "returns only objects allocated in the call", n+" is relied on as a fresh-constructor but can return a shared object")
	}
	cl := l.Func("", "*Node.clone")
	c.decide("FRESH-node-write", "fresh-constructor Node.clone", "node.go", cl != nil && fa.isCtor(cl), "returns only objects allocated in the call", "clone can return a shared object")
	for _, fn := range l.SrcFuncs {
		if l.pkgPathOf(fn) != l.ModPath || isPrintingUtility(fn) {
			continue
		}
		allInstrs(fn, func(in ssa.Instruction) {
			st, ok := in.(*ssa.Store)
			if !ok {
				return
			}
			fad, ok := st.Addr.(*ssa.FieldAddr)
			if !ok {
				return
			}
			n := derefNamed(fad.X.Type())
			if n == nil || (n.Obj() != fa.nodeT.Obj() && n.Obj() != fa.nkT.Obj()) {
				return
			}
			fv := fieldVar(fad.X.Type(), fad.Field)
			top := fn
			for top.Parent() != nil {
				top = top.Parent()
			}
			key := l.fname(fn) + " store " + n.Obj().Name() + "." + fv.Name()
			base := stripTrivial(fad.X)
			switch {
			case fa.freshValue(base, fn, 0, false):
				c.ok("FRESH-node-write", key, l.ipos(st), "base allocated here or by a fresh-constructor")
			case n.Obj() == fa.nodeT.Obj() && fa.unsavedGuard(base, st.Block()):
				c.ok("FRESH-node-write", key, l.ipos(st), "dominated by `nodeKey == nil`: the node was never persisted, hence never shared")
			case fv == fa.fHash && hashNilGuard(base, st, fa.fHash):
				c.ok("FRESH-node-write", key, l.ipos(st), "hash memo under `hash == nil`")
			case n.Obj() == fa.nkT.Obj() && nodeKeyOfFresh(fa, base, st):
				c.ok("FRESH-node-write", key, l.ipos(st), "NodeKey of a fresh node")
			case fa.freshValue(base, fn, 0, true):
				c.ok("FRESH-node-write", key, l.ipos(st), "parameter that is fresh (or unsaved) at every caller")
			default:
				if why, ok := freshExceptions[l.fname(top)+" "+fv.Name()]; ok {
					c.ok("FRESH-node-write", key, l.ipos(st), "exception: "+why)
					return
				}
				// the legacy-root re-save clears isLegacy on the `isLegacy` edge of the same node, wherever that code lives
				if fv.Name() == "isLegacy" {
					if k, isC := stripTrivial(st.Val).(*ssa.Const); isC && k.Value != nil && k.Value.String() == "false" {
						for _, b := range fn.Blocks {
							iff := ifOf(b)
							if iff == nil {
								continue
							}
							if ld, isLd := stripTrivial(iff.Cond).(*ssa.UnOp); isLd {
								if fa2, isFA := ld.X.(*ssa.FieldAddr); isFA && fieldVar(fa2.X.Type(), fa2.Field) == fv && edgeDominates(b, 0, st.Block()) {
									c.ok("FRESH-node-write", key, l.ipos(st), "exception: "+freshExceptions["(*iavl.MutableTree).SaveVersion isLegacy"])
									return
								}
							}
						}
					}
				}
				c.bad("FRESH-node-write", key, l.ipos(st), "store into a node that may be persisted and shared with concurrent readers through the node cache (base `"+roleOf(l, base, "", 0)+"` is not provably fresh)")
			}
		})
	}
}

func hashNilGuard(base ssa.Value, st *ssa.Store, fHash *types.Var) bool {
	fn := st.Parent()
	for _, b := range fn.Blocks {
		iff := ifOf(b)
		if iff == nil {
			continue
		}
		v, nn, ok := nilCond(iff.Cond)
		if !ok {
			continue
		}
		ld, isLd := stripTrivial(v).(*ssa.UnOp)
		if !isLd {
			continue
		}
		fa2, isFA := ld.X.(*ssa.FieldAddr)
		if !isFA || fieldVar(fa2.X.Type(), fa2.Field) != fHash || !sameValue(fa2.X, base) {
			continue
		}
		if edgeDominates(b, 1-nn, st.Block()) {
			return true
		}
	}
	return false
}

// nodeKeyOfFresh: base is the nodeKey pointer loaded from a node that is fresh / unsaved here.
func nodeKeyOfFresh(fa *freshAnalysis, base ssa.Value, st *ssa.Store) bool {
	ld, ok := base.(*ssa.UnOp)
	if !ok || ld.Op != token.MUL {
		return false
	}
	fad, ok := ld.X.(*ssa.FieldAddr)
	if !ok || fieldVar(fad.X.Type(), fad.Field) != fa.fNodeKey {
		return false
	}
	return fa.freshValue(fad.X, st.Parent(), 0, false)
}

// ---------------------------------------------------------------------------
// lockset

// checkReaderFields: MutableTree has no lock of its own (it is single-writer).
// The one MutableTree method readers call concurrently, GetImmutable, may
// therefore only read fields that are never written after construction.
func checkReaderFields(c *Ctx) {
	l := c.L
	mt := l.NamedType("", "MutableTree")
	gim := l.Func("", "*MutableTree.GetImmutable")
	ctor := l.Func("", "NewMutableTree")
	if mt == nil || gim == nil || ctor == nil {
		c.anchorMissing("LOCK-lockset", "MutableTree / GetImmutable / NewMutableTree")
		return
	}
	written := map[string]bool{}
	for _, fn := range l.SrcFuncs {
		if l.pkgPathOf(fn) != l.ModPath || fn == ctor {
			continue
		}
		allInstrs(fn, func(in ssa.Instruction) {
			if st, ok := in.(*ssa.Store); ok {
				if fa, ok := st.Addr.(*ssa.FieldAddr); ok {
					if n := derefNamed(fa.X.Type()); n != nil && n.Obj() == mt.Obj() {
						written[fieldName(fa.X.Type(), fa.Field)] = true
					}
				}
			}
		})
	}
	reach := l.reachableFrom(gim)
	n := 0
	for fn := range reach {
		if !l.inModule(fn) || fn.Blocks == nil {
			continue
		}
		allInstrs(fn, func(in ssa.Instruction) {
			fa, ok := in.(*ssa.FieldAddr)
			if !ok {
				return
			}
			nn := derefNamed(fa.X.Type())
			if nn == nil || nn.Obj() != mt.Obj() {
				return
			}
			name := fieldName(fa.X.Type(), fa.Field)
			n++
			c.decide("LOCK-lockset", l.fname(fn)+" (reader entry) reads MutableTree."+name, l.ipos(in), !written[name],
				"field is never written after construction", "the reader entry point accesses MutableTree."+name+", which the writer modifies without synchronisation (SaveVersion, Rollback, …): data race")
		})
	}
	if n == 0 {
		c.anchorMissing("LOCK-lockset", "GetImmutable reads no MutableTree field")
	}
}

func checkLockset(c *Ctx) {
	l := c.L
	checkReaderFields(c)
	ndbT := l.NamedType("", "nodeDB")
	newNodeDB := l.Func("", "newNodeDB")
	if ndbT == nil || newNodeDB == nil {
		c.anchorMissing("LOCK-lockset", "nodeDB / newNodeDB")
		return
	}
	type access struct {
		fn    *ssa.Function
		in    ssa.Instruction
		f     *types.Var
		write bool
		held  bool // write lock or (for reads) read lock held
	}
	var accs []access
	written := map[*types.Var]bool{}
	// lock-state per function
	q := map[*ssa.Function]lockQuery{}
	keysOf := map[*ssa.Function][]string{}
	for _, fn := range l.SrcFuncs {
		if l.pkgPathOf(fn) != l.ModPath {
			continue
		}
		ks, _, qq := checkLockPairingQ(l, fn, nil)
		q[fn], keysOf[fn] = qq, ks
	}
	heldAt := func(fn *ssa.Function, in ssa.Instruction, base ssa.Value, write bool) bool {
		p := accessPath(base)
		if p == "" {
			return false
		}
		for _, k := range keysOf[fn] {
			if k == p+".mtx" && q[fn](in, k) == lkHeld {
				return true
			}
			if !write && k == p+".mtx:r" && q[fn](in, k) == lkHeld {
				return true
			}
		}
		return false
	}
	for _, fn := range l.SrcFuncs {
		if l.pkgPathOf(fn) != l.ModPath || isPrintingUtility(fn) {
			continue
		}
		top := fn
		for top.Parent() != nil {
			top = top.Parent()
		}
		allInstrs(fn, func(in ssa.Instruction) {
			fad, ok := in.(*ssa.FieldAddr)
			if !ok {
				return
			}
			n := derefNamed(fad.X.Type())
			if n == nil || n.Obj() != ndbT.Obj() {
				return
			}
			fv := fieldVar(fad.X.Type(), fad.Field)
			if fv.Name() == "mtx" {
				return
			}
			for _, r := range refs(fad) {
				switch x := r.(type) {
				case *ssa.Store:
					if x.Addr == fad {
						if top != newNodeDB {
							written[fv] = true
						}
						accs = append(accs, access{fn, x, fv, true, heldAt(fn, x, fad.X, true)})
					}
				case *ssa.UnOp:
					if x.Op == token.MUL {
						accs = append(accs, access{fn, x, fv, false, heldAt(fn, x, fad.X, false)})
						// a slice field used as a scratch buffer: a store through it (element store, copy destination)
						// writes memory that every holder of the field shares
						if _, isSl := fv.Type().Underlying().(*types.Slice); isSl {
							seen := map[ssa.Value]bool{}
							var contentWrite func(v ssa.Value, d int) ssa.Instruction
							contentWrite = func(v ssa.Value, d int) ssa.Instruction {
								if d > 4 || seen[v] {
									return nil
								}
								seen[v] = true
								for _, rr := range refs(v) {
									switch y := rr.(type) {
									case *ssa.Slice:
										if y.X == v {
											if w := contentWrite(y, d+1); w != nil {
												return w
											}
										}
									case *ssa.IndexAddr:
										if y.X == v {
											for _, r3 := range refs(y) {
												if st, isSt := r3.(*ssa.Store); isSt && st.Addr == ssa.Value(y) {
													return st
												}
											}
										}
									case *ssa.Call:
										if bi, isB := y.Call.Value.(*ssa.Builtin); isB && bi.Name() == "copy" && len(y.Call.Args) == 2 && y.Call.Args[0] == v {
											return y
										}
									}
								}
								return nil
							}
							if w := contentWrite(x, 0); w != nil {
								if top != newNodeDB {
									written[fv] = true
								}
								accs = append(accs, access{fn, w, fv, true, heldAt(fn, w, fad.X, true)})
							}
						}
						// objects without their own synchronisation (the LRU caches): every method
						// call on the loaded object reads and writes its contents
						if n := derefNamed(fv.Type()); n != nil && n.Obj().Name() == "Cache" {
							for _, rr := range refs(x) {
								if cc := callCommon(rr); cc != nil && cc.IsInvoke() && cc.Value == ssa.Value(x) {
									written[fv] = true
									accs = append(accs, access{fn, rr, fv, true, heldAt(fn, rr, fad.X, true)})
								}
							}
						}
					}
				case *ssa.MapUpdate, *ssa.Lookup:
					accs = append(accs, access{fn, r, fv, false, heldAt(fn, r, fad.X, false)})
				}
			}
		})
	}
	// "called only with the lock held" summaries (one level)
	calledHeld := func(fn *ssa.Function) bool {
		callers := l.callersOf(fn)
		if len(callers) == 0 {
			return false
		}
		for _, e := range callers {
			if e.Site == nil {
				return false
			}
			cf := e.Caller.Func
			cc := e.Site.Common()
			var recv ssa.Value
			if len(cc.Args) > 0 {
				recv = cc.Args[0]
			}
			if recv == nil || !heldAt(cf, e.Site, recv, true) {
				return false
			}
		}
		return true
	}
	// roles
	role := map[string]map[*ssa.Function]bool{}
	var readers []*ssa.Function
	for _, tn := range []string{"ImmutableTree", "Iterator", "FastIterator", "NodeIterator", "Exporter", "UnsavedFastIterator"} {
		if n := l.NamedType("", tn); n != nil {
			for _, m := range methodsOf(l, n) {
				if m.Object().Exported() || tn == "Exporter" {
					readers = append(readers, m)
				}
			}
		}
	}
	readers = append(readers, l.Func("", "*MutableTree.GetImmutable"))
	role["reader"] = l.reachableFrom(readers...)
	var writers []*ssa.Function
	for _, n := range []string{"Set", "Remove", "SaveVersion", "DeleteVersionsTo", "SetCommitting", "UnsetCommitting"} {
		writers = append(writers, l.Func("", "*MutableTree."+n))
	}
	role["writer"] = l.reachableFrom(writers...)
	role["pruner"] = l.reachableFrom(l.Func("", "*nodeDB.startPruning"))
	rolesOf := func(fn *ssa.Function) []string {
		var out []string
		for _, r := range []string{"reader", "writer", "pruner"} {
			if role[r][fn] {
				out = append(out, r)
			}
		}
		return out
	}
	conflict := func(a, b []string) bool {
		for _, x := range a {
			for _, y := range b {
				if x != y || x == "reader" {
					return true
				}
			}
		}
		return false
	}
	// obligations per unlocked or locked access of a written field
	var fields []*types.Var
	for f := range written {
		fields = append(fields, f)
	}
	sort.Slice(fields, func(i, j int) bool { return fields[i].Name() < fields[j].Name() })
	var gnames []string
	for _, f := range fields {
		gnames = append(gnames, f.Name())
	}
	c.note("guarded set (nodeDB fields written after construction): %s", strings.Join(gnames, ", "))
	for _, a := range accs {
		if !written[a.f] {
			continue
		}
		kind := "read"
		if a.write {
			kind = "write"
		}
		key := l.fname(a.fn) + " " + kind + " nodeDB." + a.f.Name()
		if a.held || calledHeld(a.fn) {
			c.ok("LOCK-lockset", key, l.ipos(a.in), "ndb.mtx held")
			continue
		}
		ra := rolesOf(a.fn)
		var with *access
		for i := range accs {
			b := accs[i]
			if b.f != a.f || (!a.write && !b.write) {
				continue
			}
			if b.in == a.in {
				// the same access executed by two threads of the same role
				if a.write && conflict(ra, ra) {
					with = &accs[i]
					break
				}
				continue
			}
			if conflict(ra, rolesOf(b.fn)) {
				with = &accs[i]
				break
			}
		}
		if with == nil {
			c.ok("LOCK-lockset", key, l.ipos(a.in), "unlocked, but no other thread role (reader/writer/pruner) can access the field concurrently; roles here: "+strings.Join(ra, ","))
			c.infof("unlocked access outside the concurrent schedule: %s at %s", key, l.ipos(a.in))
			continue
		}
		c.bad("LOCK-lockset", key, l.ipos(a.in), "accessed without ndb.mtx in role ["+strings.Join(ra, ",")+"] while "+l.fname(with.fn)+" (role ["+strings.Join(rolesOf(with.fn), ",")+"]) accesses it at "+l.ipos(with.in)+": data race")
	}
}

// checkCloseOnce: Exporter.Close releases its pin at most once.
func checkCloseOnce(c *Ctx, rule string) {
	l := c.L
	cls := l.Func("", "*Exporter.Close")
	decr := l.Func("", "*nodeDB.decrVersionReaders")
	if cls == nil || decr == nil {
		c.anchorMissing(rule, "Exporter.Close / decrVersionReaders")
		return
	}
	decs := callsIn(cls, predStatic(decr))
	// Close unpins at most once per exporter: the decrement is behind `e.tree != nil` and e.tree is cleared afterwards
	fTree := l.Field("", "Exporter", "tree")
	if fTree == nil {
		c.anchorMissing(rule, "Exporter.tree")
	} else {
		gs := findGuards(cls, nilTestMatcher(isLoadOfField(fTree), true))
		cleared := mustState(cls, false, func(in ssa.Instruction) bool {
			st, ok := in.(*ssa.Store)
			return ok && isStoreToField(in, fTree) && isNilConst(stripTrivial(st.Val))
		}, nil)
		okOnce := len(decs) > 0
		for _, d := range decs {
			if !guardsEffect(gs, d) {
				okOnce = false
			}
		}
		for _, r := range returnsOf(cls) {
			if !cleared(r) {
				okOnce = false
			}
		}
		c.decide(rule, "Exporter.Close unpins at most once", l.pos(cls.Pos()), okOnce, "decrement only while e.tree != nil, and e.tree is cleared on every path", "a second Close() decrements the reader count again: it releases the pin of another open export of the same version, which can then be deleted")
	}
	// Close releases the version that was pinned: the number is captured by the exporter when it pins
	// (a field of the exporter written only by its constructor), not re-read from the exported tree —
	// tree.Export() on a MutableTree exports the working tree object, whose version field SaveVersion
	// overwrites in place before it installs a clone.
	ne := l.Func("", "newExporter")
	incr := l.Func("", "*nodeDB.incrVersionReaders")
	expT := l.NamedType("", "Exporter")
	if ne == nil || incr == nil || expT == nil {
		c.anchorMissing(rule, "newExporter / incrVersionReaders / Exporter")
		return
	}
	var pinned ssa.Value
	for _, in := range callsIn(ne, predStatic(incr)) {
		pinned = stripTrivial(callCommon(in).Args[1])
	}
	for _, d := range decs {
		arg := stripTrivial(callCommon(d).Args[1])
		ok, why := false, "the released version is `"+roleOf(l, arg, "", 0)+"`"
		if ld, isLd := arg.(*ssa.UnOp); isLd && ld.Op == token.MUL {
			if fa, isFA := ld.X.(*ssa.FieldAddr); isFA {
				if n := derefNamed(fa.X.Type()); n != nil && n.Obj() == expT.Obj() {
					f := fieldVar(fa.X.Type(), fa.Field)
					// written only in the constructor, with the pinned value
					ok = pinned != nil
					for _, fn := range l.SrcFuncs {
						if l.pkgPathOf(fn) != l.ModPath {
							continue
						}
						for _, st := range storesToField(fn, f) {
							if fn != ne || stripTrivial(st.Val) != pinned {
								ok = false
								why = "Exporter." + f.Name() + " is written outside the constructor or with a value other than the pinned one"
							}
						}
					}
				}
			}
		}
		c.decide(rule, "Exporter.Close releases the version its constructor pinned", l.ipos(d), ok, "version captured in the exporter at creation",
			why+", re-read at Close time from the exported tree: when the exported tree is the working tree of a MutableTree, SaveVersion changes that number in place, Close releases the pin of the NEW version (possibly another export's) and the exported version stays pinned for ever")
	}
}

// checkAtomicFill: a function that loads a value from storage and then puts
// it into one of nodeDB's caches must hold ndb.mtx from the storage read to
// the insert.  Commit refreshes the cache under the same mutex right after
// the physical write; if a reader's storage read happens before that write
// and its insert after Commit's refresh, the cache keeps serving the
// pre-commit value for the new version.
func checkAtomicFill(c *Ctx) {
	l := c.L
	const R = "LOCK-atomic-fill"
	fNC, fFC, fDB := l.Field("", "nodeDB", "nodeCache"), l.Field("", "nodeDB", "fastNodeCache"), l.Field("", "nodeDB", "db")
	if fNC == nil || fFC == nil || fDB == nil {
		c.anchorMissing(R, "nodeDB.nodeCache / fastNodeCache / db")
		return
	}
	isAdd := func(in ssa.Instruction) bool {
		cc := callCommon(in)
		return cc != nil && cc.IsInvoke() && cc.Method.Name() == "Add" && (isLoadOfField(fNC)(cc.Value) || isLoadOfField(fFC)(cc.Value))
	}
	isRead := func(in ssa.Instruction) bool {
		cc := callCommon(in)
		return cc != nil && cc.IsInvoke() && cc.Method.Name() == "Get" && isLoadOfField(fDB)(cc.Value)
	}
	n := 0
	for _, fn := range l.SrcFuncs {
		if l.pkgPathOf(fn) != l.ModPath {
			continue
		}
		var reads []ssa.Instruction
		hasAdd := false
		allInstrs(fn, func(in ssa.Instruction) {
			if isRead(in) {
				reads = append(reads, in)
			}
			if isAdd(in) {
				hasAdd = true
			}
		})
		if !hasAdd || len(reads) == 0 {
			continue
		}
		keys, _, q := checkLockPairingQ(l, fn, nil)
		for _, g := range reads {
			fills := reachableAfter(g, isAdd, nil)
			if len(fills) == 0 {
				continue
			}
			n++
			held := false
			for _, k := range keys {
				if strings.HasSuffix(k, ".mtx") && q(g, k) == lkHeld {
					held = true
				}
			}
			msg := "the storage read is not under ndb.mtx"
			if held {
				// no release between the read and the insert
				searchFrom([]point{after(g)}, func(x ssa.Instruction) bool {
					if isAdd(x) {
						return true
					}
					if cc := callCommon(x); cc != nil {
						if _, isDefer := x.(*ssa.Defer); !isDefer {
							if op, ok := lockOpOf(cc); ok && op.unlock && strings.HasSuffix(op.key, ".mtx") {
								held = false
								msg = "ndb.mtx is released at " + l.ipos(x) + " between the storage read and the cache insert"
								return true
							}
						}
					}
					return false
				})
			}
			c.decide(R, l.fname(fn)+" "+l.calleeName(g)+" → cache insert", l.ipos(g), held, "one critical section from the storage read to the insert",
				msg+": a commit can refresh the cache in between, and the stale value read before the commit then replaces the fresh entry")
		}
	}
	if n < 3 {
		c.anchorMissing(R, "fewer than 3 read-through fills found")
	}
}

// checkRootProbeOrder: GetRoot resolves a reference root without a lock while
// a pruning commit may re-key the referenced root from (v,1) to (v,0) in one
// atomic batch (save new, delete old — ORDER-rekey).  A reader that probes the
// OLD key first and the NEW key only after the old one was found missing
// cannot miss both; the opposite order can (both probes miss across the
// batch).  Decided: the probe of a key built from a NodeKey literal with
// nonce 0 is executed only on the `missing` edge of the probe of the stored
// reference.
func checkRootProbeOrder(c *Ctx) {
	l := c.L
	const R = "ORDER-root-probe"
	fDB := l.Field("", "nodeDB", "db")
	nkT := l.NamedType("", "NodeKey")
	if fDB == nil || nkT == nil {
		c.anchorMissing(R, "nodeDB.db / NodeKey")
		return
	}
	isProbe := func(in ssa.Instruction) bool {
		cc := callCommon(in)
		return cc != nil && cc.IsInvoke() && (cc.Method.Name() == "Get" || cc.Method.Name() == "Has") && isLoadOfField(fDB)(cc.Value)
	}
	// key argument derives from a NodeKey literal whose nonce is the constant 0
	fromNonce0 := func(fn *ssa.Function, v ssa.Value) bool {
		zero := false
		for _, m := range structLiteralStores(fn, nkT) {
			if k, ok := constInt(m["nonce"]); ok && k == 0 {
				zero = true
			}
		}
		return zero && strings.Contains(roleOf(l, v, "", 0), "GetKey(local)")
	}
	n := 0
	// the two lookups and the helper methods they delegate a probe sequence to (one level)
	var fns []*ssa.Function
	for _, name := range []string{"*nodeDB.GetRoot", "*nodeDB.GetNode"} {
		fn := l.Func("", name)
		if fn == nil {
			c.anchorMissing(R, name)
			continue
		}
		fns = append(fns, fn)
		allInstrs(fn, func(in ssa.Instruction) {
			cc := callCommon(in)
			if cc == nil {
				return
			}
			g := staticCallee(cc)
			if g == nil || !l.inModule(g) || g.Signature.Recv() == nil || len(g.Blocks) == 0 || g == fn {
				return
			}
			has := false
			allInstrs(g, func(x ssa.Instruction) {
				if isProbe(x) {
					has = true
				}
			})
			if has {
				dup := false
				for _, e := range fns {
					dup = dup || e == g
				}
				if !dup {
					fns = append(fns, g)
				}
			}
		})
	}
	for _, fn := range fns {
		var probes []ssa.Instruction
		allInstrs(fn, func(in ssa.Instruction) {
			if isProbe(in) {
				probes = append(probes, in)
			}
		})
		for _, p := range probes {
			if !fromNonce0(fn, callCommon(p).Args[0]) {
				continue
			}
			n++
			// some other probe (of the referenced / original key) whose `missing` edge dominates p
			ok := false
			for _, o := range probes {
				if o == p || fromNonce0(fn, callCommon(o).Args[0]) {
					continue
				}
				res := extractOf(o.(ssa.Value), 0)
				if res == nil {
					continue
				}
				// a probe whose result is itself used as the key of another probe is the
				// marker lookup that yields the reference, not the probe of the original key
				isIndex := false
				for _, q := range probes {
					if q != o && stripTrivial(callCommon(q).Args[0]) == ssa.Value(res) {
						isIndex = true
					}
				}
				if isIndex {
					continue
				}
				for _, b := range fn.Blocks {
					iff := ifOf(b)
					if iff == nil {
						continue
					}
					if !b.Dominates(p.Block()) {
						continue
					}
					// condition mentions the first probe's result being nil / false, possibly in a conjunction:
					// accept any If whose condition is derived from res and that dominates p
					if condMentions(iff.Cond, res, 0) && instrDominates(o, iff) {
						ok = true
					}
				}
			}
			c.decide(R, l.fname(fn)+" probes the re-keyed (version,0) key only after the original key was missed", l.ipos(p), ok,
				"old key first, new key on the miss edge", "the re-keyed key is probed without (or before) a miss of the original key: a concurrent re-keying commit between the two probes makes both miss, and a retained version is reported missing")
		}
	}
	if n < 2 {
		c.anchorMissing(R, "fewer than 2 (version,0) probes found in GetRoot / GetNode")
	}
}

// condMentions: the condition is computed from v (through comparisons,
// negation, len, conjunction phis).
func condMentions(cond ssa.Value, v ssa.Value, d int) bool {
	if d > 6 || cond == nil {
		return false
	}
	cond = stripTrivial(cond)
	if cond == v {
		return true
	}
	switch x := cond.(type) {
	case *ssa.BinOp:
		return condMentions(x.X, v, d+1) || condMentions(x.Y, v, d+1)
	case *ssa.UnOp:
		return condMentions(x.X, v, d+1)
	case *ssa.Phi:
		for _, e := range x.Edges {
			if condMentions(e, v, d+1) {
				return true
			}
		}
	case *ssa.Call:
		if _, ok := x.Call.Value.(*ssa.Builtin); ok {
			for _, a := range x.Call.Args {
				if condMentions(a, v, d+1) {
					return true
				}
			}
		}
	}
	return false
}
