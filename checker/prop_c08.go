package main

import (
	"fmt"
	"go/constant"
	"go/token"
	"go/types"
	"strings"

	"golang.org/x/tools/go/ssa"
)

func init() {
	register(&propCheck{id: "C08", needRoot: true, run: checkC08,
		explanation: "Decided statically (narrow): (1) ORDER — in every function that calls a `func(...) bool` visitor, the visitor's result is not ignored, no further visitor call is reachable from its `true` edge, and that edge only reaches returns of `true` (a callback that asks to stop stops the iteration at that element); (2) OWN — an iterator's validity flag is set to true only by its constructor (or monotonically under its own current value), so an iterator that became invalid stays invalid; (3) ERR — iterators surface their sticky error and wrappers consult the wrapped iterator. Added in the build round: merge of persisted and uncommitted keys over the ordering domain (ORDER-merge-predicate); per-node range pruning / yield table of the tree-walk iterator (ORDER-traversal-table); index iterator domain (TABLE-index-domain); index iterators only for a tree at the latest version (DOM-index-iter-guard). NOT decided: range, order, exactly-once and value currency of the yielded elements, nor agreement of the three iterator implementations (all runtime orderings of byte strings). Rules added in the later seeding rounds (each listed with what it decides in this file's rule table) are described in DESIGN.md §3 \"Third and fourth seeding rounds\" and Appendix C3–C5."})
}

func isBoolVisitorType(t types.Type) bool {
	sig, ok := t.Underlying().(*types.Signature)
	if !ok || sig.Results().Len() != 1 {
		return false
	}
	b, ok := sig.Results().At(0).Type().Underlying().(*types.Basic)
	return ok && b.Kind() == types.Bool
}

func checkC08(c *Ctx) {
	l := c.L
	checkWorkingIterationMerges(c, "DOM-working-iteration")
	checkSnapshotFlags(c, "FLOW-snapshot-flags")
	checkIteratorAccessorsPure(c, "PURE-iterator-accessors")
	c.rule("ORDER-stop-means-stop", "a true result of the visitor ends the iteration", 7)
	c.rule("OWN-valid-flag", "validity flag set to true only at construction", 3)
	c.rule("ERR-E5-sticky", "iterator errors are surfaced", 5)

	for _, fn := range l.SrcFuncs {
		if l.pkgPathOf(fn) != l.ModPath || isPrintingUtility(fn) || strings.HasPrefix(fn.Name(), "WriteD") {
			continue
		}
		// visitor values: parameters / free variables of bool-visitor type that are called
		var visitors []ssa.Value
		for _, p := range fn.Params {
			if isBoolVisitorType(p.Type()) {
				visitors = append(visitors, p)
			}
		}
		for _, fv := range fn.FreeVars {
			if isBoolVisitorType(fv.Type()) {
				visitors = append(visitors, fv)
			} else if pt, ok := fv.Type().Underlying().(*types.Pointer); ok && isBoolVisitorType(pt.Elem()) {
				visitors = append(visitors, fv) // captured by reference
			}
		}
		for _, vis := range visitors {
			isVisCall := func(in ssa.Instruction) bool {
				cc := callCommon(in)
				if cc == nil || cc.IsInvoke() {
					return false
				}
				v := stripTrivial(cc.Value)
				if v == vis {
					return true
				}
				ld, ok := v.(*ssa.UnOp)
				return ok && ld.Op == token.MUL && ld.X == vis
			}
			var calls []*ssa.Call
			allInstrs(fn, func(in ssa.Instruction) {
				if cl, ok := in.(*ssa.Call); ok && isVisCall(in) {
					calls = append(calls, cl)
				}
			})
			for _, cl := range calls {
				key := l.fname(fn) + " visitor " + vis.Name()
				// uses of the result
				var ifs []*ssa.If
				returned, other := false, false
				for _, r := range refs(cl) {
					switch x := r.(type) {
					case *ssa.If:
						ifs = append(ifs, x)
					case *ssa.Return:
						returned = true
					case *ssa.Store:
						// spilled result (functions with defer): treat the immediate return as delegation
						returned = true
					case *ssa.Phi:
						other = true
					case *ssa.DebugRef:
					default:
						other = true
					}
				}
				switch {
				case len(ifs) == 0 && returned:
					c.ok("ORDER-stop-means-stop", key, l.ipos(cl), "the visitor's answer is returned to the caller unchanged")
					continue
				case len(ifs) == 0:
					why := "the visitor's result is ignored: a callback that asks to stop is called again"
					if other {
						why = "the visitor's result is not tested directly; stop cannot be established"
					}
					c.bad("ORDER-stop-means-stop", key, l.ipos(cl), why)
					continue
				}
				bad := ""
				for _, iff := range ifs {
					start := iff.Block().Succs[0]
					hasBool := fn.Signature.Results().Len() > 0 && isBoolResult(fn.Signature.Results().At(0).Type())
					searchFrom([]point{blockStart(start)}, func(in ssa.Instruction) bool {
						if isVisCall(in) {
							bad = "after the visitor returned true it is called again at " + l.ipos(in)
							return true
						}
						if r, ok := in.(*ssa.Return); ok {
							if hasBool && !isRecoverReturn(r) {
								v := stripTrivial(retVal(r, 0))
								isTrue := v == ssa.Value(cl)
								if k, ok := v.(*ssa.Const); ok && k.Value != nil && k.Value.Kind() == constant.Bool && constant.BoolVal(k.Value) {
									isTrue = true
								}
								if !isTrue {
									bad = "the stop edge reaches a return of a value other than true at " + l.ipos(r)
								}
							}
							return true
						}
						return false
					})
				}
				c.decide("ORDER-stop-means-stop", key, l.ipos(cl), bad == "", "true edge: no further visitor call, returns true", bad)
			}
		}
	}

	// ---- (2)
	for _, tn := range []string{"Iterator", "FastIterator", "UnsavedFastIterator"} {
		n := l.NamedType("", tn)
		fValid := l.Field("", tn, "valid")
		if n == nil || fValid == nil {
			c.anchorMissing("OWN-valid-flag", tn+".valid")
			continue
		}
		cnt := 0
		for _, fn := range l.SrcFuncs {
			for _, st := range storesToField(fn, fValid) {
				v := stripTrivial(st.Val)
				if k, ok := v.(*ssa.Const); ok && k.Value != nil && !constant.BoolVal(k.Value) {
					continue // set to false
				}
				cnt++
				key := l.fname(fn) + " sets " + tn + ".valid"
				fa := st.Addr.(*ssa.FieldAddr)
				switch {
				case strings.HasPrefix(fn.Name(), "New"):
					c.ok("OWN-valid-flag", key, l.ipos(st), "constructor")
				case derivesFromOwnValid(v, fa, fValid) || underOwnValid(st, fa, fValid):
					c.ok("OWN-valid-flag", key, l.ipos(st), "monotone: new value implies the current value")
				case tn == "FastIterator" && fn.Name() == "Next" && underFieldNil(st, fa, "fastIterator"):
					c.ok("OWN-valid-flag", key, l.ipos(st), "first positioning (inner iterator not created yet); only the constructor reaches it on a fresh iterator — Close() re-arms it, which is API misuse (triaged)")
				default:
					c.bad("OWN-valid-flag", key, l.ipos(st), "an iterator can become valid again after it was invalid")
				}
			}
		}
		if tn != "UnsavedFastIterator" && cnt == 0 {
			c.anchorMissing("OWN-valid-flag", "no store of a non-false value into "+tn+".valid")
		}
	}
	ea := newErrAnalysis(c, l)
	ea.runE5("ERR-E5-sticky")
	checkMergeOrder(c)
	checkIndexIterGuard(c)
	checkNodeKeyNil(c)
	c.rule("PASS-overlay", "the overlay the merged iterator reads is recorded with every change of the working root, cancelled consistently, and kept until the commit succeeded", 6)
	checkOverlayMaintenance(c, "PASS-overlay")
	checkEmptyValueLegal(c)
	checkCloneCopiesDecisionFields(c)
	checkIndexReaders(c)
	c.rule("ERR-invalidates", "an iterator that stored an error re-decides its validity before returning (invalid for good, accessors never run on missing state)", 3)
	ea.runErrorInvalidates("ERR-invalidates", nil)
	ea.runE6Fields("ERR-invalidates", nil)
	checkTraversalTable(c)
	checkFastIteratorDomain(c)
}

// checkFastIteratorDomain: how the persisted-index iterator maps its logical
// bounds onto the index key-space, for absent/present bounds × direction.
func checkFastIteratorDomain(c *Ctx) {
	l := c.L
	c.rule("TABLE-index-domain", "index iterator: bounds mapped into the index key-space, direction selects the constructor", 8)
	fn := l.Func("", "*nodeDB.getFastIterator")
	if fn == nil {
		c.anchorMissing("TABLE-index-domain", "nodeDB.getFastIterator")
		return
	}
	for _, sNil := range []bool{true, false} {
		for _, eNil := range []bool{true, false} {
			for _, asc := range []bool{true, false} {
				sNil, eNil, asc := sNil, eNil, asc
				env := &tableEnv{l: l, flag: map[string]int{}, cmp: func(a, b string) (int, bool) { return 0, false }}
				env.isNil = func(role string) int {
					switch role {
					case "arg0":
						if sNil {
							return 1
						}
						return -1
					case "arg1":
						if eNil {
							return 1
						}
						return -1
					}
					return 0
				}
				w := &walker{vals: map[ssa.Value]int{}}
				w.env = &walkEnv{evalAtom: func(w *walker, v ssa.Value) int {
					if p, ok := v.(*ssa.Parameter); ok && p.Name() == "ascending" {
						if asc {
							return 1
						}
						return -1
					}
					return env.atom(w, v)
				}}
				env.recv = fn.Params[0].Name()
				var startRole, endRole, ctor string
				w.onCall = func(w *walker, call *ssa.Call) {
					if call.Call.IsInvoke() && (call.Call.Method.Name() == "Iterator" || call.Call.Method.Name() == "ReverseIterator") {
						ctor = call.Call.Method.Name()
						startRole = roleOf(l, w.resolve(call.Call.Args[0]), env.recv, 0)
						endRole = roleOf(l, w.resolve(call.Call.Args[1]), env.recv, 0)
					}
				}
				ret, _ := w.run(fn)
				// resolve phis by the walked path: render again with the values the walk fixed
				wantStart := "KeyBytes(global:fastKeyFormat,[arg0])"
				if sNil {
					wantStart = "Key(global:fastKeyFormat,nil)"
				}
				wantEnd := "KeyBytes(global:fastKeyFormat,[arg1])"
				if eNil {
					wantEnd = "Key(global:fastKeyFormat,nil)" // with the first byte incremented (checked below)
				}
				wantCtor := "ReverseIterator"
				if asc {
					wantCtor = "Iterator"
				}
				ok := ret != nil && ctor == wantCtor && startRole == wantStart && endRole == wantEnd
				c.decide("TABLE-index-domain", fmt.Sprintf("getFastIterator start absent=%v end absent=%v ascending=%v", sNil, eNil, asc), l.pos(fn.Pos()), ok,
					ctor+"("+startRole+", "+endRole+")", "calls "+ctor+"("+startRole+", "+endRole+"), expected "+wantCtor+" with start from "+wantStart+" and end from "+wantEnd)
			}
		}
	}
	// absent end = prefix with its byte incremented: a store `x[0]++` on the end key
	inc := false
	allInstrs(fn, func(in ssa.Instruction) {
		if st, ok := in.(*ssa.Store); ok {
			if _, isIA := st.Addr.(*ssa.IndexAddr); isIA {
				if bo, ok := stripTrivial(st.Val).(*ssa.BinOp); ok && bo.Op == token.ADD {
					if k, isC := constInt(bo.Y); isC && k == 1 {
						inc = true
					}
				}
			}
		}
	})
	c.decide("TABLE-index-domain", "absent end bound = index prefix + 1", l.pos(fn.Pos()), inc, "first byte of the prefix key incremented", "an absent end bound is not mapped to the end of the index key-space")
}

// checkTraversalTable decides the tree-walk iterator's per-node logic
// (traversal.next) exhaustively over its finite decision domain: bounds
// absent/present, ordering of start vs the node key and of the node key vs end,
// inclusive, post-order, direction, leaf/inner — 256 environments.  For each
// one the function is walked concretely and the observable effects (which
// children are fetched, in which order they are stacked, whether the node is
// yielded) are compared with the specification written here as data:
//   afterStart = start absent or start < key; startOrAfter = afterStart or start == key
//   beforeEnd  = end absent or key < end or (inclusive and key == end)
//   leaf: yielded iff startOrAfter and beforeEnd
//   inner: left child visited iff afterStart, right child iff beforeEnd (routing key = smallest key of the right subtree),
//          stacked so that the left subtree is popped first when ascending and the right one first when descending
func checkTraversalTable(c *Ctx) {
	l := c.L
	c.rule("ORDER-traversal-table", "tree-walk iterator: per-node range pruning and yield decided over all orderings", 200)
	next := l.Func("", "*traversal.next")
	ctor := l.Func("", "*Node.newTraversal")
	if next == nil || ctor == nil {
		c.anchorMissing("ORDER-traversal-table", "traversal.next / Node.newTraversal")
		return
	}
	// the constructor stacks the start node unconditionally
	okCtor := len(ctor.Blocks) == 1
	if okCtor {
		okCtor = false
		for _, r := range returnsOf(ctor) {
			role := ""
			allInstrs(ctor, func(in ssa.Instruction) {
				if st, ok := in.(*ssa.Store); ok {
					if fa, ok := st.Addr.(*ssa.FieldAddr); ok && fieldName(fa.X.Type(), fa.Field) == "node" {
						role = roleOf(l, st.Val, "", 0)
					}
				}
			})
			_ = r
			if role == "recv" {
				okCtor = true
			}
		}
	}
	c.decide("ORDER-traversal-table", "newTraversal stacks the start node unconditionally", l.pos(ctor.Pos()), okCtor, "single straight-line block; initial stack = {node, delayed}", "the traversal constructor branches (e.g. on the bounds) or does not stack the start node: the iteration domain must be decided per node in next(), the constructor is shared by the exclusive and the inclusive variants")

	fieldRole := func(v ssa.Value) string {
		ld, ok := stripTrivial(v).(*ssa.UnOp)
		if !ok || ld.Op != token.MUL {
			return ""
		}
		fa, ok := ld.X.(*ssa.FieldAddr)
		if !ok {
			return ""
		}
		return fieldName(fa.X.Type(), fa.Field)
	}
	type envT struct {
		startNil, endNil     bool
		ordS, ordE           int // cmp(start,key), cmp(key,end)
		incl, post, asc, leaf bool
	}
	b2i := func(b bool) int {
		if b {
			return 1
		}
		return -1
	}
	total, bad := 0, 0
	firstBad := ""
	for _, sn := range []int{-2, -1, 0, 1} { // -2: absent
		for _, en := range []int{-2, -1, 0, 1} {
			for _, incl := range []bool{false, true} {
				for _, post := range []bool{false, true} {
					for _, asc := range []bool{false, true} {
						for _, leaf := range []bool{false, true} {
							e := envT{startNil: sn == -2, endNil: en == -2, ordS: sn, ordE: en, incl: incl, post: post, asc: asc, leaf: leaf}
							cmpOf := func(a, b ssa.Value) (int, bool) {
								ra, rb := fieldRole(a), fieldRole(b)
								switch {
								case ra == "start" && rb == "key":
									return e.ordS, true
								case ra == "key" && rb == "start":
									return -e.ordS, true
								case ra == "key" && rb == "end":
									return e.ordE, true
								case ra == "end" && rb == "key":
									return -e.ordE, true
								}
								return 0, false
							}
							env := &walkEnv{evalAtom: func(w *walker, v ssa.Value) int {
								switch x := v.(type) {
								case *ssa.UnOp:
									if x.Op == token.MUL {
										switch fieldRole(x) {
										case "inclusive":
											return b2i(e.incl)
										case "post":
											return b2i(e.post)
										case "ascending":
											return b2i(e.asc)
										}
									}
								case *ssa.Extract:
									if call, ok := x.Tuple.(*ssa.Call); ok {
										if f := staticCallee(&call.Call); f != nil && f.Name() == "pop" && x.Index == 1 {
											return 1 // delayed
										}
									}
								case *ssa.Call:
									if f := staticCallee(&x.Call); f != nil {
										switch {
										case f.Name() == "isLeaf":
											return b2i(e.leaf)
										case f.String() == "bytes.Equal":
											if o, ok := cmpOf(x.Call.Args[0], x.Call.Args[1]); ok {
												return b2i(o == 0)
											}
										}
									}
								case *ssa.BinOp:
									// nil tests
									if vv, nn, ok := nilCond(x); ok {
										isNil := 0
										switch {
										case fieldRole(vv) == "start":
											isNil = b2i(e.startNil)
										case fieldRole(vv) == "end":
											isNil = b2i(e.endNil)
										case isErrorType(vv.Type()):
											isNil = 1
										default:
											isNil = -1 // the popped node is present
										}
										if nn == 0 { // cond is v != nil
											return -isNil
										}
										return isNil
									}
									if call, ok := stripTrivial(x.X).(*ssa.Call); ok {
										if f := staticCallee(&call.Call); f != nil {
											if f.String() == "bytes.Compare" {
												if k, isC := constInt(x.Y); isC {
													if o, ok := cmpOf(call.Call.Args[0], call.Call.Args[1]); ok {
														return cmpHolds(x.Op, sign(int64(o)-k))
													}
												}
											}
											if f.Name() == "length" {
												return cmpHolds(x.Op, 1) // stack not empty
											}
										}
									}
								}
								return 0
							}}
							w := &walker{env: env, vals: map[ssa.Value]int{}}
							w.onCall = func(w *walker, call *ssa.Call) {
								f := staticCallee(&call.Call)
								if f == nil {
									return
								}
								switch f.Name() {
								case "getLeftNode":
									w.events = append(w.events, "L")
								case "getRightNode":
									w.events = append(w.events, "R")
								case "push":
									if k, ok := stripTrivial(call.Call.Args[2]).(*ssa.Const); ok && k.Value != nil && k.Value.String() == "false" {
										w.events = append(w.events, "self")
									}
								case "next":
									w.events = append(w.events, "recurse")
								}
							}
							ret, stuck := w.run(next)
							total++
							got := strings.Join(w.events, ",")
							if ret != nil {
								v := stripTrivial(retVal(ret, 0))
								switch v.(type) {
								case *ssa.Extract:
									if ex := v.(*ssa.Extract); ex.Index == 0 {
										if call, ok := ex.Tuple.(*ssa.Call); ok {
											if f := staticCallee(&call.Call); f != nil && f.Name() == "pop" {
												got += "|yield"
											} else {
												got += "|next"
											}
										}
									}
								default:
									got += "|other"
								}
							} else {
								got += "|stuck"
							}
							// specification
							afterStart := e.startNil || e.ordS < 0
							startOrAfter := afterStart || e.ordS == 0
							beforeEnd := e.endNil || e.ordE < 0 || (e.incl && e.ordE == 0)
							var want []string
							inRange := startOrAfter && beforeEnd
							if e.post && (!e.leaf || inRange) {
								want = append(want, "self")
							}
							if !e.leaf {
								if e.asc {
									if beforeEnd {
										want = append(want, "R")
									}
									if afterStart {
										want = append(want, "L")
									}
								} else {
									if afterStart {
										want = append(want, "L")
									}
									if beforeEnd {
										want = append(want, "R")
									}
								}
							}
							ws := strings.Join(want, ",")
							if !e.post && (!e.leaf || inRange) {
								ws += "|yield"
							} else {
								if ws != "" {
									ws += ","
								}
								ws += "recurse|next"
							}
							envDesc := fmt.Sprintf("start:%s end:%s inclusive=%v post=%v ascending=%v leaf=%v", ordName(sn, "start", "key"), ordName(en, "key", "end"), incl, post, asc, leaf)
							msg := ""
							if got != ws {
								bad++
								msg = "code does [" + got + "], the range specification says [" + ws + "]"
								if stuck != nil {
									msg += " (walk stuck at " + l.ipos(stuck) + ")"
								}
							}
							c.decide("ORDER-traversal-table", "traversal.next "+envDesc, l.pos(next.Pos()), got == ws, "effects ["+got+"] as specified", msg)
						}
					}
				}
			}
		}
	}
	c.note("traversal.next: %d environments walked, %d deviate", total, bad)
	_ = firstBad
}

func ordName(o int, a, b string) string {
	switch o {
	case -2:
		return "absent"
	case -1:
		return a + "<" + b
	case 0:
		return a + "==" + b
	}
	return a + ">" + b
}

// checkMergeOrder decides the two-cursor merge predicate and the overlay
// range filter of the index-plus-uncommitted-changes iterator over the
// ordering domain {lt, eq, gt} × {ascending, descending}.
func checkMergeOrder(c *Ctx) {
	l := c.L
	c.rule("ORDER-merge-predicate", "merge of persisted and uncommitted keys: decided for every ordering of the two cursors and both directions", 8)
	next := l.Func("", "*UnsavedFastIterator.Next")
	ctor := l.Func("", "NewUnsavedFastIterator")
	fIdx := l.Field("", "UnsavedFastIterator", "nextUnsavedNodeIdx")
	fAsc := l.Field("", "UnsavedFastIterator", "ascending")
	if next == nil || ctor == nil || fIdx == nil || fAsc == nil {
		c.anchorMissing("ORDER-merge-predicate", "UnsavedFastIterator.Next / NewUnsavedFastIterator / fields")
		return
	}
	isUnsaved := func(v ssa.Value) bool { return strings.Contains(roleOf(l, v, "", 0), "unsavedFastNodesToSort") }
	isDisk := func(v ssa.Value) bool {
		r := roleOf(l, v, "", 0)
		return strings.Contains(r, "fastIterator") || strings.Contains(r, "UnsafeBytesToStr")
	}
	mkEnv := func(ord int, asc bool) *ordEnv {
		return &ordEnv{
			cmp: func(x, y ssa.Value) (int, bool) {
				switch {
				case isDisk(x) && isUnsaved(y):
					return ord, true
				case isUnsaved(x) && isDisk(y):
					return -ord, true
				}
				return 0, false
			},
			atom: func(v ssa.Value) (int, bool) {
				if isLoadOfField(fAsc)(v) {
					if asc {
						return 1, true
					}
					return -1, true
				}
				return 0, false
			},
		}
	}
	// decision Ifs: conditions that become known once the ordering and the direction are fixed
	type dec struct {
		iff   *ssa.If
		table [3][2]int // [ord+1][asc]
		dirDependent bool
	}
	var decs []dec
	for _, b := range next.Blocks {
		iff := ifOf(b)
		if iff == nil {
			continue
		}
		var d dec
		d.iff = iff
		known := true
		for oi, ord := range []int{-1, 0, 1} {
			for ai, asc := range []bool{false, true} {
				r := mkEnv(ord, asc).evalBool(iff.Cond, 0)
				if r == 0 {
					known = false
				}
				d.table[oi][ai] = r
			}
		}
		if !known {
			continue
		}
		for oi := range d.table {
			if d.table[oi][0] != d.table[oi][1] {
				d.dirDependent = true
			}
		}
		decs = append(decs, d)
	}
	var merge, tie *dec
	for i := range decs {
		ordDependent := decs[i].table[0] != decs[i].table[1] || decs[i].table[1] != decs[i].table[2]
		if decs[i].dirDependent && ordDependent && merge == nil {
			merge = &decs[i]
		}
		if !decs[i].dirDependent && decs[i].table[1][0] > 0 && decs[i].table[0][0] < 0 && decs[i].table[2][0] < 0 {
			tie = &decs[i]
		}
	}
	if merge == nil {
		// a predicate that does not depend on the direction cannot be right
		c.bad("ORDER-merge-predicate", "UnsavedFastIterator.Next merge decision", l.pos(next.Pos()), "no branch over the two cursors' keys that depends on the direction was found")
	} else {
		// true edge must be the `uncommitted entry is next` branch: it advances the overlay cursor
		advances := false
		searchFrom([]point{blockStart(merge.iff.Block().Succs[0])}, func(in ssa.Instruction) bool {
			if isStoreToField(in, fIdx) {
				advances = true
				return true
			}
			_, isRet := in.(*ssa.Return)
			return isRet
		})
		want := [3][2]int{{1, -1}, {1, 1}, {-1, 1}} // [lt,eq,gt][desc,asc]: uncommitted entry first?
		names := []string{"disk < overlay", "disk == overlay", "disk > overlay"}
		dirs := []string{"descending", "ascending"}
		c.decide("ORDER-merge-predicate", "merge branch advances the overlay cursor", l.ipos(merge.iff), advances, "true edge consumes the uncommitted entry", "the branch taken when the predicate holds does not consume the uncommitted entry")
		for oi := range want {
			for ai := range want[oi] {
				got := merge.table[oi][ai]
				c.decide("ORDER-merge-predicate", "merge: "+names[oi]+", "+dirs[ai], l.ipos(merge.iff), got == want[oi][ai],
					"uncommitted entry "+map[int]string{1: "first", -1: "after the persisted one"}[want[oi][ai]],
					"for "+names[oi]+" while iterating "+dirs[ai]+" the uncommitted entry is "+map[int]string{1: "taken first", -1: "taken after the persisted one"}[got]+": order / currency of the merged iteration is wrong (on a tie the stale persisted copy is yielded, then the key again)")
			}
		}
	}
	okTie := false
	if tie != nil && merge != nil && edgeDominates(merge.iff.Block(), 0, tie.iff.Block()) {
		// the tie branch skips the persisted copy: calls Next on the wrapped iterator
		searchFrom([]point{blockStart(tie.iff.Block().Succs[0])}, func(in ssa.Instruction) bool {
			if cc := callCommon(in); cc != nil && cc.IsInvoke() && cc.Method.Name() == "Next" {
				okTie = true
				return true
			}
			if isStoreToField(in, fIdx) {
				return true
			}
			return false
		})
	}
	c.decide("ORDER-merge-predicate", "tie: the persisted copy is skipped", l.pos(next.Pos()), okTie, "on equal keys the wrapped iterator is advanced past the stale copy", "on equal keys the persisted copy is not skipped: the key is yielded twice")

	// overlay range filter in the constructor's Range callback
	var cb *ssa.Function
	for _, af := range ctor.AnonFuncs {
		if len(callsIn(af, predFuncString("bytes.Compare"))) >= 2 {
			cb = af
		}
	}
	if cb == nil {
		c.anchorMissing("ORDER-merge-predicate", "overlay range filter callback")
		return
	}
	isAppendStore := func(in ssa.Instruction) bool {
		st, ok := in.(*ssa.Store)
		if !ok {
			return false
		}
		call, ok := st.Val.(*ssa.Call)
		if !ok {
			return false
		}
		b, ok := call.Call.Value.(*ssa.Builtin)
		return ok && b.Name() == "append"
	}
	for _, bound := range []string{"start", "end"} {
		for _, ord := range []int{-1, 0, 1} {
			env := &ordEnv{cmp: func(x, y ssa.Value) (int, bool) {
				if valueName(y) == bound {
					return ord, true
				}
				return 0, false
			}}
			// walk from entry following decided branches; unknown branches (nil tests, the other bound) take the edge towards the append
			kept := false
			b := cb.Blocks[0]
			for steps := 0; steps < 64 && b != nil; steps++ {
				stop := false
				for _, in := range b.Instrs {
					if isAppendStore(in) {
						kept, stop = true, true
					}
					if _, isRet := in.(*ssa.Return); isRet {
						stop = true
					}
				}
				if stop {
					break
				}
				if iff := ifOf(b); iff != nil {
					r := env.evalBool(iff.Cond, 0)
					switch {
					case r > 0:
						b = b.Succs[0]
					case r < 0:
						b = b.Succs[1]
					default:
						// undecided test: prefer the successor from which the append is reachable without a decided branch
						nb := b.Succs[1]
						if v, nn, ok := nilCond(iff.Cond); ok && v != nil {
							nb = b.Succs[nn] // bound present
						}
						b = nb
					}
					continue
				}
				if len(b.Succs) == 1 {
					b = b.Succs[0]
				} else {
					break
				}
			}
			want := (bound == "start" && ord >= 0) || (bound == "end" && ord < 0)
			names := map[int]string{-1: "key < " + bound, 0: "key == " + bound, 1: "key > " + bound}
			c.decide("ORDER-merge-predicate", "overlay filter: "+names[ord], l.pos(cb.Pos()), kept == want,
				map[bool]string{true: "kept", false: "dropped"}[want], "an uncommitted key with "+names[ord]+" is "+map[bool]string{true: "kept", false: "dropped"}[kept]+" by the range filter; the range is start <= k < end")
		}
	}
}

func isBoolResult(t types.Type) bool {
	b, ok := t.Underlying().(*types.Basic)
	return ok && b.Kind() == types.Bool
}

// derivesFromOwnValid: v = (load valid) && … (lowered to a phi with a false edge
// when the current value is false, or a BinOp with it).
func derivesFromOwnValid(v ssa.Value, fa *ssa.FieldAddr, fValid *types.Var) bool {
	isOwn := func(x ssa.Value) bool {
		ld, ok := stripTrivial(x).(*ssa.UnOp)
		if !ok || ld.Op != token.MUL {
			return false
		}
		f2, ok := ld.X.(*ssa.FieldAddr)
		return ok && fieldVar(f2.X.Type(), f2.Field) == fValid && sameValue(f2.X, fa.X)
	}
	if p, ok := v.(*ssa.Phi); ok {
		// `a && b`: phi(false from the block testing a, b)
		for i, e := range p.Edges {
			if k, isC := stripTrivial(e).(*ssa.Const); isC && k.Value != nil && !constant.BoolVal(k.Value) {
				pred := p.Block().Preds[i]
				if iff := ifOf(pred); iff != nil && isOwn(iff.Cond) {
					return true
				}
			}
		}
	}
	if b, ok := v.(*ssa.BinOp); ok && b.Op == token.AND {
		return isOwn(b.X) || isOwn(b.Y)
	}
	return false
}

func underOwnValid(st *ssa.Store, fa *ssa.FieldAddr, fValid *types.Var) bool {
	fn := st.Parent()
	for _, b := range fn.Blocks {
		iff := ifOf(b)
		if iff == nil {
			continue
		}
		ld, ok := stripTrivial(iff.Cond).(*ssa.UnOp)
		if !ok || ld.Op != token.MUL {
			continue
		}
		f2, ok := ld.X.(*ssa.FieldAddr)
		if !ok || fieldVar(f2.X.Type(), f2.Field) != fValid || !sameValue(f2.X, fa.X) {
			continue
		}
		if edgeDominates(b, 0, st.Block()) {
			return true
		}
	}
	return false
}

func underFieldNil(st *ssa.Store, fa *ssa.FieldAddr, field string) bool {
	fn := st.Parent()
	for _, b := range fn.Blocks {
		iff := ifOf(b)
		if iff == nil {
			continue
		}
		v, nn, ok := nilCond(iff.Cond)
		if !ok {
			continue
		}
		ld, isLd := stripTrivial(v).(*ssa.UnOp)
		if !isLd {
			continue
		}
		f2, isFA := ld.X.(*ssa.FieldAddr)
		if !isFA || fieldName(f2.X.Type(), f2.Field) != field || !sameValue(f2.X, fa.X) {
			continue
		}
		if edgeDominates(b, 1-nn, st.Block()) {
			return true
		}
	}
	return false
}

// checkIndexIterGuard (shared by C08, C07, C01): the fast index describes the
// latest saved version only.  An iterator over it (plain or merged with the
// uncommitted overlay) may therefore be handed out only when the tree is at
// the latest version: every constructor call outside the constructors and the
// index purge is on the true edge of IsFastCacheEnabled(), which in turn can
// be true only under isLatestTreeVersion(), which compares the tree's version
// with the latest version.
func checkIndexIterGuard(c *Ctx) {
	l := c.L
	const R = "DOM-index-iter-guard"
	c.rule(R, "index iterators are handed out only for a tree at the latest version", 5)
	nfi, nufi := l.Func("", "NewFastIterator"), l.Func("", "NewUnsavedFastIterator")
	enabled := l.Func("", "*ImmutableTree.IsFastCacheEnabled")
	isLatest := l.Func("", "*ImmutableTree.isLatestTreeVersion")
	glv := l.Func("", "*nodeDB.getLatestVersion")
	purge := l.Func("", "*MutableTree.enableFastStorageAndCommitIfNotEnabled")
	fVersion := l.Field("", "ImmutableTree", "version")
	if nfi == nil || nufi == nil || enabled == nil || isLatest == nil || glv == nil || purge == nil || fVersion == nil {
		c.anchorMissing(R, "NewFastIterator / NewUnsavedFastIterator / IsFastCacheEnabled / isLatestTreeVersion / getLatestVersion")
		return
	}
	// guards on the #0 result of a call to f; pass = the edge on which it is true
	guardsOn := func(fn *ssa.Function, f *ssa.Function) []guard {
		return findGuards(fn, func(cond ssa.Value) (bool, int) {
			pass := 0
			v := stripTrivial(cond)
			if u, ok := v.(*ssa.UnOp); ok && u.Op == token.NOT {
				v, pass = stripTrivial(u.X), 1
			}
			if isResultOf(predStatic(f), 0)(v) {
				return true, pass
			}
			return false, 0
		})
	}
	for _, fn := range l.SrcFuncs {
		if l.pkgPathOf(fn) != l.ModPath || fn == nufi || fn == nfi || fn == purge {
			continue
		}
		gs := guardsOn(fn, enabled)
		for _, in := range callsIn(fn, predStatic(nfi, nufi)) {
			c.decide(R, l.fname(fn)+" hands out "+l.calleeName(in), l.ipos(in), guardsEffect(gs, in), "on the true edge of IsFastCacheEnabled()",
				"an iterator over the fast index is created without the `tree is at the latest version` test: a tree loaded at an older version iterates the latest version's keys and values")
		}
	}
	// true only under …
	trueOnlyUnder := func(fn *ssa.Function, v ssa.Value, at *ssa.BasicBlock, gs []guard) bool {
		under := func(b *ssa.BasicBlock) bool {
			for _, g := range gs {
				if edgeDominates(g.iff.Block(), g.pass, b) {
					return true
				}
			}
			return false
		}
		isFalse := func(x ssa.Value) bool {
			k, ok := x.(*ssa.Const)
			return ok && k.Value != nil && k.Value.String() == "false"
		}
		v = stripTrivial(v)
		if isFalse(v) {
			return true
		}
		if phi, ok := v.(*ssa.Phi); ok {
			for i, e := range phi.Edges {
				if isFalse(e) {
					continue
				}
				if !under(phi.Block().Preds[i]) {
					return false
				}
			}
			return true
		}
		return under(at)
	}
	gs := guardsOn(enabled, isLatest)
	okE := len(gs) > 0
	for _, r := range returnsOf(enabled) {
		if isRecoverReturn(r) {
			continue
		}
		okE = okE && trueOnlyUnder(enabled, retVal(r, 0), r.Block(), gs)
	}
	c.decide(R, "IsFastCacheEnabled is true only under isLatestTreeVersion()", l.pos(enabled.Pos()), okE, "every possibly-true result is on the true edge of isLatestTreeVersion()", "IsFastCacheEnabled can be true for a tree that is not at the latest version")
	okL, nL := true, 0
	for _, r := range returnsOf(isLatest) {
		if isRecoverReturn(r) {
			continue
		}
		v := stripTrivial(retVal(r, 0))
		if k, ok := v.(*ssa.Const); ok && k.Value != nil && k.Value.String() == "false" {
			continue
		}
		nL++
		bo, ok := v.(*ssa.BinOp)
		if !ok || bo.Op != token.EQL {
			okL = false
			continue
		}
		x, y := stripTrivial(bo.X), stripTrivial(bo.Y)
		isLV := isResultOf(predStatic(glv), 1)
		if !(isLoadOfField(fVersion)(x) && isLV(y) || isLoadOfField(fVersion)(y) && isLV(x)) {
			okL = false
		}
	}
	c.decide(R, "isLatestTreeVersion compares the tree's version with the latest version", l.pos(isLatest.Pos()), okL && nL > 0, "t.version == latest", "isLatestTreeVersion is no longer `tree version == latest version`")
}

// checkNodeKeyNil: the read API of ImmutableTree is also the read API of the
// working tree (MutableTree embeds *ImmutableTree), and a node created by an
// uncommitted write has no node key yet (`nodeKey == nil` until SaveVersion).
// Every dereference of Node.nodeKey in a method of ImmutableTree (or a closure
// nested in one) must therefore be on the non-nil edge of a test of that same
// field of that same node; otherwise iterating / reading the working state
// panics as soon as it meets an uncommitted node.
func checkNodeKeyNil(c *Ctx) {
	l := c.L
	const R = "DOM-nodekey-nil"
	c.rule(R, "ImmutableTree's read API dereferences a node's key only after testing it for nil (uncommitted nodes have none)", 2)
	fNK := l.Field("", "Node", "nodeKey")
	immT := l.NamedType("", "ImmutableTree")
	if fNK == nil || immT == nil {
		c.anchorMissing(R, "Node.nodeKey / ImmutableTree")
		return
	}
	n := 0
	for _, fn := range l.SrcFuncs {
		top := fn
		for top.Parent() != nil {
			top = top.Parent()
		}
		r := top.Signature.Recv()
		if r == nil {
			continue
		}
		if nt := derefNamed(r.Type()); nt == nil || nt.Obj() != immT.Obj() {
			continue
		}
		allInstrs(fn, func(in ssa.Instruction) {
			// dereference sites: field access through the loaded pointer, or a method call on it
			var ptr ssa.Value
			switch x := in.(type) {
			case *ssa.FieldAddr:
				ptr = x.X
			case *ssa.Call:
				if f := staticCallee(&x.Call); f != nil && f.Signature.Recv() != nil && len(x.Call.Args) > 0 {
					ptr = x.Call.Args[0]
				}
			}
			if ptr == nil || !isLoadOfField(fNK)(stripTrivial(ptr)) {
				return
			}
			n++
			path := accessPath(stripTrivial(ptr))
			ok := false
			for _, b := range fn.Blocks {
				iff := ifOf(b)
				if iff == nil {
					continue
				}
				v, nn, isNil := nilCond(iff.Cond)
				if !isNil {
					continue
				}
				v = stripTrivial(v)
				if !isLoadOfField(fNK)(v) || accessPath(v) != path {
					continue
				}
				if edgeDominates(b, nn, in.Block()) {
					ok = true
				}
			}
			c.decide(R, l.fname(fn)+" dereferences "+path, l.ipos(in), ok, "on the `nodeKey != nil` edge",
				"Node.nodeKey is dereferenced without a nil test: on a working tree (MutableTree embeds this API) a leaf created by an uncommitted Set has nodeKey == nil, and the call panics")
		})
	}
	if n < 2 {
		c.anchorMissing(R, "fewer than 2 nodeKey dereferences in ImmutableTree's methods")
	}
}

// checkEmptyValueLegal (shared by C08 and C01): a nil value is illegal, an
// EMPTY value ([]byte{}) is a legal stored value.  Presence of a value must
// therefore be tested by nil-ness; a length test (len(v) == 0, len(v) > 0)
// on a user value treats a stored empty value as absent — the entry vanishes
// from an iteration or a lookup.  Expected count today: zero such tests.
func checkEmptyValueLegal(c *Ctx) {
	l := c.L
	const R = "DOM-empty-value-legal"
	c.rule(R, "presence of a value is tested by nil-ness, never by length (empty values are legal)", 0)
	valueFields := map[string]bool{"Node.value": true, "ExportNode.Value": true, "KVPair.Value": true, "UnsavedFastIterator.nextVal": true, "FastIterator.nextFastNode": false}
	isUserValue := func(v ssa.Value) (string, bool) {
		v = stripTrivial(v)
		if ld, ok := v.(*ssa.UnOp); ok && ld.Op == token.MUL {
			if fa, ok := ld.X.(*ssa.FieldAddr); ok {
				if n := derefNamed(fa.X.Type()); n != nil {
					k := n.Obj().Name() + "." + fieldName(fa.X.Type(), fa.Field)
					if valueFields[k] {
						return k, true
					}
				}
			}
		}
		if call, ok := v.(*ssa.Call); ok {
			name := ""
			if call.Call.IsInvoke() {
				name = call.Call.Method.Name()
			} else if f := staticCallee(&call.Call); f != nil && f.Signature.Recv() != nil {
				name = f.Name()
			}
			if name == "GetValue" || name == "Value" {
				return name + "()", true
			}
		}
		return "", false
	}
	n := 0
	for _, fn := range l.SrcFuncs {
		p := l.pkgPathOf(fn)
		if p != l.ModPath && p != l.ModPath+"/fastnode" {
			continue
		}
		if isPrintingUtility(fn) {
			continue
		}
		allInstrs(fn, func(in ssa.Instruction) {
			bo, ok := in.(*ssa.BinOp)
			if !ok {
				return
			}
			switch bo.Op {
			case token.EQL, token.NEQ, token.GTR, token.LSS, token.GEQ, token.LEQ:
			default:
				return
			}
			for _, side := range [][2]ssa.Value{{bo.X, bo.Y}, {bo.Y, bo.X}} {
				call, ok := stripTrivial(side[0]).(*ssa.Call)
				if !ok {
					continue
				}
				bi, ok := call.Call.Value.(*ssa.Builtin)
				if !ok || bi.Name() != "len" {
					continue
				}
				k, isK := constInt(side[1])
				if !isK || (k != 0 && k != 1) {
					continue
				}
				if what, isV := isUserValue(call.Call.Args[0]); isV {
					n++
					c.bad(R, l.fname(fn)+" tests len("+what+")", l.ipos(in), "the length of a user value is used as a presence test: an entry whose value is the (legal) empty byte string is treated as absent")
				}
			}
		})
	}
	// a "defensive copy" made with append([]byte(nil), v...) is nil for an empty v: the empty value turns into "absent"
	for _, fn := range l.SrcFuncs {
		p := l.pkgPathOf(fn)
		if p != l.ModPath && p != l.ModPath+"/fastnode" {
			continue
		}
		allInstrs(fn, func(in ssa.Instruction) {
			call, ok := in.(*ssa.Call)
			if !ok {
				return
			}
			bi, ok := call.Call.Value.(*ssa.Builtin)
			if !ok || bi.Name() != "append" || len(call.Call.Args) != 2 {
				return
			}
			dst := stripTrivial(call.Call.Args[0])
			if cv, isCv := dst.(*ssa.Convert); isCv {
				dst = stripTrivial(cv.X)
			}
			if k, isK := dst.(*ssa.Const); !isK || !k.IsNil() {
				return
			}
			if what, isV := isUserValue(call.Call.Args[1]); isV {
				n++
				c.bad(R, l.fname(fn)+" copies "+what+" with append(nil, …)", l.ipos(in), "the copy of a user value is built by appending to a nil slice: an empty (legal) value comes out nil, and nil means `absent` to the callers (the entry vanishes from an iteration, a replay rejects it)")
			}
		})
	}
	if n == 0 {
		c.ok(R, "no length-based presence test and no nil-for-empty copy of user values", "-", "0 sites in the root package and fastnode")
	}
}

// checkCloneCopiesDecisionFields (C08, C07, C01): ImmutableTree.clone() is how the
// working tree and lastSaved are produced after every commit / rollback; the fields
// that decide which read path is taken must be carried over.
func checkCloneCopiesDecisionFields(c *Ctx) {
	l := c.L
	const R = "FLOW-clone-fields"
	c.rule(R, "ImmutableTree.clone carries over every field the read paths branch on", 4)
	cl := l.Func("", "*ImmutableTree.clone")
	it := l.NamedType("", "ImmutableTree")
	if cl == nil || it == nil {
		c.anchorMissing(R, "ImmutableTree.clone")
		return
	}
	lits := structLiteralStores(cl, it)
	if len(lits) != 1 {
		c.bad(R, "clone builds one ImmutableTree", l.pos(cl.Pos()), "expected one literal")
		return
	}
	for _, f := range []string{"root", "ndb", "version", "skipFastStorageUpgrade"} {
		r := "<zero value>"
		if v, ok := lits[0][f]; ok {
			r = roleOf(l, v, "", 0)
		}
		c.decide(R, "clone copies "+f, l.pos(cl.Pos()), r == "recv."+f, f+": t."+f, "the clone's "+f+" is `"+r+"`: after the first commit or rollback the working tree is a clone, and every decision that reads this field (index on/off, version guards) is taken on the zero value")
	}
}


// checkIndexReaders (C01, C07, C08): the fast index describes the latest SAVED
// version.  It may be consulted only by the functions whose result is guarded
// for that (ImmutableTree.Get under its version guard, MutableTree.GetVersioned)
// and by the index maintenance itself; MutableTree has no Has / GetWithIndex /
// GetByIndex of its own — it inherits ImmutableTree's — so an index shortcut in
// any of those answers for the working tree from committed state.
func checkIndexReaders(c *Ctx) {
	l := c.L
	const R = "OWN-index-readers"
	c.rule(R, "the fast index is read only by the guarded point lookups and the index iterators", 2)
	getFast := l.Func("", "*nodeDB.GetFastNode")
	if getFast == nil {
		c.anchorMissing(R, "nodeDB.GetFastNode")
		return
	}
	allowed := map[string]bool{"(*iavl.ImmutableTree).Get": true, "(*iavl.MutableTree).GetVersioned": true}
	n := 0
	for _, fn := range l.SrcFuncs {
		if l.pkgPathOf(fn) != l.ModPath {
			continue
		}
		for _, in := range callsIn(fn, predStatic(getFast)) {
			n++
			top := fn
			for top.Parent() != nil {
				top = top.Parent()
			}
			c.decide(R, l.fname(top)+" reads the fast index", l.ipos(in), allowed[l.fname(top)], "guarded point lookup",
				"the fast index is consulted from "+l.fname(top)+", which MutableTree inherits for its working tree: uncommitted inserts read as absent and uncommitted removals as present")
		}
	}
	if n < 2 {
		c.anchorMissing(R, "fewer than 2 readers of the fast index")
	}
}

// checkIteratorAccessorsPure (shared by C08, C18): Key / Value of every
// iterator type are observers: they do not write the iterator's fields
// (Valid may latch an invalid state; it hands out no memory).  An accessor that fills an iterator-owned scratch buffer
// and returns it hands out memory that its next call — or the wrapped
// cursor's advance — rewrites: the merge of index and overlay keeps the
// current value while it advances the storage cursor, and yields the NEXT
// element's value.
func checkIteratorAccessorsPure(c *Ctx, rule string) {
	l := c.L
	c.rule(rule, "the accessors that hand out memory (Key, Value) do not write the iterator", 10)
	n := 0
	for _, fn := range l.SrcFuncs {
		if !l.inModule(fn) || fn.Signature.Recv() == nil || len(fn.Params) == 0 {
			continue
		}
		switch fn.Name() {
		case "Key", "Value":
		default:
			continue
		}
		// the receiver type is an iterator: it has Next and Valid
		rt := fn.Signature.Recv().Type()
		ms := l.Prog.MethodSets.MethodSet(rt)
		if ms.Lookup(fn.Pkg.Pkg, "Next") == nil && ms.Lookup(nil, "Next") == nil {
			continue
		}
		if ms.Lookup(fn.Pkg.Pkg, "Valid") == nil && ms.Lookup(nil, "Valid") == nil {
			continue
		}
		n++
		recv := fn.Params[0]
		var bad ssa.Instruction
		allInstrs(fn, func(in ssa.Instruction) {
			if st, ok := in.(*ssa.Store); ok {
				if fa, ok := st.Addr.(*ssa.FieldAddr); ok && stripTrivial(fa.X) == ssa.Value(recv) && bad == nil {
					bad = in
				}
			}
		})
		if bad == nil {
			c.ok(rule, l.fname(fn)+" is an observer", l.pos(fn.Pos()), "no store into the receiver")
		} else {
			c.bad(rule, l.fname(fn)+" is an observer", l.ipos(bad), "an iterator accessor writes a field of the iterator (e.g. a scratch buffer it then returns): what it handed out earlier changes under the caller when the accessor is called again or the cursor advances")
		}
	}
	if n < 10 {
		c.anchorMissing(rule, fmt.Sprintf("only %d iterator accessors found", n))
	}
}

// checkSnapshotFlags (shared by C08, C07, C01): every ImmutableTree that the
// library builds around a nodeDB carries the tree's skipFastStorageUpgrade
// setting — in the literal, or set by every caller of the function that builds
// it.  A snapshot without it reads the persisted index although this session
// does not maintain it.
func checkSnapshotFlags(c *Ctx, rule string) {
	l := c.L
	c.rule(rule, "every ImmutableTree built around a nodeDB carries skipFastStorageUpgrade", 2)
	it := l.NamedType("", "ImmutableTree")
	fSkip := l.Field("", "ImmutableTree", "skipFastStorageUpgrade")
	if it == nil || fSkip == nil {
		c.anchorMissing(rule, "ImmutableTree.skipFastStorageUpgrade")
		return
	}
	n := 0
	for _, fn := range l.SrcFuncs {
		if l.pkgPathOf(fn) != l.ModPath {
			continue
		}
		for _, m := range structLiteralStores(fn, it) {
			if _, hasNdb := m["ndb"]; !hasNdb {
				continue
			}
			n++
			key := l.fname(fn) + " builds an ImmutableTree"
			if _, has := m["skipFastStorageUpgrade"]; has || len(storesToField(fn, fSkip)) > 0 {
				c.ok(rule, key, l.pos(fn.Pos()), "the flag is set in the building function")
				continue
			}
			// every caller sets it on the result
			edges := l.callersOf(fn)
			ok := len(edges) > 0
			where := l.pos(fn.Pos())
			for _, e := range edges {
				if e.Caller.Func == nil || e.Site == nil {
					ok = false
					continue
				}
				if len(storesToField(e.Caller.Func, fSkip)) == 0 {
					ok = false
					where = l.ipos(e.Site)
				}
			}
			c.decide(rule, key, where, ok, "every caller sets the flag on the result",
				"an ImmutableTree is built around the nodeDB without the skipFastStorageUpgrade setting (neither in the literal nor by every caller): with the setting on, its Get / Iterator read a persisted index that this session does not maintain")
		}
	}
	if n < 2 {
		c.anchorMissing(rule, "fewer than 2 ImmutableTree literals with a nodeDB")
	}
}

// checkWorkingIterationMerges (shared by C08, C07, C01): when the index is
// enabled, MutableTree.Iterate / Iterator serve the working state through the
// iterator that merges the overlay of uncommitted changes — unconditionally.
// "The working tree looks clean" (its root carries a node key) does not mean
// the overlay is empty: a removal that leaves an already stored subtree as the
// root changes the contents without creating an unsaved root.
func checkWorkingIterationMerges(c *Ctx, rule string) {
	l := c.L
	c.rule(rule, "with the index enabled the working state is iterated through the overlay merge only", 2)
	enabled := l.Func("", "*ImmutableTree.IsFastCacheEnabled")
	if enabled == nil {
		enabled = l.Func("", "*MutableTree.IsFastCacheEnabled")
	}
	plain := map[*ssa.Function]bool{}
	for _, nm := range []string{"*ImmutableTree.Iterate", "*ImmutableTree.Iterator", "*ImmutableTree.IterateRange", "*ImmutableTree.IterateRangeInclusive", "NewFastIterator", "NewIterator"} {
		if f := l.Func("", nm); f != nil {
			plain[f] = true
		}
	}
	for _, nm := range []string{"*MutableTree.Iterate", "*MutableTree.Iterator"} {
		fn := l.Func("", nm)
		if fn == nil || len(plain) < 4 {
			c.anchorMissing(rule, nm)
			continue
		}
		var gs []guard
		for _, b := range fn.Blocks {
			iff := ifOf(b)
			if iff == nil {
				continue
			}
			ex, ok := stripTrivial(iff.Cond).(*ssa.Extract)
			if !ok || ex.Index != 0 {
				continue
			}
			call, ok := ex.Tuple.(*ssa.Call)
			if !ok {
				continue
			}
			if f := staticCallee(&call.Call); f != nil && f.Name() == "IsFastCacheEnabled" {
				gs = append(gs, guard{iff, 0})
			}
		}
		if len(gs) == 0 {
			c.bad(rule, l.fname(fn)+" decides on IsFastCacheEnabled", l.pos(fn.Pos()), "no branch on IsFastCacheEnabled()")
			continue
		}
		var bad ssa.Instruction
		for _, g := range gs {
			searchFrom([]point{blockStart(g.iff.Block().Succs[g.pass])}, func(in ssa.Instruction) bool {
				if cc := callCommon(in); cc != nil {
					if f := staticCallee(cc); f != nil && plain[f] && bad == nil {
						bad = in
					}
				}
				return false
			})
		}
		pos := l.pos(fn.Pos())
		if bad != nil {
			pos = l.ipos(bad)
		}
		c.decide(rule, l.fname(fn)+": index enabled ⇒ overlay merge", pos, bad == nil, "no plain iterator or tree-walk fallback is reachable from the index-enabled edge",
			"with the index enabled a path reaches a plain iterator ("+func() string {
				if bad != nil {
					return l.calleeName(bad)
				}
				return ""
			}()+") instead of the overlay merge: a second condition (e.g. `the root carries a node key`) is taken for `no uncommitted changes`, but a removal that leaves a stored subtree as the root has changed the contents — the iterator shows removed keys")
	}
}
