package main

import (
	"go/token"
	"go/types"
	"strings"

	"golang.org/x/tools/go/ssa"
)

func init() {
	register(&propCheck{id: "C01", needRoot: true, run: checkC01,
		explanation: "Decided statically: (0) shared clauses — Remove changes the working state only after the key was found (DOM); every field Set/Remove can write is reset on every path of Rollback (EFFECT frame rule); SaveNode always refreshes the node cache entry of a re-used node key (PASS); the merge of persisted and uncommitted keys and the overlay range filter are decided over the ordering domain lt/eq/gt × direction (ORDER); (1) DOM — in the write path (Set → set) the failing edge of the `value == nil` test leaves with a non-nil error and its passing edge dominates every effect on the working state (store of the working root, overlay update, recursive insert); (2) OWN/FLOW — the configuration values FlushThreshold, Sync, the flusher's threshold and the cache capacity are READ only inside the flusher, the cache, nodeDB.Commit and the constructors, and no value data-derived from them is returned or stored outside those owners, so no read answer can be computed from them. Added in the build round: decision tables for insertion, lookup (by key / by rank) and removal (TABLE); indexed iteration only for a tree at the latest version (DOM-index-iter-guard); lastSaved follows every successful commit / load (PASS-last-saved). NOT decided: equality of every read with the versioned-map model over histories (value-level), nor independence from fast-index setting / initial version / backend (those options are meant to select code paths). Rules added in the later seeding rounds (each listed with what it decides in this file's rule table) are described in DESIGN.md §3 \"Third and fourth seeding rounds\" and Appendix C3–C5."})
}

func checkC01(c *Ctx) {
	l := c.L
	checkWorkingIterationMerges(c, "DOM-working-iteration")
	checkSnapshotFlags(c, "FLOW-snapshot-flags")
	checkBatchSiblings(c, "SIB-batch-wrapper")
	checkNoDirectStoreWrites(c, "OWN-store-writes")
	checkRootRecordEmpty(c, "TABLE-root-record")
	c.rule("DOM-nil-value", "nil value rejected before any effect on the working state", 4)
	c.rule("OWN-config-read", "config fields read only by their owners", 6)
	c.rule("FLOW-config-derived", "no value derived from a config field escapes its owner", 6)

	// ---- clause 1
	set := l.Func("", "*MutableTree.set")
	Set := l.Func("", "*MutableTree.Set")
	rootF := l.Field("", "ImmutableTree", "root")
	addF := l.Field("", "MutableTree", "unsavedFastNodeAdditions")
	remF := l.Field("", "MutableTree", "unsavedFastNodeRemovals")
	if set == nil || Set == nil || rootF == nil || addF == nil || remF == nil {
		c.anchorMissing("DOM-nil-value", "MutableTree.set / Set / ImmutableTree.root / overlay fields")
	} else {
		syncMapMut := predFuncString("(*sync.Map).Store", "(*sync.Map).Delete", "(*sync.Map).LoadOrStore", "(*sync.Map).Swap", "(*sync.Map).LoadAndDelete")
		effReach := l.newFnReach(func(fn *ssa.Function) bool {
			if !l.inModule(fn) {
				return false
			}
			if writesField(fn, rootF, addF, remF) {
				return true
			}
			return len(callsIn(fn, syncMapMut)) > 0
		})
		isEffect := func(in ssa.Instruction) bool {
			if isStoreToField(in, rootF, addF, remF) {
				return true
			}
			if cc := callCommon(in); cc != nil {
				if syncMapMut(cc) {
					return true
				}
				return effReach.Instr(in)
			}
			return false
		}
		// guarded(f, param): every effect in f is dominated by the pass edge of a nil test of param,
		// or is a call handing param to a function that is itself guarded.
		var guarded func(fn *ssa.Function, pname string, depth int) bool
		guarded = func(fn *ssa.Function, pname string, depth int) bool {
			gs := findGuards(fn, nilTestMatcher(isParam(fn, pname), true))
			allOK := true
			n := 0
			allInstrs(fn, func(in ssa.Instruction) {
				if !isEffect(in) {
					return
				}
				n++
				key := l.fname(fn) + " effect " + describe(l, in)
				if guardsEffect(gs, in) {
					c.ok("DOM-nil-value", key, l.ipos(in), "dominated by the passing edge of `"+pname+" != nil`")
					return
				}
				// delegation: call passes the parameter unchanged to a guarded callee
				if cc := callCommon(in); cc != nil && depth < 3 {
					if g := staticCallee(cc); g != nil && l.inModule(g) {
						for i, a := range cc.Args {
							if p, ok := stripTrivial(a).(*ssa.Parameter); ok && p.Name() == pname && i < len(g.Params) {
								if guarded(g, g.Params[i].Name(), depth+1) {
									c.ok("DOM-nil-value", key, l.ipos(in), "delegates the unmodified value to a callee that guards it")
									return
								}
							}
						}
					}
				}
				allOK = false
				c.bad("DOM-nil-value", key, l.ipos(in), "effect on the working state is reachable without passing the nil-value test of parameter "+pname)
			})
			for _, g := range gs {
				ok, why := failEdgeLeavesWithError(fn, g, isEffect)
				c.decide("DOM-nil-value", l.fname(fn)+" nil-value exit", l.ipos(g.iff), ok, "failing edge returns a non-nil error without effect", why)
				allOK = allOK && ok
			}
			if len(gs) == 0 && n > 0 && depth > 0 {
				return false
			}
			return allOK
		}
		guarded(Set, "value", 0)
	}

	checkRemoveAbsent(c)
	checkRollbackFrame(c)
	checkCacheRefresh(c)
	// Rollback and Hash are defined by lastSaved: it must follow every successful commit / load
	checkLastSaved(c)
	// a discard restores a snapshot that the working tree cannot alias
	c.rule("FRESH-working-vs-saved", "working tree and last-saved tree never alias", 6)
	checkWorkingVsSaved(c)
	// rollback-by-overwrite is made durable by its own commit (also with the fast index off)
	checkOverwriteSequence(c)
	checkEmptyValueLegal(c)
	checkCloneCopiesDecisionFields(c)
	checkIndexReaders(c)
	checkFailedWriteKeepsRoot(c)
	c.rule("PASS-root-record", "existence and identity of a version come from its stored root record, not from the node cache", 2)
	checkRootRecord(c, "PASS-root-record")
	checkMergeOrder(c)
	checkIndexIterGuard(c)

	checkTreeRules(c, l, map[string]bool{"insert": true, "remove": true, "lookup": true})

	// ---- clause 2
	type cfg struct {
		f      *types.Var
		name   string
		owners func(fn *ssa.Function) bool
	}
	recvIs := func(fn *ssa.Function, rel, tname string) bool {
		for fn.Parent() != nil {
			fn = fn.Parent()
		}
		if fn.Signature.Recv() == nil {
			return false
		}
		n := derefNamed(fn.Signature.Recv().Type())
		return n != nil && n.Obj().Name() == tname && n.Obj().Pkg().Path() == strings.TrimSuffix(l.ModPath+"/"+rel, "/")
	}
	top := func(fn *ssa.Function) *ssa.Function {
		for fn.Parent() != nil {
			fn = fn.Parent()
		}
		return fn
	}
	isFn := func(fn *ssa.Function, fs ...*ssa.Function) bool {
		t := top(fn)
		for _, f := range fs {
			if f != nil && t == f {
				return true
			}
		}
		return false
	}
	newNodeDB := l.Func("", "newNodeDB")
	commit := l.Func("", "*nodeDB.Commit")
	newBWF := l.Func("", "NewBatchWithFlusher")
	cacheNew := l.Func("cache", "New")
	defOpts := l.Func("", "DefaultOptions")
	if newNodeDB == nil || commit == nil || newBWF == nil || cacheNew == nil {
		c.anchorMissing("OWN-config-read", "newNodeDB / nodeDB.Commit / NewBatchWithFlusher / cache.New")
	}
	cfgs := []cfg{
		{l.Field("", "Options", "FlushThreshold"), "Options.FlushThreshold", func(fn *ssa.Function) bool { return isFn(fn, newNodeDB, defOpts) }},
		{l.Field("", "Options", "Sync"), "Options.Sync", func(fn *ssa.Function) bool { return isFn(fn, commit) }},
		{l.Field("", "BatchWithFlusher", "flushThreshold"), "BatchWithFlusher.flushThreshold", func(fn *ssa.Function) bool { return recvIs(fn, "", "BatchWithFlusher") || isFn(fn, newBWF) }},
		{l.Field("cache", "lruCache", "maxElementCount"), "lruCache.maxElementCount", func(fn *ssa.Function) bool { return recvIs(fn, "cache", "lruCache") || isFn(fn, cacheNew) }},
	}
	for _, cf := range cfgs {
		if cf.f == nil {
			c.anchorMissing("OWN-config-read", cf.name)
			continue
		}
		nreads := 0
		for _, fn := range l.SrcFuncs {
			allInstrs(fn, func(in ssa.Instruction) {
				var loaded ssa.Value
				switch x := in.(type) {
				case *ssa.FieldAddr:
					if fieldVar(x.X.Type(), x.Field) != cf.f {
						return
					}
					// reads = loads through this address
					for _, r := range refs(x) {
						if ld, ok := r.(*ssa.UnOp); ok && ld.Op == token.MUL {
							loaded = ld
						}
					}
				case *ssa.Field:
					if fieldVar(x.X.Type(), x.Field) != cf.f {
						return
					}
					loaded = x
				default:
					return
				}
				if loaded == nil {
					return // write only
				}
				nreads++
				key := cf.name + " read in " + l.fname(fn)
				if !cf.owners(fn) {
					c.bad("OWN-config-read", key, l.ipos(in), "configuration value is read outside its owners (flusher / cache / Commit / constructors): tree code could compute an answer from it")
					return
				}
				c.ok("OWN-config-read", key, l.ipos(in), "read by an owner")
				// forward data flow
				esc := configEscapes(l, loaded, cf.f)
				c.decide("FLOW-config-derived", key, l.ipos(in), esc == "", "derived values end in comparisons, sizes handed to the storage layer or the config field itself", esc)
			})
		}
		if nreads == 0 {
			c.anchorMissing("OWN-config-read", "no read of "+cf.name+" found")
		}
	}
	c.note("fast-index setting, initial version and backend select code paths by design and are outside the confinement rule")
}

// configEscapes follows data derived from a config read; returns "" if it
// only reaches neutral sinks.
func configEscapes(l *Loaded, v ssa.Value, self *types.Var) string {
	seen := map[ssa.Value]bool{}
	var res string
	var walk func(v ssa.Value)
	walk = func(v ssa.Value) {
		if seen[v] || res != "" {
			return
		}
		seen[v] = true
		for _, r := range refs(v) {
			switch x := r.(type) {
			case *ssa.DebugRef, *ssa.If:
			case *ssa.BinOp:
				switch x.Op {
				case token.EQL, token.NEQ, token.LSS, token.LEQ, token.GTR, token.GEQ:
					// comparison: selects when to flush / evict (neutral)
				default:
					walk(x)
				}
			case *ssa.Phi:
				walk(x)
			case *ssa.Convert:
				walk(x)
			case *ssa.ChangeType:
				walk(x)
			case *ssa.MakeInterface:
				walk(x)
			case *ssa.Return:
				res = "value derived from the configuration field is returned at " + l.ipos(x)
			case *ssa.Store:
				if fa, ok := x.Addr.(*ssa.FieldAddr); ok {
					fv := fieldVar(fa.X.Type(), fa.Field)
					if fv == self || fv.Name() == "flushThreshold" || fv.Name() == "maxElementCount" {
						continue
					}
					res = "value derived from the configuration field is stored into field " + fv.Name() + " at " + l.ipos(x)
				}
			case *ssa.Call, *ssa.Go, *ssa.Defer:
				cc := callCommon(r)
				if cc.IsInvoke() && cc.Method.Pkg() != nil && cc.Method.Pkg().Path() == corestorePkg {
					continue // capacity hint to the storage layer
				}
				if f := staticCallee(cc); f != nil {
					n := f.Name()
					if n == "NewBatchWithFlusher" || n == "New" || strings.HasPrefix(f.String(), "fmt.") {
						continue
					}
				}
				res = "value derived from the configuration field is passed to " + l.calleeName(r) + " at " + l.ipos(r)
			default:
				if val, ok := r.(ssa.Value); ok {
					walk(val)
				}
			}
		}
	}
	walk(v)
	return res
}

// checkRemoveAbsent: Remove changes the working state only after the key was found.
func checkRemoveAbsent(c *Ctx) {
	l := c.L
	rootF := l.Field("", "ImmutableTree", "root")
	addF := l.Field("", "MutableTree", "unsavedFastNodeAdditions")
	remF := l.Field("", "MutableTree", "unsavedFastNodeRemovals")
	// ---- clause 1b: Remove of an absent key leaves the working state untouched
	c.rule("DOM-remove-absent", "Remove changes the working state only after the key was found", 2)
	rem := l.Func("", "*MutableTree.Remove")
	rrem := l.Func("", "*MutableTree.recursiveRemove")
	if rem == nil || rrem == nil || rootF == nil {
		c.anchorMissing("DOM-remove-absent", "MutableTree.Remove / recursiveRemove")
	} else {
		isRemoved := isResultOf(predStatic(rrem), 3)
		gs := findGuards(rem, func(cond ssa.Value) (bool, int) {
			v := stripTrivial(cond)
			if isRemoved(v) {
				return true, 0
			}
			if u, ok := v.(*ssa.UnOp); ok && u.Op == token.NOT && isRemoved(stripTrivial(u.X)) {
				return true, 1
			}
			return false, 0
		})
		if len(gs) == 0 {
			c.bad("DOM-remove-absent", "Remove tests `removed`", l.pos(rem.Pos()), "the result `removed` of the descent is not tested")
		}
		syncMapMut := predFuncString("(*sync.Map).Store", "(*sync.Map).Delete")
		n := 0
		allInstrs(rem, func(in ssa.Instruction) {
			eff := isStoreToField(in, rootF, addF, remF)
			if cc := callCommon(in); cc != nil {
				if g := staticCallee(cc); g != nil && l.inModule(g) && g != rrem && len(callsIn(g, syncMapMut)) > 0 {
					eff = true
				}
			}
			if !eff {
				return
			}
			n++
			c.decide("DOM-remove-absent", "Remove effect "+describe(l, in), l.ipos(in), guardsEffect(gs, in), "only on the `removed` edge", "the working state is modified although the key may be absent: a Remove of a missing key replaces the (persisted) root by an unsaved copy and changes the next commit")
		})
		if n == 0 {
			c.anchorMissing("DOM-remove-absent", "Remove has no effect on the working state")
		}
	}

}
