package main

import (
	"fmt"
	"go/token"
	"go/types"
	"strings"

	"golang.org/x/tools/go/ssa"
)

func init() {
	register(&propCheck{id: "C18", needRoot: true, run: checkC18,
		explanation: "Decided statically: (1) SIB — every implementation in package db of a KVStore/Batch method that takes a key (Get, Has, Set, Delete and their Sync variants, Iterator, ReverseIterator) rejects an empty key with an error before touching its store, and every Set rejects a nil value — locally, or by delegating the unmodified argument to a sibling that does; all siblings agree; (2) FLOW — every key PrefixDB and its batch hand to the wrapped store is prefix ‖ key (or the incremented prefix as an end bound), and every key its iterator yields was stripped of exactly len(prefix) bytes after a prefix test; (3) TYPESTATE — a written batch closes itself on every success path of Write/WriteSync, and Set/Delete/Write test the closed state first; (4) LOCK — MemDB's mutex is paired on all paths, and the read lock taken for an iterator is released by the iterator goroutine on every exit under the same condition it was taken. Added in the build round: end-bound increment with carry (TABLE-prefix-increment); iterator adapter positioning / cut-off tables for all bounds / direction / ordering combinations (TABLE-backend-iterators); FRESH-prefix-buffer — keys handed to the wrapped store are never built by appending to a shared prefix slice. NOT decided: iterator range/order results for arbitrary bounds, atomicity of LevelDB's batch, reverse-range emulation. Rules added in the later seeding rounds (each listed with what it decides in this file's rule table) are described in DESIGN.md §3 \"Third and fourth seeding rounds\" and Appendix C3–C5."})
}

func lenZeroGuard(fn *ssa.Function, pname string) []guard {
	isP := isParam(fn, pname)
	return findGuards(fn, func(cond ssa.Value) (bool, int) {
		b, ok := cond.(*ssa.BinOp)
		if !ok || (b.Op != token.EQL && b.Op != token.NEQ) {
			return false, 0
		}
		z, isC := constInt(b.Y)
		if !isC || z != 0 {
			return false, 0
		}
		call, ok := stripTrivial(b.X).(*ssa.Call)
		if !ok {
			return false, 0
		}
		bi, ok := call.Call.Value.(*ssa.Builtin)
		if !ok || bi.Name() != "len" || !isP(stripTrivial(call.Call.Args[0])) {
			return false, 0
		}
		if b.Op == token.EQL {
			return true, 1
		}
		return true, 0
	})
}

func checkC18(c *Ctx) {
	l := c.L
	checkIteratorAccessorsPure(c, "PURE-iterator-accessors")
	c.rule("SIB-empty-key", "every backend method rejects an empty key / nil value before touching its store", 30)
	c.rule("FLOW-prefix-confinement", "PrefixDB hands only prefixed keys to the wrapped store and strips exactly the prefix", 12)
	c.rule("TYPESTATE-batch", "a written batch is closed; a closed batch rejects use", 8)
	c.rule("LOCK-memdb", "MemDB lock pairing incl. the iterator hand-off", 8)
	c.rule("DOM-bare-prefix-skipped", "a wrapped key equal to the bare prefix (an empty key inside the namespace) is skipped wherever the prefix iterator advances", 2)
	checkBarePrefixSkipped(c)
	c.rule("FRESH-prefix-buffer", "keys handed to the wrapped store are built in fresh memory, never by appending to a shared prefix slice", 1)
	checkPrefixBuffers(c)

	type mspec struct {
		name   string
		keys   []string
		nilVal string
	}
	kv := []mspec{{"Get", []string{"key"}, ""}, {"Has", []string{"key"}, ""}, {"Set", []string{"key"}, "value"}, {"SetSync", []string{"key"}, "value"},
		{"Delete", []string{"key"}, ""}, {"DeleteSync", []string{"key"}, ""}, {"Iterator", []string{"start", "end"}, ""}, {"ReverseIterator", []string{"start", "end"}, ""},
		{"IteratorNoMtx", []string{"start", "end"}, ""}, {"ReverseIteratorNoMtx", []string{"start", "end"}, ""}}
	batch := []mspec{{"Set", []string{"key"}, "value"}, {"Delete", []string{"key"}, ""}}
	types_ := []struct {
		name  string
		specs []mspec
	}{{"MemDB", kv}, {"GoLevelDB", kv}, {"PrefixDB", kv}, {"memDBBatch", batch}, {"goLevelDBBatch", batch}, {"prefixDBBatch", batch}}
	isEffect := func(in ssa.Instruction) bool {
		cc := callCommon(in)
		if cc == nil {
			return false
		}
		if _, isB := cc.Value.(*ssa.Builtin); isB {
			return false
		}
		if f := staticCallee(cc); f != nil {
			switch f.String() {
			case "errors.New", "fmt.Errorf":
				return false
			}
		}
		return true
	}
	for _, T := range types_ {
		named := l.NamedType("db", T.name)
		if named == nil {
			c.anchorMissing("SIB-empty-key", "db."+T.name)
			continue
		}
		for _, sp := range T.specs {
			fn := l.Func("db", "*"+T.name+"."+sp.name)
			if fn == nil {
				fn = l.Func("db", T.name+"."+sp.name)
			}
			if fn == nil {
				if sp.name == "SetSync" || sp.name == "DeleteSync" || strings.HasSuffix(sp.name, "NoMtx") {
					continue // optional extras
				}
				c.anchorMissing("SIB-empty-key", "db."+T.name+"."+sp.name)
				continue
			}
			// collect effects
			var effects []ssa.Instruction
			allInstrs(fn, func(in ssa.Instruction) {
				if isEffect(in) {
					effects = append(effects, in)
				}
			})
			check := func(what, pname string, gs []guard, nilPre []guard) {
				key := "db." + T.name + "." + sp.name + " rejects " + what + " " + pname
				// delegation: one effect, a call to a sibling method of the same receiver with unmodified params
				if len(gs) == 0 && len(effects) == 1 {
					cc := callCommon(effects[0])
					if g := staticCallee(cc); g != nil && g.Signature.Recv() != nil && len(cc.Args) > 0 && cc.Args[0] == ssa.Value(fn.Params[0]) {
						same := true
						for i, a := range cc.Args[1:] {
							if i+1 >= len(fn.Params) || a != ssa.Value(fn.Params[i+1]) {
								same = false
							}
						}
						if same && (g.Name() == strings.TrimSuffix(sp.name, "Sync") || g.Name() == sp.name) {
							c.ok("SIB-empty-key", key, l.pos(fn.Pos()), "delegates the unmodified arguments to sibling "+g.Name())
							return
						}
					}
				}
				if len(gs) == 0 && what == "nil" {
					// delegation of the unmodified value to the same method of a wrapped store
					deleg := false
					for _, e := range effects {
						cc := callCommon(e)
						if cc.IsInvoke() && cc.Method.Name() == sp.name && cc.Method.Pkg() != nil && cc.Method.Pkg().Path() == corestorePkg {
							for _, a := range cc.Args {
								if isParam(fn, pname)(stripTrivial(a)) {
									deleg = true
								}
							}
						}
					}
					if deleg {
						c.ok("SIB-empty-key", key, l.pos(fn.Pos()), "hands the unmodified value to the same method of the wrapped store, which must reject it")
						return
					}
				}
				if len(gs) == 0 {
					c.bad("SIB-empty-key", key, l.pos(fn.Pos()), "no test of "+pname+" before the store is touched; the sibling implementations reject it")
					return
				}
				for _, g := range gs {
					ok, why := failEdgeLeavesWithError(fn, g, isEffect)
					if !ok {
						c.bad("SIB-empty-key", key, l.ipos(g.iff), why)
						return
					}
				}
				for _, e := range effects {
					dom := false
					for _, g := range gs {
						if g.iff.Block().Dominates(e.Block()) {
							dom = true
						}
					}
					for _, g := range nilPre {
						if g.iff.Block().Dominates(e.Block()) {
							dom = true
						}
					}
					if !dom {
						c.bad("SIB-empty-key", key, l.ipos(e), "the store is touched ("+l.calleeName(e)+") on a path that does not evaluate the test")
						return
					}
				}
				c.ok("SIB-empty-key", key, l.pos(fn.Pos()), "failing edge returns an error; every store access is behind the test")
			}
			for _, k := range sp.keys {
				nilPre := findGuards(fn, nilTestMatcher(isParam(fn, k), true))
				check("empty", k, lenZeroGuard(fn, k), nilPre)
			}
			if sp.nilVal != "" {
				check("nil", sp.nilVal, findGuards(fn, nilTestMatcher(isParam(fn, sp.nilVal), true)), nil)
			}
		}
	}

	// ---- (2) prefix confinement
	okKey := func(role string) bool {
		role = strings.TrimPrefix(strings.TrimSuffix(role, ")"), "φ(")
		for _, alt := range strings.Split(role, "|") {
			switch {
			case strings.HasPrefix(alt, "append(cp(prefix),"), strings.HasPrefix(alt, "prefixed("), alt == "cpIncr(prefix)", alt == "cpIncr(prefix":
			default:
				return false
			}
		}
		return true
	}
	n := 0
	for _, tn := range []string{"PrefixDB", "prefixDBBatch"} {
		named := l.NamedType("db", tn)
		if named == nil {
			c.anchorMissing("FLOW-prefix-confinement", "db."+tn)
			continue
		}
		for _, m := range methodsOf(l, named) {
			recv := m.Params[0].Name()
			allInstrs(m, func(in ssa.Instruction) {
				cc := callCommon(in)
				if cc == nil || !cc.IsInvoke() || cc.Method.Pkg() == nil || cc.Method.Pkg().Path() != corestorePkg {
					return
				}
				switch cc.Method.Name() {
				case "Get", "Has", "Set", "Delete", "Iterator", "ReverseIterator":
				default:
					return
				}
				nargs := 1
				if cc.Method.Name() == "Iterator" || cc.Method.Name() == "ReverseIterator" {
					nargs = 2
				}
				for i := 0; i < nargs && i < len(cc.Args); i++ {
					n++
					role := roleOf(l, cc.Args[i], recv, 0)
					c.decide("FLOW-prefix-confinement", "db."+tn+"."+m.Name()+" → inner "+cc.Method.Name()+" arg"+string(rune('0'+i)), l.ipos(in), okKey(role),
						"key is `"+role+"`", "a key handed to the wrapped store is `"+role+"`, not prefix ‖ key: the view touches keys outside its namespace")
				}
			})
		}
	}
	if n < 8 {
		c.anchorMissing("FLOW-prefix-confinement", "fewer than 8 inner-store calls found in PrefixDB")
	}
	// iterator: Key() strips len(prefix) and Valid() tests the prefix
	keyM := l.Func("db", "*prefixDBIterator.Key")
	validM := l.Func("db", "*prefixDBIterator.Valid")
	newPI := l.Func("db", "newPrefixIterator")
	nextM := l.Func("db", "*prefixDBIterator.Next")
	if keyM == nil || validM == nil || newPI == nil || nextM == nil {
		c.anchorMissing("FLOW-prefix-confinement", "prefixDBIterator.Key / Valid / Next / newPrefixIterator")
	} else {
		okStrip := false
		for _, r := range returnsOf(keyM) {
			if sl, ok := stripTrivial(retVal(r, 0)).(*ssa.Slice); ok && sl.Low != nil && sl.High == nil {
				if roleOf(l, sl.Low, keyM.Params[0].Name(), 0) == "len(prefix)" {
					okStrip = true
				}
			}
		}
		assertV := l.Func("db", "*prefixDBIterator.assertIsValid")
		c.decide("FLOW-prefix-confinement", "prefixDBIterator.Key strips exactly len(prefix)", l.pos(keyM.Pos()), okStrip && assertV != nil && len(callsIn(keyM, predStatic(assertV))) > 0,
			"returns key[len(prefix):] after asserting validity", "Key() does not return key[len(prefix):] behind the validity assertion")
		hasPrefixTest := func(fn *ssa.Function) bool {
			found := false
			allInstrs(fn, func(in ssa.Instruction) {
				cc := callCommon(in)
				if cc == nil {
					return
				}
				if f := staticCallee(cc); f != nil && (f.String() == "bytes.HasPrefix" || f.String() == "bytes.Equal") {
					for _, a := range cc.Args {
						if valueName(a) == "prefix" {
							found = true
						}
					}
				}
			})
			return found
		}
		for _, fn := range []*ssa.Function{validM, newPI, nextM} {
			c.decide("FLOW-prefix-confinement", l.fname(fn)+" tests the prefix of the wrapped key", l.pos(fn.Pos()), hasPrefixTest(fn), "compares the wrapped iterator's key with the prefix", "no prefix test: keys outside the namespace can be yielded")
		}
	}

	// ---- (2b) prefix + 1 (exclusive end of a namespace)
	c.rule("TABLE-prefix-increment", "end bound of a prefix range: increment with carry", 6)
	checkCpIncrTable(c, l, "TABLE-prefix-increment", "db.cpIncr", l.Func("db", "cpIncr"), true)
	checkCpIncrTable(c, l, "TABLE-prefix-increment", "internal/bytes.CpIncr", l.Func("internal/bytes", "CpIncr"), false) // forward ranges only

	checkBackendTables(c)

	// ---- (3) batch typestate
	for _, bt := range []struct{ tname, state string }{{"memDBBatch", "ops"}, {"goLevelDBBatch", "batch"}} {
		fState := l.Field("db", bt.tname, bt.state)
		closeM := l.Func("db", "*"+bt.tname+".Close")
		if fState == nil || closeM == nil {
			c.anchorMissing("TYPESTATE-batch", "db."+bt.tname)
			continue
		}
		for _, wn := range []string{"Write", "WriteSync", "write"} {
			fn := l.Func("db", "*"+bt.tname+"."+wn)
			if fn == nil {
				continue
			}
			// closes itself (or delegates to a sibling writer that does)
			isClose := func(in ssa.Instruction) bool {
				cc := callCommon(in)
				if cc == nil {
					return false
				}
				g := staticCallee(cc)
				return g != nil && (g == closeM || (g.Signature.Recv() != nil && derefNamed(g.Signature.Recv().Type()) == derefNamed(fn.Signature.Recv().Type()) && (g.Name() == "Write" || g.Name() == "write")))
			}
			q := mustState(fn, false, isClose, nil)
			ok := true
			for _, r := range successReturns(fn) {
				ok = ok && q(r)
			}
			c.decide("TYPESTATE-batch", "db."+bt.tname+"."+wn+" closes the batch on success", l.pos(fn.Pos()), ok, "every success return passes Close (or a sibling writer)", "a success return of the writer does not close the batch: it can be written twice")
		}
		for _, un := range []string{"Set", "Delete", "Write", "write"} {
			fn := l.Func("db", "*"+bt.tname+"."+un)
			if fn == nil {
				continue
			}
			gs := findGuards(fn, nilTestMatcher(isLoadOfField(fState), true))
			if len(gs) == 0 {
				// delegation (Write → write)
				deleg := false
				for _, in := range callsIn(fn, func(cc *ssa.CallCommon) bool {
					g := staticCallee(cc)
					return g != nil && g.Signature.Recv() != nil && g.Name() == "write"
				}) {
					_ = in
					deleg = true
				}
				c.decide("TYPESTATE-batch", "db."+bt.tname+"."+un+" rejects a closed batch", l.pos(fn.Pos()), deleg, "delegates to the checked writer", "a closed batch is used without testing its state")
				continue
			}
			ok := true
			why := ""
			for _, g := range gs {
				o, w := failEdgeLeavesWithError(fn, g, nil)
				if !o {
					ok, why = false, w
				}
			}
			c.decide("TYPESTATE-batch", "db."+bt.tname+"."+un+" rejects a closed batch", l.pos(fn.Pos()), ok, "closed ⇒ error", why)
		}
	}

	// ---- (4) locks
	scope := func(fn *ssa.Function) bool { return strings.HasSuffix(l.pkgPathOf(fn), "/db") }
	runLockPairing(c, l, "LOCK-memdb", scope, lockHandoffs)
	outer := l.Func("db", "newMemDBIteratorMtxChoice")
	if outer == nil || len(outer.AnonFuncs) == 0 {
		c.anchorMissing("LOCK-memdb", "newMemDBIteratorMtxChoice and its goroutine")
		return
	}
	// hand-off: RLock under `useMtx` before the go statement; goroutine defers RUnlock under the same flag in its entry block
	condOf := func(in ssa.Instruction) string {
		for b := in.Block(); b != nil; b = b.Idom() {
			id := b.Idom()
			if id == nil {
				break
			}
			if iff := ifOf(id); iff != nil && edgeDominates(id, 0, in.Block()) {
				if n := valueName(iff.Cond); n != "" {
					return n
				}
				return roleOf(l, iff.Cond, "", 0)
			}
		}
		return ""
	}
	var lockAt, goAt ssa.Instruction
	allInstrs(outer, func(in ssa.Instruction) {
		if cc := callCommon(in); cc != nil {
			if op, ok := lockOpOf(cc); ok && op.lock && strings.HasSuffix(op.key, ":r") {
				lockAt = in
			}
		}
		if _, ok := in.(*ssa.Go); ok {
			goAt = in
		}
	})
	var deferAt ssa.Instruction
	gor := outer.AnonFuncs[0]
	for _, af := range outer.AnonFuncs {
		allInstrs(af, func(in ssa.Instruction) {
			if d, ok := in.(*ssa.Defer); ok {
				if op, ok := lockOpOf(&d.Call); ok && op.unlock && strings.HasSuffix(op.key, ":r") {
					deferAt, gor = in, af
				}
			}
		})
	}
	ok := lockAt != nil && goAt != nil && deferAt != nil
	why := "RLock / go / deferred RUnlock not found"
	if ok {
		norm := func(s string) string {
			for _, p := range []string{"local:", "free:", "param:"} {
				s = strings.TrimPrefix(s, p)
			}
			return s
		}
		c1 := norm(condOf(lockAt))
		c2 := norm(condOf(deferAt))
		entryRegion := deferAt.Block() == gor.Blocks[0] || (deferAt.Block().Idom() == gor.Blocks[0])
		switch {
		case c1 == "" || c1 != c2:
			ok, why = false, "the lock is taken under `"+c1+"` but released under `"+c2+"`"
		case !entryRegion:
			ok, why = false, "the deferred RUnlock is not registered at the goroutine's entry: an early exit keeps the database read-locked forever"
		}
		// the go statement is reached on every path after the lock
		passed := mustState(outer, false, func(in ssa.Instruction) bool { return in == goAt }, nil)
		for _, r := range returnsOf(outer) {
			if !passed(r) {
				ok, why = false, "a return is reachable without starting the goroutine that releases the lock"
			}
		}
	}
	c.decide("LOCK-memdb", "MemDB iterator read-lock hand-off", l.pos(outer.Pos()), ok, "taken and released under the same flag; release registered at goroutine entry; goroutine always started", why)
}

var _ = types.NewPointer

// checkBackendTables: positioning and range logic of the LevelDB and MemDB
// iterator adapters as decision tables over bounds absent/present, direction
// and the ordering of the current key against the bounds.
func checkBackendTables(c *Ctx) {
	l := c.L
	c.rule("TABLE-backend-iterators", "iterator adapters: positioning and [start,end) cut-off for every bounds/direction/ordering combination", 30)
	b2i := func(b bool) int {
		if b {
			return 1
		}
		return -1
	}
	invokeEv := func(call *ssa.Call) string {
		if call.Call.IsInvoke() {
			return call.Call.Method.Name()
		}
		if f := staticCallee(&call.Call); f != nil && f.Signature.Recv() != nil && !l.inModule(f) {
			return f.Name()
		}
		return ""
	}
	// (a) LevelDB positioning
	if fn := l.Func("db", "newGoLevelDBIterator"); fn == nil {
		c.anchorMissing("TABLE-backend-iterators", "newGoLevelDBIterator")
	} else {
		for _, rev := range []bool{true, false} {
			for _, sNil := range []bool{true, false} {
				for _, eNil := range []bool{true, false} {
					for _, seekOK := range []bool{true, false} {
						for _, ord := range []int{-1, 0, 1} { // cmp(end, key at or after end)
							rev, sNil, eNil, seekOK, ord := rev, sNil, eNil, seekOK, ord
							env := &tableEnv{l: l, flag: map[string]int{}, cmp: func(a, b string) (int, bool) {
								if a == "arg2" {
									return ord, true
								}
								return 0, false
							}}
							env.isNil = func(role string) int {
								switch role {
								case "arg1":
									return b2i(sNil)
								case "arg2":
									return b2i(eNil)
								}
								return 0
							}
							w := &walker{vals: map[ssa.Value]int{}}
							w.env = &walkEnv{evalAtom: func(w *walker, v ssa.Value) int {
								if p, ok := v.(*ssa.Parameter); ok && p.Name() == "isReverse" {
									return b2i(rev)
								}
								if call, ok := v.(*ssa.Call); ok && call.Call.IsInvoke() && call.Call.Method.Name() == "Seek" {
									return b2i(seekOK)
								}
								return env.atom(w, v)
							}}
							w.onCall = func(w *walker, call *ssa.Call) {
								if ev := invokeEv(call); ev != "" && ev != "Key" {
									arg := ""
									if ev == "Seek" {
										arg = "(" + roleOf(l, call.Call.Args[0], "", 0) + ")"
									}
									w.events = append(w.events, ev+arg)
								}
							}
							ret, _ := w.run(fn)
							var want string
							switch {
							case rev && eNil:
								want = "Last"
							case rev && seekOK && ord <= 0:
								want = "Seek(arg2),Prev"
							case rev && seekOK:
								want = "Seek(arg2)"
							case rev:
								want = "Seek(arg2),Last"
							case sNil:
								want = "First"
							default:
								want = "Seek(arg1)"
							}
							got := strings.Join(w.events, ",")
							// only report distinct meaningful environments
							if !rev && (seekOK || ord != 0 || eNil) {
								continue
							}
							if rev && eNil && (seekOK || ord != 0 || sNil) {
								continue
							}
							if rev && !eNil && sNil {
								continue
							}
							if rev && !eNil && !seekOK && ord != 0 {
								continue
							}
							c.decide("TABLE-backend-iterators", fmt.Sprintf("LevelDB positioning reverse=%v start absent=%v end absent=%v seek found=%v end vs found key %+d", rev, sNil, eNil, seekOK, ord), l.pos(fn.Pos()), got == want && ret != nil,
								got, "positions with ["+got+"], the rule is ["+want+"] (reverse iteration starts at the last key strictly below end)")
						}
					}
				}
			}
		}
	}
	// (a2) PrefixDB bound translation
	for _, name := range []string{"*PrefixDB.Iterator", "*PrefixDB.ReverseIterator"} {
		fn := l.Func("db", name)
		if fn == nil {
			c.anchorMissing("TABLE-backend-iterators", name)
			continue
		}
		for _, eNil := range []bool{true, false} {
			eNil := eNil
			env := &tableEnv{l: l, flag: map[string]int{}, cmp: func(a, b string) (int, bool) { return 0, false }}
			env.recv = fn.Params[0].Name()
			env.ints = func(v ssa.Value, role string) (int64, bool) {
				if strings.HasPrefix(role, "len(") {
					return 3, true // non-empty bounds
				}
				return 0, false
			}
			env.isNil = func(role string) int {
				switch role {
				case "arg0":
					return -1
				case "arg1":
					return b2i(eNil)
				}
				return 0
			}
			w := &walker{vals: map[ssa.Value]int{}}
			w.env = &walkEnv{evalAtom: env.atom}
			var got string
			w.onCall = func(w *walker, call *ssa.Call) {
				if call.Call.IsInvoke() && (call.Call.Method.Name() == "Iterator" || call.Call.Method.Name() == "ReverseIterator") {
					got = call.Call.Method.Name() + "(" + roleOf(l, w.resolve(call.Call.Args[0]), env.recv, 0) + ", " + roleOf(l, w.resolve(call.Call.Args[1]), env.recv, 0) + ")"
				}
			}
			ret, _ := w.run(fn)
			m := strings.TrimPrefix(name, "*PrefixDB.")
			want := m + "(append(cp(prefix),arg0), append(cp(prefix),arg1))"
			if eNil {
				want = m + "(append(cp(prefix),arg0), cpIncr(prefix))"
			}
			c.decide("TABLE-backend-iterators", fmt.Sprintf("PrefixDB.%s bounds, end absent=%v", m, eNil), l.pos(fn.Pos()), got == want && ret != nil, got, "inner call is `"+got+"`, the translation is `"+want+"`")
		}
	}
	// (b) LevelDB Valid cut-off
	if fn := l.Func("db", "*goLevelDBIterator.Valid"); fn == nil {
		c.anchorMissing("TABLE-backend-iterators", "goLevelDBIterator.Valid")
	} else {
		for _, rev := range []bool{true, false} {
			for _, bNil := range []bool{true, false} {
				for _, ord := range []int{-1, 0, 1} { // cmp(key, bound)
					rev, bNil, ord := rev, bNil, ord
					env := &tableEnv{l: l, flag: map[string]int{"isInvalid": -1, "isReverse": b2i(rev), "Valid()": 1}, cmp: func(a, b string) (int, bool) {
						// forward compares (end, key); reverse compares (key, start)
						if strings.HasPrefix(a, "Key(") {
							return ord, true
						}
						if strings.HasPrefix(b, "Key(") {
							return -ord, true
						}
						return 0, false
					}}
					env.isNil = func(role string) int {
						if role == "start" || role == "end" {
							return b2i(bNil)
						}
						return 0
					}
					w := &walker{vals: map[ssa.Value]int{}}
					env.recv = fn.Params[0].Name()
					w.env = &walkEnv{evalAtom: func(w *walker, v ssa.Value) int {
						if call, ok := v.(*ssa.Call); ok && call.Call.IsInvoke() && call.Call.Method.Name() == "Valid" {
							return 1
						}
						return env.atom(w, v)
					}}
					ret, stuck := w.run(fn)
					got := "stuck"
					if ret != nil {
						got = roleOf(l, retVal(ret, 0), env.recv, 0)
					} else if stuck != nil {
						got = "stuck at " + l.ipos(stuck)
					}
					valid := bNil || (rev && ord >= 0) || (!rev && ord < 0)
					want := map[bool]string{true: "true", false: "false"}[valid]
					bound := map[bool]string{true: "start", false: "end"}[rev]
					c.decide("TABLE-backend-iterators", fmt.Sprintf("LevelDB Valid reverse=%v %s absent=%v key vs %s %+d", rev, bound, bNil, bound, ord), l.pos(fn.Pos()), got == want, got, "Valid() is "+got+", the range [start,end) requires "+want)
				}
			}
		}
	}
	// (c) MemDB traversal selection
	outer := l.Func("db", "newMemDBIteratorMtxChoice")
	if outer == nil || len(outer.AnonFuncs) == 0 {
		c.anchorMissing("TABLE-backend-iterators", "newMemDBIteratorMtxChoice goroutine")
		return
	}
	gor := outer.AnonFuncs[0]
	for _, af := range outer.AnonFuncs {
		if len(af.AnonFuncs) > 0 {
			gor = af
		}
	}
	for _, sNil := range []bool{true, false} {
		for _, eNil := range []bool{true, false} {
			for _, rev := range []bool{true, false} {
				sNil, eNil, rev := sNil, eNil, rev
				env := &tableEnv{l: l, flag: map[string]int{}, cmp: func(a, b string) (int, bool) { return 0, false }}
				w := &walker{vals: map[ssa.Value]int{}}
				w.env = &walkEnv{evalAtom: func(w *walker, v ssa.Value) int {
					if u, ok := v.(*ssa.UnOp); ok && u.Op == token.NOT {
						return 0 // negations are evaluated by the walker
					}
					switch valueName(v) {
					case "useMtx":
						if _, isBin := v.(*ssa.BinOp); !isBin {
							return -1
						}
					case "reverse":
						if _, isBin := v.(*ssa.BinOp); !isBin {
							return b2i(rev)
						}
					}
					if bo, ok := v.(*ssa.BinOp); ok {
						if vv, nn, isNil := nilCond(bo); isNil {
							var n int
							switch valueName(vv) {
							case "start":
								n = b2i(sNil)
							case "end":
								n = b2i(eNil)
							default:
								return env.atom(w, v)
							}
							if nn == 0 {
								return -n
							}
							return n
						}
					}
					return env.atom(w, v)
				}}
				w.onCall = func(w *walker, call *ssa.Call) {
					if f := staticCallee(&call.Call); f != nil && f.Signature.Recv() != nil && strings.Contains(f.String(), "btree") {
						w.events = append(w.events, f.Name())
					}
				}
				w.onStore = func(w *walker, st *ssa.Store) {
					if n := valueName(st.Addr); n == "skipEqual" || n == "abortLessThan" {
						if !isNilConst(stripTrivial(st.Val)) {
							w.events = append(w.events, n+":="+valueName(st.Val))
						}
					}
				}
				w.run(gor)
				var want string
				switch {
				case sNil && eNil && !rev:
					want = "Ascend"
				case sNil && eNil:
					want = "Descend"
				case eNil && !rev:
					want = "AscendGreaterOrEqual"
				case !rev:
					want = "AscendRange"
				case eNil:
					want = "abortLessThan:=start,Descend"
				default:
					want = "skipEqual:=end,abortLessThan:=start,DescendLessOrEqual"
				}
				got := strings.Join(w.events, ",")
				c.decide("TABLE-backend-iterators", fmt.Sprintf("MemDB traversal start absent=%v end absent=%v reverse=%v", sNil, eNil, rev), l.pos(gor.Pos()), got == want, got, "uses ["+got+"], the rule is ["+want+"] (btree's descending range is (start,end]; [start,end) needs the end skipped and a stop below start)")
			}
		}
	}
	// (d) MemDB visitor
	if len(gor.AnonFuncs) == 0 {
		c.anchorMissing("TABLE-backend-iterators", "MemDB visitor closure")
		return
	}
	vis := gor.AnonFuncs[0]
	for _, sk := range []int{0, 1, 2} { // skipEqual: absent, equal to key, different
		for _, ab := range []int{0, 1, 2} { // abortLessThan: absent, key below it, key not below it
			sk, ab := sk, ab
			env := &tableEnv{l: l, flag: map[string]int{}, cmp: func(a, b string) (int, bool) { return 0, false }}
			w := &walker{vals: map[ssa.Value]int{}}
			w.env = &walkEnv{evalAtom: func(w *walker, v ssa.Value) int {
				if bo, ok := v.(*ssa.BinOp); ok {
					if vv, nn, isNil := nilCond(bo); isNil {
						var n int
						switch valueName(vv) {
						case "skipEqual":
							n = b2i(sk == 0)
						case "abortLessThan":
							n = b2i(ab == 0)
						default:
							return env.atom(w, v)
						}
						if nn == 0 {
							return -n
						}
						return n
					}
					if call, ok := stripTrivial(bo.X).(*ssa.Call); ok {
						if f := staticCallee(&call.Call); f != nil && f.String() == "bytes.Compare" {
							if k, isC := constInt(bo.Y); isC {
								o := 1
								if ab == 1 {
									o = -1
								}
								return cmpHolds(bo.Op, sign(int64(o)-k))
							}
						}
					}
				}
				if call, ok := v.(*ssa.Call); ok {
					if f := staticCallee(&call.Call); f != nil && f.String() == "bytes.Equal" {
						return b2i(sk == 1)
					}
				}
				return env.atom(w, v)
			}}
			sent := false
			var ret *ssa.Return
			// the visitor ends in a select: walk until the select, then stop
			b := vis.Blocks[0]
			var prev *ssa.BasicBlock
			outcome := ""
			for steps := 0; steps < 50 && outcome == ""; steps++ {
				for _, in := range b.Instrs {
					if p, ok := in.(*ssa.Phi); ok {
						for i, pb := range b.Preds {
							if pb == prev {
								w.vals[p] = w.eval(p.Edges[i], 0)
							}
						}
					}
				}
				for _, in := range b.Instrs {
					switch x := in.(type) {
					case *ssa.Store:
						if valueName(x.Addr) == "skipEqual" && isNilConst(stripTrivial(x.Val)) {
							outcome += "clear-skip,"
						}
					case *ssa.Select:
						sent = true
						outcome += "send"
					case *ssa.If:
						if outcome == "send" {
							break
						}
						r := w.eval(x.Cond, 0)
						if r == 0 {
							outcome += "stuck"
						} else {
							prev = b
							if r > 0 {
								b = b.Succs[0]
							} else {
								b = b.Succs[1]
							}
						}
					case *ssa.Jump:
						prev = b
						b = b.Succs[0]
					case *ssa.Return:
						ret = x
						k, _ := stripTrivial(retVal(x, 0)).(*ssa.Const)
						if k != nil && k.Value != nil {
							outcome += "return " + k.Value.String()
						} else {
							outcome += "return ?"
						}
					}
					if outcome != "" && !strings.HasSuffix(outcome, ",") {
						break
					}
				}
				if strings.HasSuffix(outcome, ",") {
					// after clearing skipEqual the visitor returns true
					continue
				}
			}
			_ = sent
			_ = ret
			var want string
			switch {
			case sk == 1:
				want = "clear-skip,return true"
			case ab == 1:
				want = "return false"
			default:
				want = "send"
			}
			c.decide("TABLE-backend-iterators", fmt.Sprintf("MemDB visitor skipEqual=%s abortLessThan=%s", []string{"absent", "equals key", "differs"}[sk], []string{"absent", "key below", "key not below"}[ab]), l.pos(vis.Pos()), outcome == want, outcome, "visitor does ["+outcome+"], the rule is ["+want+"] (skip the exclusive end once, stop below start, otherwise yield)")
		}
	}
}

// checkPrefixBuffers: `append(shared, key...)` writes into shared's backing
// array whenever it has spare capacity; a store that keeps keys by reference
// (MemDB) then sees its stored keys rewritten by the next operation.  In the
// db package every append whose destination is a slice loaded from a struct
// field (the wrapper's prefix) must go through a copy (cp / make+copy) or a
// full slice expression that caps the capacity.
func checkPrefixBuffers(c *Ctx) {
	l := c.L
	const R = "FRESH-prefix-buffer"
	n := 0
	for _, fn := range l.SrcFuncs {
		if l.pkgPathOf(fn) != l.ModPath+"/db" {
			continue
		}
		allInstrs(fn, func(in ssa.Instruction) {
			call, ok := in.(*ssa.Call)
			if !ok {
				return
			}
			bi, ok := call.Call.Value.(*ssa.Builtin)
			if !ok || bi.Name() != "append" || len(call.Call.Args) == 0 {
				return
			}
			dst := call.Call.Args[0]
			role := roleOf(l, dst, "", 0)
			// destinations rooted at the receiver / a parameter's field, or a parameter itself
			shared := false
			switch x := stripTrivial(dst).(type) {
			case *ssa.UnOp:
				if _, isFA := x.X.(*ssa.FieldAddr); isFA && x.Op == token.MUL {
					shared = true
				}
			case *ssa.Field:
				shared = true
			case *ssa.Parameter:
				shared = true
			}
			if sl, ok := stripTrivial(dst).(*ssa.Slice); ok && sl.Max != nil {
				shared = false // capacity capped: append must reallocate
			}
			// appending to the function's own accumulator stored back into the same field is not a key build
			if shared {
				for _, r := range refs(call) {
					if st, ok := r.(*ssa.Store); ok && roleOf(l, st.Addr, "", 0) == role {
						shared = false
					}
				}
			}
			if !strings.Contains(strings.ToLower(role), "prefix") && !shared {
				return
			}
			n++
			c.decide(R, l.fname(fn)+" append("+role+", …)", l.ipos(in), !shared, "destination is a fresh copy", "append writes into the shared slice `"+role+"` when it has spare capacity: keys already handed to a by-reference store are rewritten by the next operation")
		})
	}
	if n < 1 {
		c.anchorMissing(R, "no prefix-building append found in package db")
	}
}

// checkBarePrefixSkipped: inside a prefix namespace the wrapped key that
// equals the prefix itself would surface as the EMPTY key, which no backend
// may yield.  It sorts first in forward order and last in reverse order, so
// both the constructor (first position) and Next (every later position) must
// test for it and advance once more.
func checkBarePrefixSkipped(c *Ctx) {
	l := c.L
	const R = "DOM-bare-prefix-skipped"
	for _, name := range []string{"newPrefixIterator", "*prefixDBIterator.Next"} {
		fn := l.Func("db", name)
		if fn == nil {
			c.anchorMissing(R, "db."+name)
			continue
		}
		isAdvance := func(in ssa.Instruction) bool {
			cc := callCommon(in)
			if cc == nil {
				return false
			}
			if cc.IsInvoke() {
				return cc.Method.Name() == "Next"
			}
			f := staticCallee(cc)
			return f != nil && f.Name() == "Next"
		}
		found, ok := false, true
		for _, b := range fn.Blocks {
			iff := ifOf(b)
			if iff == nil {
				continue
			}
			call, isCall := stripTrivial(iff.Cond).(*ssa.Call)
			if !isCall {
				continue
			}
			f := staticCallee(&call.Call)
			if f == nil || f.String() != "bytes.Equal" {
				continue
			}
			a, bb := roleOf(l, call.Call.Args[0], "", 0), roleOf(l, call.Call.Args[1], "", 0)
			isKey := func(r string) bool { return strings.HasPrefix(r, "Key(") }
			isPfx := func(r string) bool { return r == "arg0" || strings.HasSuffix(r, "prefix") }
			if !(isKey(a) && isPfx(bb) || isKey(bb) && isPfx(a)) {
				continue
			}
			found = true
			// on the `equal` edge an advance happens before any return
			searchFrom([]point{blockStart(b.Succs[0])}, func(x ssa.Instruction) bool {
				if isAdvance(x) {
					return true
				}
				if _, isRet := x.(*ssa.Return); isRet {
					ok = false
					return true
				}
				return false
			})
		}
		c.decide(R, "db."+name+" skips the bare-prefix key", l.pos(fn.Pos()), found && ok, "bytes.Equal(key, prefix) ⇒ advance once more",
			"the wrapped key equal to the prefix is not skipped here: in reverse order (where it comes last) the namespace yields an entry with an empty key")
	}
}
