package main

import (
	"strings"
	"go/token"
	"go/types"
	"sort"

	"golang.org/x/tools/go/ssa"
)

func init() {
	register(&propCheck{id: "C09", needRoot: true, run: checkC09,
		explanation: "Decided statically: (1) EFFECT frame rule — every field of MutableTree/ImmutableTree that Set or Remove can write (transitively, through the call graph; overlay maps count by content) is re-initialised on every path of Rollback(), with the fast-index overlay allowed to be conditional on the same `fast index disabled` flag that guards all its writers; so no working state introduced by the write API survives a discard; (2) PASS — every success path of nodeDB.DeleteVersionsFrom that issued deletions resets the cached latest version, and if it deleted legacy roots resets the cached legacy boundary; (3) ORDER — LoadVersionForOverwriting is load ≺ range delete ≺ commit ≺ index rebuild, each step only after the previous succeeded. Added in the build round: working tree and lastSaved never alias (FRESH); SaveNode refreshes the cache entry of a re-used node key (PASS-cache-refresh); lastSaved follows every successful commit / load; the index rebuild after a rollback is always reached and writes its label last (ORDER-index-rebuild). NOT decided: indistinguishability from the twin history (node-cache contents, re-used node keys, values). Rules added in the later seeding rounds (each listed with what it decides in this file's rule table) are described in DESIGN.md §3 \"Third and fourth seeding rounds\" and Appendix C3–C5."})
}

// skipGuard: If on a load of a field named skipFastStorageUpgrade; returns
// the successor index on which the fast index is ENABLED (flag false).
func skipGuardEnabledSucc(iff *ssa.If) (int, bool) {
	v := stripTrivial(iff.Cond)
	neg := false
	if u, ok := v.(*ssa.UnOp); ok && u.Op == token.NOT {
		neg = true
		v = stripTrivial(u.X)
	}
	ld, ok := v.(*ssa.UnOp)
	if !ok || ld.Op != token.MUL {
		return 0, false
	}
	fa, ok := ld.X.(*ssa.FieldAddr)
	if !ok || fieldName(fa.X.Type(), fa.Field) != "skipFastStorageUpgrade" {
		return 0, false
	}
	if neg {
		return 0, true
	}
	return 1, true
}

// underFastEnabled: instruction executes only when the fast index is enabled.
func underFastEnabled(in ssa.Instruction) bool {
	fn := in.Parent()
	for _, b := range fn.Blocks {
		iff := ifOf(b)
		if iff == nil {
			continue
		}
		if en, ok := skipGuardEnabledSucc(iff); ok && edgeDominates(b, en, in.Block()) {
			return true
		}
	}
	return false
}

func checkC09(c *Ctx) {
	l := c.L
	checkIndexPurgeClosesIterator(c, "CONTRACT-purge-closes-iterator")
	checkNoWriteUnderRangeIterator(c, "CONTRACT-no-write-under-iterator")
	c.rule("PASS-root-record", "existence and identity of a version come from its stored root record, not from the node cache or the working tree", 2)
	checkRootRecord(c, "PASS-root-record")
	c.rule("EFFECT-rollback-frame", "working state written by Set/Remove ⊆ state reset by Rollback", 3)
	c.rule("PASS-reset-counters", "DeleteVersionsFrom resets cached version counters", 2)
	c.rule("ORDER-overwrite-sequence", "LoadVersionForOverwriting step order", 3)

	checkRollbackFrame(c)
	fEmb := l.Field("", "MutableTree", "ImmutableTree")
	if fEmb == nil {
		return
	}
	// ---- (1b) the working tree and lastSaved are distinct, fresh objects
	checkWorkingVsSaved(c)
	checkCacheRefresh(c)
	// Rollback returns to lastSaved: it must follow every successful commit / load
	checkLastSaved(c)
	// the index rebuild that follows a rollback-by-overwrite is restartable: label last, decision always reached
	c.rule("ORDER-index-rebuild", "rollback reaches the index rebuild decision; the rebuild writes its label last", 3)
	checkRebuildDecision(c, "ORDER-index-rebuild")
	checkRollbackDropsLabel(c, "PASS-rollback-drops-label")
	checkIndexLabelLast(c, "ORDER-index-rebuild")

	// ---- (2)
	dvf := l.Func("", "*nodeDB.DeleteVersionsFrom")
	rlv := l.Func("", "*nodeDB.resetLatestVersion")
	rllv := l.Func("", "*nodeDB.resetLegacyLatestVersion")
	dln := l.Func("", "*nodeDB.deleteLegacyNodes")
	fLatest := l.Field("", "nodeDB", "latestVersion")
	fLegacy := l.Field("", "nodeDB", "legacyLatestVersion")
	if dvf == nil || rlv == nil || dln == nil || fLatest == nil || fLegacy == nil {
		c.anchorMissing("PASS-reset-counters", "nodeDB.DeleteVersionsFrom / resetLatestVersion / deleteLegacyNodes")
	} else {
		mut := batchMutationReach(l)
		legacyReach := l.newReach(predStatic(dln))
		isResetLatest := func(in ssa.Instruction) bool {
			if cc := callCommon(in); cc != nil && predStatic(rlv)(cc) {
				return true
			}
			return isStoreToField(in, fLatest)
		}
		isResetLegacy := func(in ssa.Instruction) bool {
			if cc := callCommon(in); cc != nil && rllv != nil && predStatic(rllv)(cc) {
				return true
			}
			return isStoreToField(in, fLegacy)
		}
		check := func(name string, starts []ssa.Instruction, isReset func(ssa.Instruction) bool) {
			if len(starts) == 0 {
				c.anchorMissing("PASS-reset-counters", "no "+name+" call in DeleteVersionsFrom")
				return
			}
			var bad *ssa.Return
			var pts []point
			for _, s := range starts {
				pts = append(pts, after(s))
			}
			ei := errResultIndex(dvf.Signature)
			searchFrom(pts, func(in ssa.Instruction) bool {
				if isReset(in) {
					return true
				}
				if r, ok := in.(*ssa.Return); ok {
					if errNilness(retVal(r, ei), r.Block(), 0) <= 0 && bad == nil {
						bad = r
					}
					return true
				}
				return false
			})
			c.decide("PASS-reset-counters", "DeleteVersionsFrom "+name, l.ipos(starts[0]), bad == nil,
				"every success return after the deletion passes the reset", "a success return is reachable after the deletion without resetting the cached counter")
		}
		var dels, legacyDels []ssa.Instruction
		allInstrs(dvf, func(in ssa.Instruction) {
			cc := callCommon(in)
			if cc == nil {
				return
			}
			// a call that is handed a closure is classified by the closure's
			// body (the call graph is context-insensitive for the shared
			// traversal helper)
			var closures []*ssa.Function
			for _, a := range cc.Args {
				if mc, ok := a.(*ssa.MakeClosure); ok {
					if fn, ok := mc.Fn.(*ssa.Function); ok {
						closures = append(closures, fn)
					}
				}
			}
			if len(closures) > 0 {
				for _, fn := range closures {
					if legacyReach.Fn(fn) {
						legacyDels = append(legacyDels, in)
						return
					}
				}
				for _, fn := range closures {
					if mut.Fn(fn) {
						dels = append(dels, in)
						return
					}
				}
				return
			}
			if legacyReach.Instr(in) {
				legacyDels = append(legacyDels, in)
			} else if mut.Instr(in) {
				dels = append(dels, in)
			}
		})
		check("resets latestVersion after range delete", append(dels, legacyDels...), isResetLatest)
		check("resets legacyLatestVersion after legacy delete", legacyDels, isResetLegacy)
	}

	// ---- (3)
	checkOverwriteSequence(c)
	checkRollbackRange(c)
	checkLegacyRootConsumers(c, "DOM-legacy-empty-root")
	// ---- (4) the range scans of a rollback cannot end early unnoticed
	c.rule("ERR-E3-rollback", "the scans that delete the erased versions consult the iterator's error before reporting success", 2)
	{
		ea := newErrAnalysis(c, l)
		var fns []*ssa.Function
		for _, n := range []string{"*nodeDB.DeleteVersionsFrom", "*nodeDB.traverseRange", "*nodeDB.traversePrefix", "*nodeDB.traverseFastNodes", "*MutableTree.enableFastStorageAndCommitIfNotEnabled"} {
			if f := l.Func("", n); f != nil {
				fns = append(fns, f)
			}
		}
		ea.runE3("ERR-E3-rollback", func(fn *ssa.Function) bool {
			for f := fn; f != nil; f = f.Parent() {
				for _, g := range fns {
					if f == g {
						return true
					}
				}
			}
			return false
		})
	}
}

func fieldOwner(n *types.Named, f *types.Var) (int, bool) {
	st, ok := n.Underlying().(*types.Struct)
	if !ok {
		return 0, false
	}
	for i := 0; i < st.NumFields(); i++ {
		if st.Field(i) == f {
			return i, true
		}
	}
	return 0, false
}

// checkRollbackFrame: EFFECT frame rule (written by Set/Remove ⊆ reset by Rollback).
func checkRollbackFrame(c *Ctx) {
	l := c.L
	c.rule("EFFECT-rollback-frame", "working state written by Set/Remove ⊆ state reset by Rollback", 3)
	Set := l.Func("", "*MutableTree.Set")
	Rem := l.Func("", "*MutableTree.Remove")
	Rb := l.Func("", "*MutableTree.Rollback")
	mt := l.NamedType("", "MutableTree")
	it := l.NamedType("", "ImmutableTree")
	fEmb := l.Field("", "MutableTree", "ImmutableTree")
	if Set == nil || Rem == nil || Rb == nil || mt == nil || it == nil || fEmb == nil {
		c.anchorMissing("EFFECT-rollback-frame", "Set / Remove / Rollback / MutableTree / ImmutableTree")
		return
	}
	reach := l.reachableFrom(Set, Rem)
	syncMapMut := predFuncString("(*sync.Map).Store", "(*sync.Map).Delete", "(*sync.Map).LoadOrStore", "(*sync.Map).Swap", "(*sync.Map).LoadAndDelete", "(*sync.Map).CompareAndSwap", "(*sync.Map).CompareAndDelete", "(*sync.Map).Clear")
	type wsite struct {
		field *types.Var
		in    ssa.Instruction
		viaEmb bool
		content bool
	}
	var W []wsite
	for fn := range reach {
		if !l.inModule(fn) || fn.Blocks == nil {
			continue
		}
		allInstrs(fn, func(in ssa.Instruction) {
			switch x := in.(type) {
			case *ssa.Store:
				fa, ok := x.Addr.(*ssa.FieldAddr)
				if !ok {
					return
				}
				n := derefNamed(fa.X.Type())
				if n == nil || (n.Obj() != mt.Obj() && n.Obj() != it.Obj()) {
					return
				}
				if _, fresh := fa.X.(*ssa.Alloc); fresh {
					return // initialising a fresh object
				}
				fv := fieldVar(fa.X.Type(), fa.Field)
				W = append(W, wsite{field: fv, in: in, viaEmb: isLoadOfField(fEmb)(fa.X)})
			case *ssa.Call:
				if !syncMapMut(&x.Call) || len(x.Call.Args) == 0 {
					return
				}
				recv := stripTrivial(x.Call.Args[0])
				if ld, ok := recv.(*ssa.UnOp); ok && ld.Op == token.MUL {
					if fa, ok := ld.X.(*ssa.FieldAddr); ok {
						if n := derefNamed(fa.X.Type()); n != nil && n.Obj() == mt.Obj() {
							W = append(W, wsite{field: fieldVar(fa.X.Type(), fa.Field), in: in, content: true})
						}
					}
				}
			}
		})
	}
	// Z: stores in Rollback
	zAll := map[*types.Var]bool{}  // stored on every path
	zCond := map[*types.Var]bool{} // stored on every path on which the fast index is enabled
	fields := map[*types.Var]bool{}
	allInstrs(Rb, func(in ssa.Instruction) {
		if st, ok := in.(*ssa.Store); ok {
			if fa, ok := st.Addr.(*ssa.FieldAddr); ok {
				if n := derefNamed(fa.X.Type()); n != nil && n.Obj() == mt.Obj() {
					fields[fieldVar(fa.X.Type(), fa.Field)] = true
				}
			}
		}
	})
	// fields reset through a helper that re-initialises them on every path count as well
	for _, w := range W {
		if w.field != nil && len(l.resetters(w.field)) > 0 {
			fields[w.field] = true
		}
	}
	for f := range fields {
		f := f
		gen := l.storeOrReset(f, false)
		genC := l.storeOrReset(f, true)
		q := mustState(Rb, false, gen, nil)
		qc := mustStateE(Rb, false, genC, nil, func(from *ssa.BasicBlock, si int) bool {
			iff := ifOf(from)
			if iff == nil {
				return false
			}
			en, ok := skipGuardEnabledSucc(iff)
			return ok && si == 1-en
		})
		all, cond := true, true
		for _, r := range returnsOf(Rb) {
			all = all && q(r)
			cond = cond && qc(r)
		}
		zAll[f], zCond[f] = all, cond
	}
	// obligations per written field
	byField := map[*types.Var][]wsite{}
	for _, w := range W {
		byField[w.field] = append(byField[w.field], w)
	}
	var fs []*types.Var
	for f := range byField {
		fs = append(fs, f)
	}
	sort.Slice(fs, func(i, j int) bool { return fs[i].Name() < fs[j].Name() })
	for _, f := range fs {
		sites := byField[f]
		owner := "MutableTree"
		if _, isIt := fieldOwner(it, f); isIt {
			owner = "ImmutableTree"
		}
		key := "write API writes " + owner + "." + f.Name()
		pos := l.ipos(sites[0].in)
		switch {
		case owner == "ImmutableTree":
			allVia := true
			for _, s := range sites {
				allVia = allVia && s.viaEmb
			}
			if !allVia {
				c.bad("EFFECT-rollback-frame", key, pos, "an ImmutableTree field is written through something other than the working tree pointer: Rollback cannot undo it by replacing that pointer")
			} else {
				c.decide("EFFECT-rollback-frame", key, pos, zAll[fEmb], "Rollback replaces the whole working ImmutableTree on every path", "Rollback does not replace the working ImmutableTree on every path")
			}
		case zAll[f]:
			c.ok("EFFECT-rollback-frame", key, pos, "Rollback re-initialises the field on every path")
		case zCond[f]:
			// conditional reset is fine only if every writer is under the same condition
			sym := true
			for _, s := range sites {
				if underFastEnabled(s.in) {
					continue
				}
				// one level up: all call sites of the enclosing function
				ok := false
				callers := l.callersOf(s.in.Parent())
				if len(callers) > 0 {
					ok = true
					for _, e := range callers {
						if e.Site == nil || !reach[e.Caller.Func] {
							continue
						}
						if !underFastEnabled(e.Site) {
							ok = false
						}
					}
				}
				sym = sym && ok
			}
			c.decide("EFFECT-rollback-frame", key, pos, sym, "reset by Rollback whenever the fast index is enabled, and written only when it is enabled", "Rollback resets the field only when the fast index is enabled, but a writer is not under that condition")
		default:
			c.bad("EFFECT-rollback-frame", key, pos, "field (or its contents) is written by Set/Remove but not reset on every path of Rollback(): the discarded changes leak into the next working state")
		}
	}
	checkOverlayFollowsTree(c)
}

// checkOverlayFollowsTree: the overlay of uncommitted index changes describes
// the working tree.  Whoever replaces the working tree by a tree that is not
// derived from it (a version loaded from storage, the last saved snapshot)
// discards the uncommitted changes and must discard the overlay with them —
// otherwise Get / Iterate (overlay first) answer from writes that Has /
// GetWithIndex / the tree walk no longer see.
func checkOverlayFollowsTree(c *Ctx) {
	l := c.L
	const R = "EFFECT-rollback-frame"
	fEmb := l.Field("", "MutableTree", "ImmutableTree")
	fAdd := l.Field("", "MutableTree", "unsavedFastNodeAdditions")
	fRem := l.Field("", "MutableTree", "unsavedFastNodeRemovals")
	if fEmb == nil || fAdd == nil || fRem == nil {
		c.anchorMissing(R, "MutableTree.ImmutableTree / overlay fields")
		return
	}
	n := 0
	for _, fn := range l.SrcFuncs {
		if l.pkgPathOf(fn) != l.ModPath || fn.Signature.Recv() == nil {
			continue
		}
		if rn := derefNamed(fn.Signature.Recv().Type()); rn == nil || rn.Obj().Name() != "MutableTree" {
			continue
		}
		var foreign []*ssa.Store
		for _, st := range storesToField(fn, fEmb) {
			r := roleOf(l, st.Val, "", 0)
			if isNilConst(stripTrivial(st.Val)) {
				continue // Close(): the tree is unusable afterwards
			}
			// tree.clone() of the receiver's own working tree keeps the uncommitted changes: the overlay stays valid
			if strings.HasPrefix(r, "clone(recv.ImmutableTree") || r == "clone(recv)" {
				continue
			}
			foreign = append(foreign, st)
		}
		if len(foreign) == 0 {
			continue
		}
		n++
		for _, f := range []*types.Var{fAdd, fRem} {
			f := f
			q := mustStateE(fn, false, l.storeOrReset(f, true), nil, fastDisabledEdge)
			ok := true
			var bad *ssa.Return
			for _, st := range foreign {
				searchFrom([]point{after(st)}, func(x ssa.Instruction) bool {
					if r, isRet := x.(*ssa.Return); isRet {
						ei := errResultIndex(fn.Signature)
						if (ei < 0 || errNilness(retVal(r, ei), r.Block(), 0) <= 0) && !q(r) && !isRecoverReturn(r) {
							ok, bad = false, r
						}
						return true
					}
					return false
				})
			}
			pos := l.ipos(foreign[0])
			if bad != nil {
				pos = l.ipos(bad)
			}
			c.decide(R, l.fname(fn)+" replaces the working tree ⇒ resets "+f.Name(), pos, ok, "every success return after the replacement has reset the overlay (or the index is disabled)",
				"the working tree is replaced by another tree but the overlay of uncommitted index changes is kept: Get and Iterate on the working state return writes that were discarded with the old working tree, and the next commit persists them into the index")
		}
	}
	if n < 2 {
		c.anchorMissing(R, "fewer than 2 functions replace the working tree (LoadVersion, Rollback expected)")
	}
}

// checkCacheRefresh: SaveNode replaces the cache entry of its node key.
func checkCacheRefresh(c *Ctx) {
	l := c.L
	// ---- (1c) re-used node keys: SaveNode always replaces the cache entry
	c.rule("PASS-cache-refresh", "SaveNode replaces the cached node for its key on every success path", 1)
	saveNode := l.Func("", "*nodeDB.SaveNode")
	fCache := l.Field("", "nodeDB", "nodeCache")
	if saveNode == nil || fCache == nil {
		c.anchorMissing("PASS-cache-refresh", "nodeDB.SaveNode / nodeCache")
	} else {
		isAdd := func(in ssa.Instruction) bool {
			cc := callCommon(in)
			return cc != nil && cc.IsInvoke() && cc.Method.Name() == "Add" && isLoadOfField(fCache)(cc.Value)
		}
		q := mustState(saveNode, false, isAdd, nil)
		ok := true
		for _, r := range successReturns(saveNode) {
			ok = ok && q(r)
		}
		c.decide("PASS-cache-refresh", "SaveNode adds the node to the cache unconditionally", l.pos(saveNode.Pos()), ok, "every success return passes nodeCache.Add", "SaveNode can succeed without replacing the cache entry: after a rollback the re-used node key keeps serving the node of the erased future")
	}
	checkLRU(c, "PASS-cache-refresh")
}

// checkLRU: the cache the above relies on.  Add on a key that is present
// replaces the stored value (not only its recency); Add on a new key inserts
// into the list AND the index; every removal takes the element out of the
// list AND the index; Get returns the value stored under that key.
func checkLRU(c *Ctx, rule string) {
	l := c.L
	add, get := l.Func("cache", "*lruCache.Add"), l.Func("cache", "*lruCache.Get")
	fDict := l.Field("cache", "lruCache", "dict")
	if add == nil || get == nil || fDict == nil {
		c.anchorMissing(rule, "cache.lruCache.Add / Get / dict")
		return
	}
	// the `present` test: comma-ok lookup in the index
	present := func(fn *ssa.Function) []guard {
		return findGuards(fn, func(cond ssa.Value) (bool, int) {
			e, ok := stripTrivial(cond).(*ssa.Extract)
			if !ok || e.Index != 1 {
				return false, 0
			}
			lk, ok := e.Tuple.(*ssa.Lookup)
			if !ok || !lk.CommaOk || !isLoadOfField(fDict)(stripTrivial(lk.X)) {
				return false, 0
			}
			return true, 0
		})
	}
	isValueStore := func(in ssa.Instruction) bool {
		st, ok := in.(*ssa.Store)
		if !ok {
			return false
		}
		fa, ok := st.Addr.(*ssa.FieldAddr)
		if !ok || fieldName(fa.X.Type(), fa.Field) != "Value" {
			return false
		}
		return roleOf(l, st.Val, "", 0) == "arg0"
	}
	isIndexUpdate := func(in ssa.Instruction) bool {
		mu, ok := in.(*ssa.MapUpdate)
		return ok && isLoadOfField(fDict)(stripTrivial(mu.Map))
	}
	isListCall := func(name string) func(ssa.Instruction) bool {
		return func(in ssa.Instruction) bool {
			cc := callCommon(in)
			if cc == nil {
				return false
			}
			f := staticCallee(cc)
			return f != nil && f.Name() == name && f.Pkg != nil && f.Pkg.Pkg.Path() == "container/list"
		}
	}
	gs := present(add)
	if len(gs) == 0 {
		c.bad(rule, "lruCache.Add distinguishes present / new keys", l.pos(add.Pos()), "no comma-ok lookup of the key in the index")
		return
	}
	// present edge: every return passes the value replacement
	repl := mustState(add, false, isValueStore, nil)
	ins := mustState(add, false, isListCall("PushFront"), nil)
	idx := mustState(add, false, isIndexUpdate, nil)
	okRepl, okNew := true, true
	for _, r := range returnsOf(add) {
		if isRecoverReturn(r) {
			continue
		}
		onPresent := false
		for _, g := range gs {
			if edgeDominates(g.iff.Block(), g.pass, r.Block()) {
				onPresent = true
			}
		}
		if onPresent {
			okRepl = okRepl && repl(r)
		} else {
			okNew = okNew && ins(r) && idx(r)
		}
	}
	c.decide(rule, "lruCache.Add on a present key replaces the stored value", l.pos(add.Pos()), okRepl, "element.Value = node on the `present` edge", "Add on a key that is already cached keeps the old value (only its recency changes): SaveNode's refresh of a re-used node key has no effect")
	c.decide(rule, "lruCache.Add on a new key inserts into the list and the index", l.pos(add.Pos()), okNew, "PushFront and dict[key] = element", "a new entry is not recorded in both the recency list and the index")
	// removals: list and index together
	for _, name := range []string{"*lruCache.remove", "*lruCache.removeWithKey"} {
		fn := l.Func("cache", name)
		if fn == nil {
			c.anchorMissing(rule, "cache."+name)
			continue
		}
		rm := mustState(fn, false, isListCall("Remove"), nil)
		del := mustState(fn, false, func(in ssa.Instruction) bool {
			cc := callCommon(in)
			if cc == nil {
				return false
			}
			b, ok := cc.Value.(*ssa.Builtin)
			return ok && b.Name() == "delete" && isLoadOfField(fDict)(stripTrivial(cc.Args[0]))
		}, nil)
		ok := true
		for _, r := range returnsOf(fn) {
			if !isRecoverReturn(r) {
				ok = ok && rm(r) && del(r)
			}
		}
		c.decide(rule, "cache."+name+" removes from the list and the index", l.pos(fn.Pos()), ok, "list.Remove and delete(dict, key)", "an evicted / removed entry stays in the recency list or in the index")
	}
	// Get: the hit returns the element found under that key
	gg := present(get)
	okGet := len(gg) > 0
	for _, r := range returnsOf(get) {
		if isRecoverReturn(r) {
			continue
		}
		v := stripTrivial(retVal(r, 0))
		if isNilConst(v) {
			continue
		}
		role := roleOf(l, v, "", 0)
		if !strings.Contains(role, "recv.dict[i]") && !strings.Contains(role, "dict[") && !strings.Contains(role, ".Value") {
			okGet = false
		}
		on := false
		for _, g := range gg {
			if edgeDominates(g.iff.Block(), g.pass, r.Block()) {
				on = true
			}
		}
		okGet = okGet && on
	}
	c.decide(rule, "lruCache.Get returns the value stored under the key, only on a hit", l.pos(get.Pos()), okGet, "hit ⇒ element.Value, miss ⇒ nil", "Get can return a value on a miss or something other than the element stored under the key")
}

// checkWorkingVsSaved (shared by C09 and C01): the working tree and lastSaved
// are always distinct, fresh objects.
func checkWorkingVsSaved(c *Ctx) {
	l := c.L
	fEmb := l.Field("", "MutableTree", "ImmutableTree")
	if fEmb == nil {
		c.anchorMissing("FRESH-working-vs-saved", "MutableTree.ImmutableTree")
		return
	}
	c.rule("FRESH-working-vs-saved", "working tree and last-saved tree never alias", 6)
	fLast := l.Field("", "MutableTree", "lastSaved")
	cloneM := l.Func("", "*ImmutableTree.clone")
	if fLast == nil || cloneM == nil {
		c.anchorMissing("FRESH-working-vs-saved", "MutableTree.lastSaved / ImmutableTree.clone")
	} else {
		isFreshTree := func(v ssa.Value) bool {
			v = stripTrivial(v)
			if isNilConst(v) {
				return true
			}
			if _, ok := v.(*ssa.Alloc); ok {
				return true
			}
			if call, ok := v.(*ssa.Call); ok && predStatic(cloneM)(&call.Call) {
				return true
			}
			if p, ok := v.(*ssa.Phi); ok {
				for _, e := range p.Edges {
					ev := stripTrivial(e)
					_, al := ev.(*ssa.Alloc)
					call, isCall := ev.(*ssa.Call)
					if !(al || isCall && predStatic(cloneM)(&call.Call)) {
						return false
					}
				}
				return true
			}
			return false
		}
		for _, fn := range l.SrcFuncs {
			if l.pkgPathOf(fn) != l.ModPath {
				continue
			}
			sts := append(storesToField(fn, fEmb), storesToField(fn, fLast)...)
			vals := map[ssa.Value]int{}
			for _, st := range sts {
				v := stripTrivial(st.Val)
				vals[v]++
				key := l.fname(fn) + " " + describe(l, st)
				ok := isFreshTree(v)
				// an object stored into one field may be a local that is not stored into the other
				if !ok {
					if _, isAl := v.(*ssa.Alloc); isAl {
						ok = true
					}
				}
				c.decide("FRESH-working-vs-saved", key, l.ipos(st), ok, "a freshly allocated tree or a clone()", "the working tree / lastSaved is set to an existing tree object (`"+roleOf(l, v, "", 0)+"`): the two can alias, so uncommitted writes change the saved snapshot and Rollback restores nothing")
			}
			for v, n := range vals {
				if n > 1 && !isNilConst(v) {
					c.bad("FRESH-working-vs-saved", l.fname(fn)+" stores one object into both fields", l.pos(fn.Pos()), "the same tree object is stored as working tree and as lastSaved")
				}
			}
		}
	}
}

// checkOverwriteSequence (shared by C09 and C01): LoadVersionForOverwriting is
// load ≺ range delete ≺ commit ≺ index rebuild, and no success return skips
// the commit (the range delete only becomes durable with it — also when the
// fast index is disabled and no rebuild follows).
func checkOverwriteSequence(c *Ctx) {
	l := c.L
	c.rule("ORDER-overwrite-sequence", "LoadVersionForOverwriting step order", 3)
	dvf := l.Func("", "*nodeDB.DeleteVersionsFrom")
	lvo := l.Func("", "*MutableTree.LoadVersionForOverwriting")
	lv := l.Func("", "*MutableTree.LoadVersion")
	commit := l.Func("", "*nodeDB.Commit")
	enable := l.Func("", "*MutableTree.enableFastStorageAndCommitIfNotEnabled")
	if lvo == nil || lv == nil || dvf == nil || commit == nil || enable == nil {
		c.anchorMissing("ORDER-overwrite-sequence", "LoadVersionForOverwriting / LoadVersion / DeleteVersionsFrom / Commit / enableFastStorage…")
		return
	}
	first := func(f *ssa.Function) *ssa.Call {
		for _, in := range callsIn(lvo, predStatic(f)) {
			if cl, ok := in.(*ssa.Call); ok {
				return cl
			}
		}
		return nil
	}
	seq := []*ssa.Function{lv, dvf, commit, enable}
	names := []string{"LoadVersion", "DeleteVersionsFrom", "Commit", "index rebuild"}
	var prev *ssa.Call
	for i, f := range seq {
		cl := first(f)
		if cl == nil {
			c.bad("ORDER-overwrite-sequence", "LoadVersionForOverwriting calls "+names[i], l.pos(lvo.Pos()), "step is missing")
			prev = nil
			continue
		}
		if i > 0 {
			if prev == nil {
				c.undecided("ORDER-overwrite-sequence", names[i-1]+" ≺ "+names[i], l.ipos(cl), "previous step missing")
			} else {
				c.decide("ORDER-overwrite-sequence", names[i-1]+" ≺ "+names[i], l.ipos(cl), okEdgeDominates(prev, cl),
					"runs only after the previous step returned a nil error", names[i]+" can run although "+names[i-1]+" did not run or failed")
			}
		}
		prev = cl
	}
	// and no success return skips the commit
	passed := mustState(lvo, false, func(in ssa.Instruction) bool { cc := callCommon(in); return cc != nil && predStatic(commit)(cc) }, nil)
	for _, r := range successReturns(lvo) {
		c.decide("ORDER-overwrite-sequence", "LoadVersionForOverwriting success passes Commit", l.ipos(r), passed(r), "passes Commit", "a success return does not pass Commit")
	}
}

// checkNoWriteUnderRangeIterator (C09): the store contract says "no writes may
// happen within a domain while an iterator exists over it".  The rollback
// deletes through the batch wrapper from inside the callback of its range
// scans; the wrapper writes the batch to the store when it exceeds the flush
// threshold, i.e. while the scan's iterator is open.  MemDB enforces the
// contract with its lock: the write waits for the iterator, which is waiting
// for the callback — the rollback never returns.
func checkNoWriteUnderRangeIterator(c *Ctx, rule string) {
	l := c.L
	c.rule(rule, "the rollback does not mutate the (flushing) batch from inside its range scans", 2)
	dvf := l.Func("", "*nodeDB.DeleteVersionsFrom")
	tr := l.Func("", "*nodeDB.traverseRange")
	bwf := l.NamedType("", "BatchWithFlusher")
	if dvf == nil || tr == nil || bwf == nil {
		c.anchorMissing(rule, "DeleteVersionsFrom / traverseRange / BatchWithFlusher")
		return
	}
	var mutates func(fn *ssa.Function, depth int, seen map[*ssa.Function]bool) ssa.Instruction
	mutates = func(fn *ssa.Function, depth int, seen map[*ssa.Function]bool) ssa.Instruction {
		if fn == nil || seen[fn] || depth > 3 || len(fn.Blocks) == 0 {
			return nil
		}
		seen[fn] = true
		var hit ssa.Instruction
		allInstrs(fn, func(in ssa.Instruction) {
			if hit != nil {
				return
			}
			cc := callCommon(in)
			if cc == nil {
				return
			}
			if cc.IsInvoke() && (cc.Method.Name() == "Delete" || cc.Method.Name() == "Set") && strings.HasSuffix(cc.Value.Type().String(), "store.Batch") {
				hit = in
				return
			}
			if g := staticCallee(cc); g != nil && l.inModule(g) {
				if h := mutates(g, depth+1, seen); h != nil {
					hit = in
				}
			}
		})
		return hit
	}
	// does the scan helper run its callback while its iterator is open?  (a helper that reads a bounded chunk, closes
	// the iterator and only then applies the callback keeps the contract whatever the callback does)
	openDuringCallback := false
	if len(tr.Params) > 0 {
		fnParam := tr.Params[len(tr.Params)-1]
		allInstrs(tr, func(in ssa.Instruction) {
			cc := callCommon(in)
			if cc == nil || !cc.IsInvoke() || (cc.Method.Name() != "Iterator" && cc.Method.Name() != "ReverseIterator") {
				return
			}
			itv := extractOf(in.(ssa.Value), 0)
			searchFrom([]point{after(in)}, func(x ssa.Instruction) bool {
				xc := callCommon(x)
				if xc == nil {
					return false
				}
				if _, isDefer := x.(*ssa.Defer); !isDefer && xc.IsInvoke() && xc.Method.Name() == "Close" && itv != nil && stripTrivial(xc.Value) == ssa.Value(itv) {
					return true // closed on this path
				}
				if p, isP := xc.Value.(*ssa.Parameter); isP && p == fnParam {
					openDuringCallback = true
				}
				return false
			})
		})
	}
	n := 0
	for _, in := range callsIn(dvf, predStatic(tr)) {
		cc := callCommon(in)
		// the callback argument
		var cb *ssa.Function
		for _, a := range cc.Args {
			switch v := stripTrivial(a).(type) {
			case *ssa.MakeClosure:
				cb, _ = v.Fn.(*ssa.Function)
			case *ssa.Function:
				cb = v
			}
		}
		if cb == nil {
			continue
		}
		n++
		hit := mutates(cb, 0, map[*ssa.Function]bool{})
		if !openDuringCallback {
			hit = nil
		}
		pos := l.ipos(in)
		if hit != nil {
			pos = l.ipos(hit)
		}
		c.decide(rule, l.fname(cb)+" mutates the batch under the open range iterator", pos, hit == nil, "the callback does not mutate the batch, or the scan helper applies it only after closing its iterator",
			"the rollback queues its deletions from inside the callback of a range scan; the batch wrapper writes the batch to the store when it exceeds the flush threshold — while the scan's iterator is still open, which the store contract forbids (`no writes within a domain while an iterator exists over it`). MemDB enforces it with its lock: the write blocks on the iterator, the iterator on the callback, and LoadVersionForOverwriting / DeleteVersionsFrom never return once the erased versions exceed the threshold")
	}
	if n < 1 {
		c.anchorMissing(rule, "no range scan with a callback in DeleteVersionsFrom")
	}
}
