package main

import (
	"fmt"
	"go/constant"
	"go/token"
	"sort"
	"strings"

	"golang.org/x/tools/go/ssa"
)

// Decision tables: loop-free functions whose behaviour depends on their
// inputs only through comparisons, nil tests and flags are walked under every
// environment of the finite decision domain; the observable effects (calls in
// order, returned constants / literals) are compared with a specification
// written here as data.  Nothing is executed: branch conditions are evaluated
// abstractly over the environment.

type tableEnv struct {
	l     *Loaded
	recv  string
	cmp   func(a, b string) (int, bool)      // ordering of two operands given by role
	flag  map[string]int                     // boolean field / callee name → ±1
	isNil func(role string) int              // nil-ness of a (non-error) pointer/slice by role; 0 unknown → treated as non-nil
	ints  func(v ssa.Value, role string) (int64, bool)
}

func (e *tableEnv) role(v ssa.Value) string { return roleOf(e.l, v, e.recv, 0) }

func (e *tableEnv) intOf(v ssa.Value) (int64, bool) {
	v = stripTrivial(v)
	if k, ok := constInt(v); ok {
		return k, true
	}
	if cv, ok := v.(*ssa.Convert); ok {
		return e.intOf(cv.X)
	}
	if call, ok := v.(*ssa.Call); ok {
		if f := staticCallee(&call.Call); f != nil && (f.String() == "bytes.Compare") {
			if o, ok := e.cmp(e.role(call.Call.Args[0]), e.role(call.Call.Args[1])); ok {
				return int64(o), true
			}
		}
	}
	if e.ints != nil {
		return e.ints(v, e.role(v))
	}
	return 0, false
}

func (e *tableEnv) atom(w *walker, v ssa.Value) int {
	b2i := func(b bool) int {
		if b {
			return 1
		}
		return -1
	}
	switch x := v.(type) {
	case *ssa.UnOp:
		if x.Op == token.MUL {
			if fa, ok := x.X.(*ssa.FieldAddr); ok {
				if r, ok := e.flag[fieldName(fa.X.Type(), fa.Field)]; ok {
					return r
				}
			}
		}
	case *ssa.Call:
		if f := staticCallee(&x.Call); f != nil {
			if f.String() == "bytes.Equal" {
				if o, ok := e.cmp(e.role(x.Call.Args[0]), e.role(x.Call.Args[1])); ok {
					return b2i(o == 0)
				}
			}
			if r, ok := e.flag[f.Name()+"()"]; ok {
				return r
			}
		}
	case *ssa.Extract:
		if call, ok := x.Tuple.(*ssa.Call); ok {
			if f := staticCallee(&call.Call); f != nil {
				if r, ok := e.flag[fmt.Sprintf("%s()#%d", f.Name(), x.Index)]; ok {
					return r
				}
			}
		}
	case *ssa.BinOp:
		if vv, nn, ok := nilCond(x); ok {
			isNil := -1
			vv = w.resolve(vv)
			if isNilConst(stripTrivial(vv)) {
				isNil = 1
			} else if isErrorType(vv.Type()) {
				isNil = 1
			} else if e.isNil != nil {
				if r := e.isNil(e.role(vv)); r != 0 {
					isNil = r
				}
			}
			if nn == 0 {
				return -isNil
			}
			return isNil
		}
		switch x.Op {
		case token.EQL, token.NEQ, token.LSS, token.LEQ, token.GTR, token.GEQ:
			a, okA := e.intOf(x.X)
			b, okB := e.intOf(x.Y)
			if okA && okB {
				return cmpHolds(x.Op, sign(a-b))
			}
		}
	case *ssa.Const:
		if x.Value != nil && x.Value.Kind() == constant.Bool {
			return b2i(constant.BoolVal(x.Value))
		}
	}
	return 0
}

type tableRun struct {
	events []string
	ret    *ssa.Return
	stuck  ssa.Instruction
}

// runTable walks fn under env; callEvent maps a call to an event string ("" = ignore).
func runTable(fn *ssa.Function, env *tableEnv, callEvent func(call *ssa.Call) string) tableRun {
	return runTableS(fn, env, callEvent, nil)
}

// runTableS additionally reports stores (storeEvent may return "").
func runTableS(fn *ssa.Function, env *tableEnv, callEvent func(call *ssa.Call) string, storeEvent func(st *ssa.Store) string) tableRun {
	if len(fn.Params) > 0 && fn.Signature.Recv() != nil {
		env.recv = fn.Params[0].Name()
	}
	w := &walker{env: &walkEnv{evalAtom: env.atom}, vals: map[ssa.Value]int{}}
	w.onCall = func(w *walker, call *ssa.Call) {
		if ev := callEvent(call); ev != "" {
			w.events = append(w.events, ev)
		}
	}
	if storeEvent != nil {
		w.onStore = func(w *walker, st *ssa.Store) {
			if ev := storeEvent(st); ev != "" {
				w.events = append(w.events, ev)
			}
		}
	}
	ret, stuck := w.run(fn)
	return tableRun{w.events, ret, stuck}
}

// literalRoles renders the fields stored into a composite literal allocation.
func literalRoles(l *Loaded, v ssa.Value, recv string) string {
	v = stripTrivial(v)
	al, ok := v.(*ssa.Alloc)
	if !ok {
		return roleOf(l, v, recv, 0)
	}
	m := map[string]string{}
	for _, r := range refs(al) {
		if fa, ok := r.(*ssa.FieldAddr); ok {
			for _, rr := range refs(fa) {
				if st, ok := rr.(*ssa.Store); ok {
					role := roleOf(l, st.Val, recv, 0)
					if role != "nil" && role != "0" && role != "false" {
						m[fieldName(fa.X.Type(), fa.Field)] = role
					}
				}
			}
		}
	}
	var ks []string
	for k := range m {
		ks = append(ks, k)
	}
	sort.Strings(ks)
	var ps []string
	for _, k := range ks {
		ps = append(ps, k+"="+m[k])
	}
	return "{" + strings.Join(ps, " ") + "}"
}

// checkBalanceTable: the AVL rebalancing decision (which rotations, on which
// node, in which order) over balance factor × child balance factor.
func checkBalanceTable(c *Ctx, l *Loaded, rule, label string, fn *ssa.Function) {
	if fn == nil {
		c.anchorMissing(rule, label+" balance")
		return
	}
	nodeParam := ""
	for _, p := range fn.Params {
		if p.Name() == "node" {
			nodeParam = "arg0"
		}
	}
	for _, B := range []int64{-2, -1, 0, 1, 2} {
		for _, CB := range []int64{-1, 0, 1} {
			env := &tableEnv{l: l, flag: map[string]int{}, cmp: func(a, b string) (int, bool) { return 0, false }}
			env.isNil = func(role string) int {
				if strings.HasSuffix(role, "nodeKey") || strings.HasSuffix(role, "hash") {
					return 1 // the node is an unsaved copy
				}
				return 0
			}
			env.ints = func(v ssa.Value, role string) (int64, bool) {
				ex, ok := v.(*ssa.Extract)
				if !ok || ex.Index != 0 {
					return 0, false
				}
				call, ok := ex.Tuple.(*ssa.Call)
				if !ok {
					return 0, false
				}
				f := staticCallee(&call.Call)
				if f == nil || f.Name() != "calcBalance" {
					return 0, false
				}
				if roleOf(l, call.Call.Args[0], "", 0) == nodeParam {
					return B, true
				}
				return CB, true
			}
			run := runTable(fn, env, func(call *ssa.Call) string {
				f := staticCallee(&call.Call)
				if f == nil {
					return ""
				}
				if f.Name() == "rotateLeft" || f.Name() == "rotateRight" {
					arg := roleOf(l, call.Call.Args[1], "", 0)
					switch {
					case arg == nodeParam:
						arg = "node"
					case strings.Contains(arg, "leftNode") || strings.Contains(arg, "getLeftNode"):
						arg = "left"
					case strings.Contains(arg, "rightNode") || strings.Contains(arg, "getRightNode"):
						arg = "right"
					}
					return f.Name() + "(" + arg + ")"
				}
				return ""
			})
			var want []string
			switch {
			case B > 1 && CB >= 0:
				want = []string{"rotateRight(node)"}
			case B > 1:
				want = []string{"rotateLeft(left)", "rotateRight(node)"}
			case B < -1 && CB <= 0:
				want = []string{"rotateLeft(node)"}
			case B < -1:
				want = []string{"rotateRight(right)", "rotateLeft(node)"}
			}
			got := strings.Join(run.events, ",")
			ws := strings.Join(want, ",")
			if run.ret == nil {
				got += "|stuck"
			} else if len(want) == 0 {
				// unchanged node is returned
				if roleOf(l, retVal(run.ret, 0), "", 0) != nodeParam {
					got += "|returns " + roleOf(l, retVal(run.ret, 0), "", 0)
				}
			}
			msg := ""
			if got != ws {
				msg = "rotations performed: [" + got + "], AVL rule: [" + ws + "]"
				if run.stuck != nil {
					msg += " (walk stuck at " + l.ipos(run.stuck) + ")"
				}
			}
			c.decide(rule, fmt.Sprintf("%s balance factor %+d, child %+d", label, B, CB), l.pos(fn.Pos()), got == ws, "rotations ["+got+"] as the AVL rule prescribes", msg)
		}
	}
}

// checkTreeRules pins the IAVL+ insertion / removal / rotation / lookup rules
// as decision tables and role equations (data below), and compares the code
// with them.  Rule names: TABLE-insert, TABLE-remove, TABLE-rotate, TABLE-lookup.
func checkTreeRules(c *Ctx, l *Loaded, which map[string]bool) {
	none := func(call *ssa.Call) string { return "" }
	nocmp := func(a, b string) (int, bool) { return 0, false }
	// ------------------------------------------------------------------ insert
	if which["insert"] {
		c.rule("TABLE-insert", "leaf split / replace and descent direction of an insertion", 6)
		fn := l.Func("", "*MutableTree.recursiveSetLeaf")
		if fn == nil {
			c.anchorMissing("TABLE-insert", "recursiveSetLeaf")
		} else {
			want := map[int]string{
				-1: "{key=arg0.key leftNode=NewNode(arg1,arg2) rightNode=arg0 size=2 subtreeHeight=1} false",
				0:  "NewNode(arg1,arg2) true",
				1:  "{key=arg1 leftNode=arg0 rightNode=NewNode(arg1,arg2) size=2 subtreeHeight=1} false",
			}
			names := map[int]string{-1: "new key < leaf key", 0: "new key == leaf key", 1: "new key > leaf key"}
			for _, ord := range []int{-1, 0, 1} {
				ord := ord
				env := &tableEnv{l: l, flag: map[string]int{"skipFastStorageUpgrade": 1}, cmp: func(a, b string) (int, bool) {
					if a == "arg1" && b == "arg0.key" {
						return ord, true
					}
					if b == "arg1" && a == "arg0.key" {
						return -ord, true
					}
					return 0, false
				}}
				run := runTable(fn, env, none)
				got := "stuck"
				if run.ret != nil {
					got = literalRoles(l, retVal(run.ret, 0), "tree") + " " + roleOf(l, retVal(run.ret, 1), "tree", 0)
				}
				c.decide("TABLE-insert", "recursiveSetLeaf: "+names[ord], l.pos(fn.Pos()), got == want[ord], "returns "+got, "returns `"+got+"`, the insertion rule is `"+want[ord]+"` (routing key = smallest key of the right subtree; smaller key to the left)")
			}
		}
		rs := l.Func("", "*MutableTree.recursiveSet")
		if rs == nil {
			c.anchorMissing("TABLE-insert", "recursiveSet")
		} else {
			for _, ord := range []int{-1, 0, 1} {
				ord := ord
				env := &tableEnv{l: l, flag: map[string]int{"isLeaf()": -1, "recursiveSet()#1": -1}, cmp: func(a, b string) (int, bool) {
					if a == "arg1" && strings.HasSuffix(b, ".key") {
						return ord, true
					}
					return 0, false
				}}
				var side string
				run := runTable(rs, env, func(call *ssa.Call) string {
					if f := staticCallee(&call.Call); f != nil && f == rs {
						r := roleOf(l, call.Call.Args[1], "tree", 0)
						if strings.HasSuffix(r, "leftNode") {
							side = "left"
						} else if strings.HasSuffix(r, "rightNode") {
							side = "right"
						} else {
							side = r
						}
						return "descend"
					}
					if f := staticCallee(&call.Call); f != nil && (f.Name() == "calcHeightAndSize" || f.Name() == "balance") {
						return f.Name()
					}
					return ""
				})
				want := "right"
				if ord < 0 {
					want = "left"
				}
				got := side + " " + strings.Join(run.events, ",")
				ws := want + " descend,calcHeightAndSize,balance"
				c.decide("TABLE-insert", fmt.Sprintf("recursiveSet inner node: key %s routing key", map[int]string{-1: "<", 0: "==", 1: ">"}[ord]), l.pos(rs.Pos()), got == ws && run.ret != nil, "descends "+got, "does `"+got+"`, rule is `"+ws+"` (keys equal to the routing key live in the right subtree)")
			}
		}
	}
	// ------------------------------------------------------------------ rotate
	if which["rotate"] {
		c.rule("TABLE-rotate", "rotation wiring and height/size recomputation", 8)
		type st struct{ addr, val string }
		stores := func(fn *ssa.Function) (out []string, rets []string, order []string) {
			recv := fn.Params[0].Name()
			allInstrs(fn, func(in ssa.Instruction) {
				if s, ok := in.(*ssa.Store); ok {
					if fa, ok := s.Addr.(*ssa.FieldAddr); ok {
						out = append(out, roleOf(l, fa, recv, 0)+" = "+roleOf(l, s.Val, recv, 0))
					}
				}
				if call, ok := in.(*ssa.Call); ok {
					if f := staticCallee(&call.Call); f != nil && f.Name() == "calcHeightAndSize" {
						order = append(order, roleOf(l, call.Call.Args[0], recv, 0))
					}
				}
			})
			for _, r := range successReturns(fn) {
				rets = append(rets, roleOf(l, retVal(r, 0), recv, 0))
			}
			return
		}
		spec := map[string][3][]string{
			"*MutableTree.rotateRight": {
				{"clone(arg0,)#0.leftNode = clone(clone(arg0,)#0.leftNode,)#0.rightNode", "clone(clone(arg0,)#0.leftNode,)#0.rightNode = clone(arg0,)#0"},
				{"clone(clone(arg0,)#0.leftNode,)#0"},
				{"clone(arg0,)#0", "clone(clone(arg0,)#0.leftNode,)#0"},
			},
			"*MutableTree.rotateLeft": {
				{"clone(arg0,)#0.rightNode = clone(clone(arg0,)#0.rightNode,)#0.leftNode", "clone(clone(arg0,)#0.rightNode,)#0.leftNode = clone(arg0,)#0"},
				{"clone(clone(arg0,)#0.rightNode,)#0"},
				{"clone(arg0,)#0", "clone(clone(arg0,)#0.rightNode,)#0"},
			},
		}
		for _, name := range []string{"*MutableTree.rotateRight", "*MutableTree.rotateLeft"} {
			fn := l.Func("", name)
			if fn == nil {
				c.anchorMissing("TABLE-rotate", name)
				continue
			}
			s, r, o := stores(fn)
			sp := spec[name]
			c.decide("TABLE-rotate", name+" wiring", l.pos(fn.Pos()), strings.Join(s, "; ") == strings.Join(sp[0], "; "), strings.Join(s, "; "), "pointer wiring is `"+strings.Join(s, "; ")+"`, the rotation is `"+strings.Join(sp[0], "; ")+"` (both nodes copied first)")
			c.decide("TABLE-rotate", name+" new subtree root", l.pos(fn.Pos()), strings.Join(r, "; ") == strings.Join(sp[1], "; "), strings.Join(r, "; "), "returns `"+strings.Join(r, "; ")+"`, the rotation returns the copied pivot `"+sp[1][0]+"`")
			c.decide("TABLE-rotate", name+" recomputes lower node first", l.pos(fn.Pos()), strings.Join(o, "; ") == strings.Join(sp[2], "; "), strings.Join(o, "; "), "height/size recomputed in order `"+strings.Join(o, "; ")+"`, must be `"+strings.Join(sp[2], "; ")+"` (the demoted node first: the pivot's height depends on it)")
		}
		chs := l.Func("", "*Node.calcHeightAndSize")
		if chs == nil {
			c.anchorMissing("TABLE-rotate", "calcHeightAndSize")
		} else {
			s, _, _ := stores(chs)
			want := "subtreeHeight = (maxInt8(getLeftNode(,arg0)#0.subtreeHeight,getRightNode(,arg0)#0.subtreeHeight)+1); size = (getLeftNode(,arg0)#0.size+getRightNode(,arg0)#0.size)"
			c.decide("TABLE-rotate", "calcHeightAndSize equations", l.pos(chs.Pos()), strings.Join(s, "; ") == want, strings.Join(s, "; "), "computes `"+strings.Join(s, "; ")+"`, the rule is height = max(hl, hr)+1, size = sl + sr")
		}
		cb := l.Func("", "*Node.calcBalance")
		if cb != nil {
			var rets []string
			for _, r := range successReturns(cb) {
				rets = append(rets, roleOf(l, retVal(r, 0), cb.Params[0].Name(), 0))
			}
			want := "(getLeftNode(,arg0)#0.subtreeHeight-getRightNode(,arg0)#0.subtreeHeight)"
			c.decide("TABLE-rotate", "calcBalance = left height − right height", l.pos(cb.Pos()), len(rets) == 1 && rets[0] == want, strings.Join(rets, ";"), "balance factor is `"+strings.Join(rets, ";")+"`, must be `"+want+"`")
		}
	}
	// ------------------------------------------------------------------ lookup
	if which["lookup"] {
		c.rule("TABLE-lookup", "lookup by key / by rank: leaf answers, descent direction, rank arithmetic", 12)
		get := l.Func("", "*Node.get")
		if get == nil {
			c.anchorMissing("TABLE-lookup", "Node.get")
		} else {
			// leaf
			want := map[int]string{-1: "1 nil", 0: "0 value", 1: "0 nil"}
			for _, ord := range []int{-1, 0, 1} {
				ord := ord
				env := &tableEnv{l: l, flag: map[string]int{"isLeaf()": 1}, cmp: func(a, b string) (int, bool) {
					if a == "key" && b == "arg1" {
						return ord, true
					}
					if a == "arg1" && b == "key" {
						return -ord, true
					}
					return 0, false
				}}
				run := runTable(get, env, none)
				got := "stuck"
				if run.ret != nil {
					got = roleOf(l, retVal(run.ret, 0), "node", 0) + " " + roleOf(l, retVal(run.ret, 1), "node", 0)
				}
				c.decide("TABLE-lookup", fmt.Sprintf("Node.get at a leaf: leaf key %s queried key", map[int]string{-1: "<", 0: "==", 1: ">"}[ord]), l.pos(get.Pos()), got == want[ord], "(index, value) = "+got, "(index, value) = `"+got+"`, rule `"+want[ord]+"` (index of an absent key = rank of the next larger key)")
			}
			// inner
			for _, ord := range []int{-1, 0, 1} {
				ord := ord
				env := &tableEnv{l: l, flag: map[string]int{"isLeaf()": -1}, cmp: func(a, b string) (int, bool) {
					if a == "arg1" && b == "key" {
						return ord, true
					}
					return 0, false
				}}
				run := runTable(get, env, func(call *ssa.Call) string {
					if f := staticCallee(&call.Call); f != nil && (f.Name() == "getLeftNode" || f.Name() == "getRightNode") {
						return f.Name()
					}
					return ""
				})
				got := strings.Join(run.events, ",")
				if run.ret != nil {
					got += " → " + roleOf(l, retVal(run.ret, 0), "node", 0)
				} else {
					got += " → stuck"
				}
				ws := "getRightNode → (get(getRightNode(,arg0)#0,arg0,arg1)#0+(size-getRightNode(,arg0)#0.size))"
				if ord < 0 {
					ws = "getLeftNode → get(getLeftNode(,arg0)#0,arg0,arg1)#0"
				}
				c.decide("TABLE-lookup", fmt.Sprintf("Node.get at an inner node: key %s routing key", map[int]string{-1: "<", 0: "==", 1: ">"}[ord]), l.pos(get.Pos()), got == ws, got, "does `"+got+"`, rule `"+ws+"` (rank in the right subtree is offset by the size of the left one)")
			}
		}
		gbi := l.Func("", "*Node.getByIndex")
		if gbi == nil {
			c.anchorMissing("TABLE-lookup", "Node.getByIndex")
		} else {
			for _, zero := range []bool{true, false} {
				zero := zero
				env := &tableEnv{l: l, flag: map[string]int{"isLeaf()": 1}, cmp: nocmp, ints: func(v ssa.Value, role string) (int64, bool) {
					if role == "arg1" {
						if zero {
							return 0, true
						}
						return 1, true
					}
					return 0, false
				}}
				run := runTable(gbi, env, none)
				got := "stuck"
				if run.ret != nil {
					got = roleOf(l, retVal(run.ret, 0), "node", 0) + " " + roleOf(l, retVal(run.ret, 1), "node", 0)
				}
				ws := "key value"
				if !zero {
					ws = "nil nil"
				}
				c.decide("TABLE-lookup", fmt.Sprintf("Node.getByIndex at a leaf: index==0 is %v", zero), l.pos(gbi.Pos()), got == ws, got, "returns `"+got+"`, rule `"+ws+"`")
			}
			for _, less := range []bool{true, false} {
				less := less
				env := &tableEnv{l: l, flag: map[string]int{"isLeaf()": -1}, cmp: nocmp, ints: func(v ssa.Value, role string) (int64, bool) {
					switch {
					case role == "arg1":
						if less {
							return 0, true
						}
						return 5, true
					case strings.HasSuffix(role, "#0.size"):
						return 3, true
					}
					return 0, false
				}}
				var rec string
				run := runTable(gbi, env, func(call *ssa.Call) string {
					if f := staticCallee(&call.Call); f != nil && f == gbi {
						rec = roleOf(l, call.Call.Args[0], "node", 0) + " @ " + roleOf(l, call.Call.Args[2], "node", 0)
					}
					return ""
				})
				ws := "getRightNode(,arg0)#0 @ (arg1-getLeftNode(,arg0)#0.size)"
				if less {
					ws = "getLeftNode(,arg0)#0 @ arg1"
				}
				c.decide("TABLE-lookup", fmt.Sprintf("Node.getByIndex at an inner node: index < left size is %v", less), l.pos(gbi.Pos()), rec == ws && run.ret != nil, rec, "descends `"+rec+"`, rule `"+ws+"`")
			}
		}
		has := l.Func("", "*Node.has")
		if has != nil {
			for _, cs := range []struct {
				ord  int
				leaf bool
				want string
			}{{0, true, "true"}, {0, false, "true"}, {-1, true, "false"}, {1, true, "false"}, {-1, false, "getLeftNode"}, {1, false, "getRightNode"}} {
				cs := cs
				env := &tableEnv{l: l, flag: map[string]int{"isLeaf()": map[bool]int{true: 1, false: -1}[cs.leaf]}, cmp: func(a, b string) (int, bool) {
					if a == "arg1" && b == "key" {
						return cs.ord, true
					}
					if a == "key" && b == "arg1" {
						return -cs.ord, true
					}
					return 0, false
				}}
				run := runTable(has, env, func(call *ssa.Call) string {
					if f := staticCallee(&call.Call); f != nil && (f.Name() == "getLeftNode" || f.Name() == "getRightNode") {
						return f.Name()
					}
					return ""
				})
				got := strings.Join(run.events, ",")
				if got == "" && run.ret != nil {
					got = roleOf(l, retVal(run.ret, 0), "node", 0)
				}
				c.decide("TABLE-lookup", fmt.Sprintf("Node.has: key vs node key %+d, leaf=%v", cs.ord, cs.leaf), l.pos(has.Pos()), got == cs.want, got, "does `"+got+"`, rule `"+cs.want+"`")
			}
		}
	}
	// ------------------------------------------------------------------ remove
	if which["remove"] {
		c.rule("TABLE-remove", "removal: leaf answer, descent direction, collapse of a one-child node, routing-key patch", 8)
		rr := l.Func("", "*MutableTree.recursiveRemove")
		if rr == nil {
			c.anchorMissing("TABLE-remove", "recursiveRemove")
			return
		}
		retRoles := func(run tableRun) string {
			if run.ret == nil {
				return "stuck"
			}
			var ps []string
			for i := 0; i < 4; i++ {
				ps = append(ps, roleOf(l, retVal(run.ret, i), "tree", 0))
			}
			return strings.Join(ps, " | ")
		}
		// leaf
		for _, eq := range []bool{true, false} {
			eq := eq
			env := &tableEnv{l: l, flag: map[string]int{"isLeaf()": 1}, cmp: func(a, b string) (int, bool) {
				if eq {
					return 0, true
				}
				return 1, true
			}}
			got := retRoles(runTable(rr, env, none))
			ws := "arg0 | nil | nil | false"
			if eq {
				ws = "nil | nil | arg0.value | true"
			}
			c.decide("TABLE-remove", fmt.Sprintf("recursiveRemove at a leaf: key matches = %v", eq), l.pos(rr.Pos()), got == ws, got, "returns `"+got+"`, rule `"+ws+"` (new subtree | new leftmost key | removed value | removed)")
		}
		// inner: direction × outcome
		type oc struct {
			name           string
			removed        int
			childNil       int
			newKeyNil      int
		}
		for _, ord := range []int{-1, 1} {
			for _, o := range []oc{{"key not found below", -1, -1, 1}, {"child leaf removed (collapse)", 1, 1, 1}, {"removed deeper, new leftmost key", 1, -1, -1}, {"removed deeper, leftmost unchanged", 1, -1, 1}} {
				ord, o := ord, o
				env := &tableEnv{l: l, flag: map[string]int{"isLeaf()": -1, "recursiveRemove()#3": o.removed}, cmp: func(a, b string) (int, bool) {
					if a == "arg1" && strings.HasSuffix(b, ".key") {
						return ord, true
					}
					return 0, false
				}}
				env.isNil = func(role string) int {
					switch {
					case strings.HasPrefix(role, "recursiveRemove(") && strings.HasSuffix(role, "#0"):
						return o.childNil
					case strings.HasPrefix(role, "recursiveRemove(") && strings.HasSuffix(role, "#1"):
						return o.newKeyNil
					}
					return 0
				}
				var evs []string
				run := runTable(rr, env, func(call *ssa.Call) string {
					f := staticCallee(&call.Call)
					if f == nil {
						return ""
					}
					switch {
					case f == rr:
						r := roleOf(l, call.Call.Args[1], "tree", 0)
						if strings.HasSuffix(r, "leftNode") {
							return "descend-left"
						}
						if strings.HasSuffix(r, "rightNode") {
							return "descend-right"
						}
						return "descend-" + r
					case f.Name() == "calcHeightAndSize", f.Name() == "balance":
						return f.Name()
					}
					return ""
				})
				evs = run.events
				// stores performed on the copied node along this path are not tracked by the walk; use the return roles
				got := strings.Join(evs, ",") + " ⇒ " + retRoles(run)
				cl := "clone(arg0,)#0"
				rec := "recursiveRemove(," + cl + "." + map[int]string{-1: "leftNode", 1: "rightNode"}[ord] + ",arg1)"
				dir := map[int]string{-1: "descend-left", 1: "descend-right"}[ord]
				var ws string
				switch {
				case o.removed < 0:
					ws = dir + " ⇒ " + cl + " | nil | " + rec + "#2 | " + rec + "#3"
				case o.childNil > 0 && ord < 0:
					ws = dir + " ⇒ " + cl + ".rightNode | " + cl + ".key | " + rec + "#2 | " + rec + "#3"
				case o.childNil > 0:
					ws = dir + " ⇒ " + cl + ".leftNode | nil | " + rec + "#2 | " + rec + "#3"
				case ord < 0:
					ws = dir + ",calcHeightAndSize,balance ⇒ balance(," + cl + ")#0 | " + rec + "#1 | " + rec + "#2 | " + rec + "#3"
				default:
					ws = dir + ",calcHeightAndSize,balance ⇒ balance(," + cl + ")#0 | nil | " + rec + "#2 | " + rec + "#3"
				}
				c.decide("TABLE-remove", fmt.Sprintf("recursiveRemove at an inner node: key %s routing key, %s", map[int]string{-1: "<", 1: ">="}[ord], o.name), l.pos(rr.Pos()), got == ws, got, "does `"+got+"`, removal rule `"+ws+"`")
			}
		}
		// routing-key patch on the right side
		fKey := l.Field("", "Node", "key")
		patched := false
		for _, st := range storesToField(rr, fKey) {
			if strings.HasSuffix(roleOf(l, st.Val, "tree", 0), "#1") {
				patched = true
			}
		}
		c.decide("TABLE-remove", "recursiveRemove patches the routing key from the right subtree's new leftmost key", l.pos(rr.Pos()), patched, "node.key = newKey", "the routing key is not updated when the leftmost key of the right subtree was removed: lookups mis-route")
	}
}

// checkV2TreeRules pins v2's in-place insertion and rotation as event sequences.
func checkV2TreeRules(c *Ctx, l *Loaded) {
	c.rule("TABLE-v2-rotate", "v2 rotation: orphan/mutate both nodes, re-wire, recompute lower node first", 2)
	c.rule("TABLE-v2-insert", "v2 insertion: leaf split / replace and descent direction", 6)
	ev := func(call *ssa.Call) string {
		f := staticCallee(&call.Call)
		if f == nil || !l.inModule(f) {
			return ""
		}
		switch f.Name() {
		case "mutateNode", "setLeft", "setRight", "calcHeightAndSize", "balance", "recursiveSet", "NewLeafNode", "_hash", "Get":
		default:
			return ""
		}
		var as []string
		for _, a := range call.Call.Args {
			as = append(as, roleOf(l, a, "", 0))
		}
		return f.Name() + "(" + strings.Join(as, ",") + ")"
	}
	stKey := func(st *ssa.Store) string {
		if fa, ok := st.Addr.(*ssa.FieldAddr); ok {
			switch fieldName(fa.X.Type(), fa.Field) {
			case "key", "value", "subtreeHeight", "size":
				if n := derefNamed(fa.X.Type()); n != nil && n.Obj().Name() == "Node" {
					return fieldName(fa.X.Type(), fa.Field) + ":=" + roleOf(l, st.Val, "", 0)
				}
			}
		}
		return ""
	}
	rot := map[string]string{
		"*Tree.rotateRight": "mutateNode(recv,arg0) ; mutateNode(recv,left(arg0,recv)) ; setLeft(arg0,right(left(arg0,recv),recv)) ; setRight(left(arg0,recv),arg0) ; calcHeightAndSize(arg0,recv) ; calcHeightAndSize(left(arg0,recv),recv) => left(arg0,recv)",
		"*Tree.rotateLeft":  "mutateNode(recv,arg0) ; mutateNode(recv,right(arg0,recv)) ; setRight(arg0,left(right(arg0,recv),recv)) ; setLeft(right(arg0,recv),arg0) ; calcHeightAndSize(arg0,recv) ; calcHeightAndSize(right(arg0,recv),recv) => right(arg0,recv)",
	}
	for _, name := range []string{"*Tree.rotateRight", "*Tree.rotateLeft"} {
		fn := l.Func("", name)
		if fn == nil {
			c.anchorMissing("TABLE-v2-rotate", name)
			continue
		}
		run := runTable(fn, &tableEnv{l: l, flag: map[string]int{}, cmp: func(a, b string) (int, bool) { return 0, false }}, ev)
		// the two mutateNode calls commute with each other (both only have to precede the re-wiring):
		// compare the leading run of mutateNode events as a set
		lead := 0
		for lead < len(run.events) && strings.HasPrefix(run.events[lead], "mutateNode(") {
			lead++
		}
		sort.Strings(run.events[:lead])
		got := strings.Join(run.events, " ; ") + " => stuck"
		if run.ret != nil {
			got = strings.Join(run.events, " ; ") + " => " + roleOf(l, retVal(run.ret, 0), "", 0)
		}
		c.decide("TABLE-v2-rotate", "v2 "+name, l.pos(fn.Pos()), got == rot[name], got, "rotation does `"+got+"`, the rule is `"+rot[name]+"`")
	}
	rs := l.Func("", "*Tree.recursiveSet")
	if rs == nil {
		c.anchorMissing("TABLE-v2-insert", "v2 Tree.recursiveSet")
		return
	}
	want := map[string]string{
		"-1 leaf":  "Get(recv.pool) ; key:=arg0.key ; subtreeHeight:=1 ; size:=2 ; NewLeafNode(recv,arg1,arg2) ; setLeft(Get(recv.pool),NewLeafNode(recv,arg1,arg2)) ; setRight(Get(recv.pool),arg0) => Get(recv.pool) | false",
		"1 leaf":   "Get(recv.pool) ; key:=arg1 ; subtreeHeight:=1 ; size:=2 ; setLeft(Get(recv.pool),arg0) ; NewLeafNode(recv,arg1,arg2) ; setRight(Get(recv.pool),NewLeafNode(recv,arg1,arg2)) => Get(recv.pool) | false",
		"0 leaf":   "mutateNode(recv,arg0) ; value:=arg2 ; _hash(arg0) => arg0 | true",
		"-1 inner": "mutateNode(recv,arg0) ; recursiveSet(recv,left(arg0,recv),arg1,arg2) ; setLeft(arg0,recursiveSet(recv,left(arg0,recv),arg1,arg2)#0) ; calcHeightAndSize(arg0,recv) ; balance(recv,arg0)",
		"0 inner":  "mutateNode(recv,arg0) ; recursiveSet(recv,right(arg0,recv),arg1,arg2) ; setRight(arg0,recursiveSet(recv,right(arg0,recv),arg1,arg2)#0) ; calcHeightAndSize(arg0,recv) ; balance(recv,arg0)",
		"1 inner":  "mutateNode(recv,arg0) ; recursiveSet(recv,right(arg0,recv),arg1,arg2) ; setRight(arg0,recursiveSet(recv,right(arg0,recv),arg1,arg2)#0) ; calcHeightAndSize(arg0,recv) ; balance(recv,arg0)",
	}
	for _, ord := range []int{-1, 0, 1} {
		for _, leaf := range []bool{true, false} {
			ord := ord
			env := &tableEnv{l: l, flag: map[string]int{"isLeaf()": map[bool]int{true: 1, false: -1}[leaf], "isReplaying": -1, "storeLeafValues": 1, "dirty": -1, "recursiveSet()#1": -1}, cmp: func(a, b string) (int, bool) {
				if a == "arg1" && strings.HasSuffix(b, ".key") {
					return ord, true
				}
				return 0, false
			}}
			run := runTableS(rs, env, ev, stKey)
			got := strings.Join(run.events, " ; ")
			k := fmt.Sprintf("%d %s", ord, map[bool]string{true: "leaf", false: "inner"}[leaf])
			if leaf {
				if run.ret != nil {
					got += " => " + roleOf(l, retVal(run.ret, 0), "", 0) + " | " + roleOf(l, retVal(run.ret, 1), "", 0)
				} else {
					got += " => stuck"
				}
			} else if run.ret == nil {
				got += " => stuck"
			}
			c.decide("TABLE-v2-insert", "v2 recursiveSet: key vs node key "+k, l.pos(rs.Pos()), got == want[k], got, "insertion does `"+got+"`, the rule is `"+want[k]+"`")
		}
	}
}

// checkCpIncrTable: "prefix + 1" as used for exclusive end bounds: walk one
// iteration of the carry loop for byte < 0xFF, byte == 0xFF at index > 0 and
// byte == 0xFF at index 0.
func checkCpIncrTable(c *Ctx, l *Loaded, rule, label string, fn *ssa.Function, tight bool) {
	if fn == nil {
		c.anchorMissing(rule, label)
		return
	}
	for _, sc := range []struct {
		name string
		b    int64
		i    int64
		want string
	}{
		{"last byte < 0xFF", 0x10, 2, "elem:=(elem+1) ; return value"},
		{"byte == 0xFF at index > 0", 0xFF, 2, "elem:=0 ; <loop>"},
		{"byte == 0xFF at index 0", 0xFF, 0, "elem:=0 ; return nil"},
	} {
		sc := sc
		env := &tableEnv{l: l, flag: map[string]int{}, cmp: func(a, b string) (int, bool) { return 0, false }}
		env.ints = func(v ssa.Value, role string) (int64, bool) {
			if _, isPhi := stripTrivial(v).(*ssa.Phi); isPhi {
				return sc.i, true // loop index
			}
			switch {
			case strings.HasSuffix(role, "[i]"):
				return sc.b, true
			case role == "len(arg0)":
				return 3, true
			case strings.HasPrefix(role, "(len(arg0)-1)"):
				return sc.i, true
			}
			return 0, false
		}
		run := runTableS(fn, env, func(call *ssa.Call) string { return "" }, func(st *ssa.Store) string {
			if _, ok := st.Addr.(*ssa.IndexAddr); ok {
				v := stripTrivial(st.Val)
				if k, isC := constInt(v); isC {
					return fmt.Sprintf("elem:=%d", k)
				}
				if bo, ok := v.(*ssa.BinOp); ok && bo.Op == token.ADD {
					if k, isC := constInt(bo.Y); isC && k == 1 {
						return "elem:=(elem+1)"
					}
				}
				return "elem:=?"
			}
			return ""
		})
		got := strings.Join(run.events, " ; ")
		if run.ret != nil {
			if isNilConst(stripTrivial(retVal(run.ret, 0))) {
				got += " ; return nil"
			} else {
				got += " ; return value"
			}
		} else if run.stuck != nil {
			got += " ; stuck at " + l.ipos(run.stuck)
		}
		okRow := got == sc.want
		if tight && sc.b == 0xFF {
			// the bound is cut after the incremented byte: what is written into the carried positions is cut off with
			// them, so zeroing them is optional; moving on to the next byte (or overflowing to nil) is what matters
			stripped := strings.TrimPrefix(got, "elem:=0 ; ")
			okRow = stripped == strings.TrimPrefix(sc.want, "elem:=0 ; ") || stripped == "<loop>"
		}
		c.decide(rule, label+": "+sc.name, l.pos(fn.Pos()), okRow, got, "does `"+got+"`, increment-with-carry is `"+sc.want+"` (a 0xFF byte becomes 0x00 and the carry moves left; all-0xFF overflows to nil)")
		// the bound used for REVERSE ranges must be tight: cut after the incremented byte ({01 FF} → {02}); the
		// same-length {02 00} admits the foreign key {02}, on which the reverse cursor starts — and the namespace looks empty
		if tight && sc.i == 2 && sc.b != 0xFF && run.ret != nil {
			okCut := false
			if sl, isSl := stripTrivial(retVal(run.ret, 0)).(*ssa.Slice); isSl && sl.High != nil {
				if bo, isBo := stripTrivial(sl.High).(*ssa.BinOp); isBo && bo.Op == token.ADD {
					if k, isC := constInt(bo.Y); isC && k == 1 {
						if _, isPhi := stripTrivial(bo.X).(*ssa.Phi); isPhi {
							okCut = true
						}
					}
				}
			}
			c.decide(rule, label+": the incremented prefix is cut after the incremented byte", l.ipos(run.ret), okCut, "returns ret[:i+1]",
				"the incremented prefix keeps its length (carry bytes become 0x00): it is not a tight end bound of the prefix range — for a prefix ending in 0xFF a foreign key (the truncated increment) sorts below it, the reverse iterator of the wrapped store starts on that key, and the namespace appears empty")
		}
	}
}

// checkV2RemoveLookup pins v2's in-place removal and its lookup as event
// sequences over (leaf / inner) × ordering × outcome of the recursive call.
func checkV2RemoveLookup(c *Ctx, l *Loaded) {
	c.rule("TABLE-v2-remove", "v2 removal: leaf answer, descent direction, collapse, routing-key patch, orphan/mutate protocol", 10)
	c.rule("TABLE-v2-lookup", "v2 lookup: leaf answers and descent direction", 5)
	rr := l.Func("", "*Tree.recursiveRemove")
	get := l.Func("", "*Node.get")
	if rr == nil || get == nil {
		c.anchorMissing("TABLE-v2-remove", "v2 Tree.recursiveRemove / Node.get")
		return
	}
	ev := func(call *ssa.Call) string {
		f := staticCallee(&call.Call)
		if f == nil || !l.inModule(f) {
			return ""
		}
		switch f.Name() {
		case "mutateNode", "setLeft", "setRight", "calcHeightAndSize", "balance", "recursiveRemove", "addOrphan", "addDelete", "returnNode", "get":
		default:
			return ""
		}
		var as []string
		for _, a := range call.Call.Args {
			as = append(as, roleOf(l, a, "", 0))
		}
		return f.Name() + "(" + strings.Join(as, ",") + ")"
	}
	stKey := func(st *ssa.Store) string {
		if fa, ok := st.Addr.(*ssa.FieldAddr); ok {
			switch fieldName(fa.X.Type(), fa.Field) {
			case "key", "value", "subtreeHeight", "size":
				if n := derefNamed(fa.X.Type()); n != nil && n.Obj().Name() == "Node" {
					return fieldName(fa.X.Type(), fa.Field) + ":=" + roleOf(l, st.Val, "", 0)
				}
			}
		}
		return ""
	}
	rets := func(run tableRun, n int) string {
		if run.ret == nil {
			return "stuck"
		}
		var ps []string
		for i := 0; i < n; i++ {
			ps = append(ps, roleOf(l, retVal(run.ret, i), "", 0))
		}
		return strings.Join(ps, " | ")
	}
	want := v2RemoveWant
	// leaf
	for _, eq := range []bool{true, false} {
		eq := eq
		env := &tableEnv{l: l, flag: map[string]int{"isLeaf()": 1}, cmp: func(a, b string) (int, bool) {
			if eq {
				return 0, true
			}
			return 1, true
		}}
		run := runTableS(rr, env, ev, stKey)
		got := strings.Join(run.events, " ; ") + " => " + rets(run, 4)
		k := fmt.Sprintf("leaf eq=%v", eq)
		c.decide("TABLE-v2-remove", "v2 recursiveRemove at a "+k, l.pos(rr.Pos()), got == want[k], got, "removal does `"+got+"`, the rule is `"+want[k]+"`")
	}
	type oc struct {
		name                        string
		removed, childNil, newKeyNil int
	}
	for _, ord := range []int{-1, 1} {
		for _, o := range []oc{{"not found", -1, -1, 1}, {"collapse", 1, 1, 1}, {"deeper newkey", 1, -1, -1}, {"deeper", 1, -1, 1}} {
			ord, o := ord, o
			env := &tableEnv{l: l, flag: map[string]int{"isLeaf()": -1, "recursiveRemove()#3": o.removed}, cmp: func(a, b string) (int, bool) {
				if a == "arg1" && strings.HasSuffix(b, ".key") {
					return ord, true
				}
				return 0, false
			}}
			env.isNil = func(role string) int {
				switch {
				case strings.HasPrefix(role, "recursiveRemove(") && strings.HasSuffix(role, "#0"):
					return o.childNil
				case strings.HasPrefix(role, "recursiveRemove(") && strings.HasSuffix(role, "#1"):
					return o.newKeyNil
				}
				return 0
			}
			run := runTableS(rr, env, ev, stKey)
			got := strings.Join(run.events, " ; ") + " => " + rets(run, 4)
			k := fmt.Sprintf("inner ord=%d %s", ord, o.name)
			c.decide("TABLE-v2-remove", "v2 recursiveRemove at an "+k, l.pos(rr.Pos()), got == want[k], got, "removal does `"+got+"`, the rule is `"+want[k]+"`")
		}
	}
	// lookup
	for _, ord := range []int{-1, 0, 1} {
		ord := ord
		env := &tableEnv{l: l, flag: map[string]int{"isLeaf()": 1}, cmp: func(a, b string) (int, bool) {
			// bytes.Compare(node.key, key)
			if strings.HasSuffix(a, "key") && b == "arg1" {
				return ord, true
			}
			if a == "arg1" && strings.HasSuffix(b, "key") {
				return -ord, true
			}
			return 0, false
		}}
		run := runTableS(get, env, ev, stKey)
		got := strings.Join(run.events, " ; ") + " => " + rets(run, 3)
		k := fmt.Sprintf("get leaf node.key vs key %d", ord)
		c.decide("TABLE-v2-lookup", "v2 "+k, l.pos(get.Pos()), got == want[k], got, "lookup does `"+got+"`, the rule is `"+want[k]+"`")
	}
	for _, ord := range []int{-1, 1} {
		ord := ord
		env := &tableEnv{l: l, flag: map[string]int{"isLeaf()": -1}, cmp: func(a, b string) (int, bool) {
			if a == "arg1" && strings.HasSuffix(b, "key") {
				return ord, true
			}
			return 0, false
		}}
		env.isNil = func(role string) int {
			if strings.Contains(role, "getLeftNode(") || strings.Contains(role, "getRightNode(") {
				if strings.HasSuffix(role, "#1") {
					return 1 // no error
				}
			}
			return 0
		}
		run := runTableS(get, env, func(call *ssa.Call) string {
			f := staticCallee(&call.Call)
			if f == nil {
				return ""
			}
			switch f.Name() {
			case "getLeftNode", "getRightNode":
				return f.Name()
			case "get":
				return "get(" + roleOf(l, call.Call.Args[0], "", 0) + "," + roleOf(l, call.Call.Args[2], "", 0) + ")"
			}
			return ""
		}, stKey)
		got := strings.Join(run.events, " ; ") + " => " + rets(run, 3)
		k := fmt.Sprintf("get inner key vs node.key %d", ord)
		c.decide("TABLE-v2-lookup", "v2 "+k, l.pos(get.Pos()), got == want[k], got, "lookup does `"+got+"`, the rule is `"+want[k]+"`")
	}
}

var v2RemoveWant = map[string]string{
	"get inner key vs node.key -1": "getLeftNode ; get(getLeftNode(recv,arg0)#0,arg1) => get(getLeftNode(recv,arg0)#0,arg0,arg1)#0 | get(getLeftNode(recv,arg0)#0,arg0,arg1)#1 | get(getLeftNode(recv,arg0)#0,arg0,arg1)#2",
	"get inner key vs node.key 1": "getRightNode ; get(getRightNode(recv,arg0)#0,arg1) => (get(getRightNode(recv,arg0)#0,arg0,arg1)#0+(recv.size-getRightNode(recv,arg0)#0.size)) | get(getRightNode(recv,arg0)#0,arg0,arg1)#1 | nil",
	"get leaf node.key vs key -1": " => 1 | nil | nil",
	"get leaf node.key vs key 0": " => 0 | recv.value | nil",
	"get leaf node.key vs key 1": " => 0 | nil | nil",
	"inner ord=-1 collapse": "recursiveRemove(recv,left(arg0,recv),arg1) ; addOrphan(recv,arg0) ; returnNode(recv,arg0) => right(arg0,recv) | arg0.key | recursiveRemove(recv,left(arg0,recv),arg1)#2 | recursiveRemove(recv,left(arg0,recv),arg1)#3",
	"inner ord=-1 deeper": "recursiveRemove(recv,left(arg0,recv),arg1) ; addOrphan(recv,arg0) ; mutateNode(recv,arg0) ; setLeft(arg0,recursiveRemove(recv,left(arg0,recv),arg1)#0) ; calcHeightAndSize(arg0,recv) ; balance(recv,arg0) => balance(recv,arg0)#0 | recursiveRemove(recv,left(arg0,recv),arg1)#1 | recursiveRemove(recv,left(arg0,recv),arg1)#2 | recursiveRemove(recv,left(arg0,recv),arg1)#3",
	"inner ord=-1 deeper newkey": "recursiveRemove(recv,left(arg0,recv),arg1) ; addOrphan(recv,arg0) ; mutateNode(recv,arg0) ; setLeft(arg0,recursiveRemove(recv,left(arg0,recv),arg1)#0) ; calcHeightAndSize(arg0,recv) ; balance(recv,arg0) => balance(recv,arg0)#0 | recursiveRemove(recv,left(arg0,recv),arg1)#1 | recursiveRemove(recv,left(arg0,recv),arg1)#2 | recursiveRemove(recv,left(arg0,recv),arg1)#3",
	"inner ord=-1 not found": "recursiveRemove(recv,left(arg0,recv),arg1) => arg0 | nil | recursiveRemove(recv,left(arg0,recv),arg1)#2 | recursiveRemove(recv,left(arg0,recv),arg1)#3",
	"inner ord=1 collapse": "recursiveRemove(recv,right(arg0,recv),arg1) ; addOrphan(recv,arg0) ; returnNode(recv,arg0) => left(arg0,recv) | nil | recursiveRemove(recv,right(arg0,recv),arg1)#2 | recursiveRemove(recv,right(arg0,recv),arg1)#3",
	"inner ord=1 deeper": "recursiveRemove(recv,right(arg0,recv),arg1) ; addOrphan(recv,arg0) ; mutateNode(recv,arg0) ; setRight(arg0,recursiveRemove(recv,right(arg0,recv),arg1)#0) ; calcHeightAndSize(arg0,recv) ; balance(recv,arg0) => balance(recv,arg0)#0 | nil | recursiveRemove(recv,right(arg0,recv),arg1)#2 | recursiveRemove(recv,right(arg0,recv),arg1)#3",
	"inner ord=1 deeper newkey": "recursiveRemove(recv,right(arg0,recv),arg1) ; addOrphan(recv,arg0) ; mutateNode(recv,arg0) ; setRight(arg0,recursiveRemove(recv,right(arg0,recv),arg1)#0) ; key:=recursiveRemove(recv,right(arg0,recv),arg1)#1 ; calcHeightAndSize(arg0,recv) ; balance(recv,arg0) => balance(recv,arg0)#0 | nil | recursiveRemove(recv,right(arg0,recv),arg1)#2 | recursiveRemove(recv,right(arg0,recv),arg1)#3",
	"inner ord=1 not found": "recursiveRemove(recv,right(arg0,recv),arg1) => arg0 | nil | recursiveRemove(recv,right(arg0,recv),arg1)#2 | recursiveRemove(recv,right(arg0,recv),arg1)#3",
	"leaf eq=false": " => arg0 | nil | nil | false",
	"leaf eq=true": "addDelete(recv,arg0) ; returnNode(recv,arg0) => nil | nil | arg0.value | true",
}

// checkV2IterTable walks one iteration of the v2 tree iterator's step loops
// for every combination of node kind, bounds present/absent, ordering of the
// node key against the bounds, inclusiveness and "already started".
//   ascending leaf : key < start (before the first yield) ⇒ skip; past the end ⇒ stop; else yield
//   ascending inner: start < routing key ⇒ visit left then right; else right only
//   descending leaf: before the first yield, key > end (>= end if exclusive) ⇒ skip; key < start ⇒ stop; else yield
//   descending inner: end absent or routing key <= end ⇒ visit right then left; else left only
//   isPastEndAscend(key): end present and key > end (>= end if exclusive); isPastEndDescend(key): start present and key < start
func checkV2IterTable(c *Ctx, l *Loaded) {
	const R = "TABLE-v2-iter"
	c.rule(R, "v2 tree iterator: per-node skip / stop / yield / descent decision over all bound and ordering combinations", 40)
	asc, desc := l.Func("", "*TreeIterator.stepAscend"), l.Func("", "*TreeIterator.stepDescend")
	pea, ped := l.Func("", "*TreeIterator.isPastEndAscend"), l.Func("", "*TreeIterator.isPastEndDescend")
	if asc == nil || desc == nil || pea == nil || ped == nil {
		c.anchorMissing(R, "TreeIterator.stepAscend / stepDescend / isPastEndAscend / isPastEndDescend")
		return
	}
	b2i := func(b bool) int {
		if b {
			return 1
		}
		return -1
	}
	ev := func(call *ssa.Call) string {
		f := staticCallee(&call.Call)
		if f == nil || !l.inModule(f) {
			return ""
		}
		if f.Name() == "push" {
			r := roleOf(l, call.Call.Args[1], "", 0)
			switch {
			case strings.Contains(r, "getLeftNode("):
				return "push-left"
			case strings.Contains(r, "getRightNode("):
				return "push-right"
			}
			return "push(" + r + ")"
		}
		return ""
	}
	st := func(s *ssa.Store) string {
		fa, ok := s.Addr.(*ssa.FieldAddr)
		if !ok {
			return ""
		}
		n := derefNamed(fa.X.Type())
		if n == nil || n.Obj().Name() != "TreeIterator" {
			return ""
		}
		f := fieldName(fa.X.Type(), fa.Field)
		switch f {
		case "valid":
			return "valid:=" + roleOf(l, s.Val, "", 0)
		case "key":
			return "yield"
		}
		return ""
	}
	outcome := func(run tableRun) string {
		evs := strings.Join(run.events, ",")
		switch {
		case strings.Contains(evs, "<loop>"):
			return strings.TrimSuffix(strings.TrimSuffix(evs, "<loop>"), ",") + "|next-node"
		case run.ret == nil:
			return evs + "|stuck"
		}
		return evs
	}
	// ---- helpers
	for _, endNil := range []bool{true, false} {
		for _, incl := range []bool{true, false} {
			for _, ord := range []int{-1, 0, 1} {
				if endNil && (ord != 0 || incl) {
					continue
				}
				ord := ord
				env := &tableEnv{l: l, flag: map[string]int{"inclusive": b2i(incl)}, cmp: func(a, b string) (int, bool) {
					if a == "arg0" && b == "end" {
						return ord, true
					}
					return 0, false
				}}
				env.isNil = func(role string) int {
					if role == "end" {
						return b2i(endNil)
					}
					return 0
				}
				run := runTable(pea, env, func(*ssa.Call) string { return "" })
				got := "stuck"
				if run.ret != nil {
					got = roleOfBool(l, retVal(run.ret, 0), env)
				}
				want := "false"
				if !endNil && (ord > 0 || (ord == 0 && !incl)) {
					want = "true"
				}
				c.decide(R, fmt.Sprintf("isPastEndAscend: end absent=%v inclusive=%v key vs end %d", endNil, incl, ord), l.pos(pea.Pos()), got == want, got, "returns "+got+", rule "+want)
			}
		}
	}
	for _, startNil := range []bool{true, false} {
		for _, ord := range []int{-1, 0, 1} {
			if startNil && ord != 0 {
				continue
			}
			ord := ord
			env := &tableEnv{l: l, flag: map[string]int{}, cmp: func(a, b string) (int, bool) {
				if a == "arg0" && b == "start" {
					return ord, true
				}
				return 0, false
			}}
			env.isNil = func(role string) int {
				if role == "start" {
					return b2i(startNil)
				}
				return 0
			}
			run := runTable(ped, env, func(*ssa.Call) string { return "" })
			got := "stuck"
			if run.ret != nil {
				got = roleOfBool(l, retVal(run.ret, 0), env)
			}
			want := "false"
			if !startNil && ord < 0 {
				want = "true"
			}
			c.decide(R, fmt.Sprintf("isPastEndDescend: start absent=%v key vs start %d", startNil, ord), l.pos(ped.Pos()), got == want, got, "returns "+got+", rule "+want)
		}
	}
	// ---- ascending
	for _, started := range []bool{false, true} {
		for _, ordStart := range []int{-1, 0, 1} {
			if started && ordStart < 0 {
				continue // unreachable: once started every later key is >= start
			}
			for _, past := range []bool{false, true} {
				ordStart := ordStart
				env := &tableEnv{l: l, flag: map[string]int{"isLeaf()": 1, "started": b2i(started), "isPastEndAscend()": b2i(past)}, cmp: func(a, b string) (int, bool) {
					if strings.HasSuffix(a, ".key") && b == "start" {
						return ordStart, true
					}
					if a == "start" && strings.HasSuffix(b, ".key") {
						return -ordStart, true
					}
					return 0, false
				}}
				env.isNil = func(role string) int {
					if strings.HasPrefix(role, "pop(") {
						return -1
					}
					return 0
				}
				got := outcome(runTableS(asc, env, ev, st))
				want := "yield"
				switch {
				case !started && ordStart < 0:
					want = "|next-node"
				case past:
					want = "valid:=false"
				}
				c.decide(R, fmt.Sprintf("ascending leaf: started=%v key vs start %d past end=%v", started, ordStart, past), l.pos(asc.Pos()), got == want, got, "does `"+got+"`, rule `"+want+"`")
			}
		}
	}
	for _, ord := range []int{-1, 0, 1} { // start vs routing key
		ord := ord
		env := &tableEnv{l: l, flag: map[string]int{"isLeaf()": -1}, cmp: func(a, b string) (int, bool) {
			if a == "start" && strings.HasSuffix(b, ".key") {
				return ord, true
			}
			if strings.HasSuffix(a, ".key") && b == "start" {
				return -ord, true
			}
			return 0, false
		}}
		env.isNil = func(role string) int {
			if strings.HasPrefix(role, "pop(") {
				return -1
			}
			return 0
		}
		got := outcome(runTableS(asc, env, ev, st))
		want := "push-right|next-node"
		if ord < 0 {
			want = "push-right,push-left|next-node"
		}
		c.decide(R, fmt.Sprintf("ascending inner: start vs routing key %d", ord), l.pos(asc.Pos()), got == want, got, "does `"+got+"`, rule `"+want+"` (the stack pops the left subtree first)")
	}
	// ---- descending.  Side condition (checked): no constructor builds a descending iterator with an
	// inclusive end, so that combination is not part of the decision domain.
	if tiT := l.NamedType("", "TreeIterator"); tiT == nil {
		c.anchorMissing(R, "TreeIterator")
	} else {
		nLit := 0
		for _, fn := range l.SrcFuncs {
			if !l.inModule(fn) {
				continue
			}
			for _, m := range structLiteralStores(fn, tiT) {
				if len(m) == 0 {
					continue
				}
				nLit++
				asc := roleOf(l, m["ascending"], "", 0)
				incl := "false"
				if v, ok := m["inclusive"]; ok {
					incl = roleOf(l, v, "", 0)
				}
				ok := asc == "true" || incl == "false"
				c.decide(R, "TreeIterator built in "+l.fname(fn)+": descending ⇒ exclusive end", l.pos(fn.Pos()), ok, "ascending="+asc+" inclusive="+incl, "a descending iterator with an inclusive end is constructed (ascending="+asc+", inclusive="+incl+"): stepDescend skips the key equal to the end bound in that mode")
			}
		}
		if nLit < 2 {
			c.anchorMissing(R, "fewer than 2 TreeIterator literals")
		}
	}
	for _, started := range []bool{false, true} {
		for _, endNil := range []bool{true, false} {
			for _, incl := range []bool{false} {
				for _, ordEnd := range []int{-1, 0, 1} { // end vs key
					if endNil && (ordEnd != 0 || incl) {
						continue
					}
					if started && !endNil && (ordEnd < 0 || (ordEnd == 0 && !incl)) {
						continue // unreachable once started
					}
					for _, past := range []bool{false, true} {
						ordEnd := ordEnd
						env := &tableEnv{l: l, flag: map[string]int{"isLeaf()": 1, "started": b2i(started), "inclusive": b2i(incl), "isPastEndDescend()": b2i(past)}, cmp: func(a, b string) (int, bool) {
							if a == "end" && strings.HasSuffix(b, ".key") {
								return ordEnd, true
							}
							if strings.HasSuffix(a, ".key") && b == "end" {
								return -ordEnd, true
							}
							return 0, false
						}}
						env.isNil = func(role string) int {
							if strings.HasPrefix(role, "pop(") {
								return -1
							}
							if role == "end" {
								return b2i(endNil)
							}
							return 0
						}
						got := outcome(runTableS(desc, env, ev, st))
						want := "yield"
						switch {
						case !started && !endNil && (ordEnd < 0 || (ordEnd == 0 && !incl)):
							want = "|next-node"
						case past:
							want = "valid:=false"
						}
						c.decide(R, fmt.Sprintf("descending leaf: started=%v end absent=%v inclusive=%v end vs key %d past start=%v", started, endNil, incl, ordEnd, past), l.pos(desc.Pos()), got == want, got, "does `"+got+"`, rule `"+want+"`")
					}
				}
			}
		}
	}
	for _, endNil := range []bool{true, false} {
		for _, ord := range []int{-1, 0, 1} { // routing key vs end
			if endNil && ord != 0 {
				continue
			}
			ord := ord
			env := &tableEnv{l: l, flag: map[string]int{"isLeaf()": -1}, cmp: func(a, b string) (int, bool) {
				if strings.HasSuffix(a, ".key") && b == "end" {
					return ord, true
				}
				if a == "end" && strings.HasSuffix(b, ".key") {
					return -ord, true
				}
				return 0, false
			}}
			env.isNil = func(role string) int {
				if strings.HasPrefix(role, "pop(") {
					return -1
				}
				if role == "end" {
					return b2i(endNil)
				}
				return 0
			}
			got := outcome(runTableS(desc, env, ev, st))
			want := "push-left|next-node"
			if endNil || ord <= 0 {
				want = "push-left,push-right|next-node"
			}
			c.decide(R, fmt.Sprintf("descending inner: end absent=%v routing key vs end %d", endNil, ord), l.pos(desc.Pos()), got == want, got, "does `"+got+"`, rule `"+want+"` (the stack pops the right subtree first)")
		}
	}
}

// roleOfBool renders a boolean result under the environment: a constant, or
// the value the environment gives a comparison.
func roleOfBool(l *Loaded, v ssa.Value, env *tableEnv) string {
	w := &walker{env: &walkEnv{evalAtom: env.atom}, vals: map[ssa.Value]int{}}
	switch w.eval(v, 0) {
	case 1:
		return "true"
	case -1:
		return "false"
	}
	return roleOf(l, v, env.recv, 0)
}
